"""Engine B (guardtable): path conditions of effect sites as finite decision tables.

A *structured walk* from the function body down to every effect site collects
  - the enclosing if/elif/else/while tests with polarity,
  - the negations contributed by earlier early-exit statements of the same block
    (`if c: continue|return|raise|break`),
  - enclosing `for` targets with their iteration source, comprehension generators/filters,
  - straight-line local definitions that precede the site (name -> value expression).
Formulas over rule-specific atoms are compared by exhaustive valuation.
"""
from __future__ import annotations

import ast
import itertools
from dataclasses import dataclass, field
from typing import Callable, Dict, List, Optional, Sequence, Tuple

from .core import AnalysisError, norm, unparse, walk_no_nested


@dataclass
class Site:
    node: ast.AST                     # the effect node
    stmt: ast.stmt                    # statement containing it
    conds: List[Tuple[ast.expr, bool]]  # (test, polarity) that hold when the site executes
    loops: List[Tuple[ast.expr, ast.expr]]  # (target, iter) of enclosing for loops / comprehensions, outermost first
    defs: Dict[str, ast.expr]         # straight-line local definitions visible at the site (last one wins)
    in_try: bool = False
    validation: frozenset = frozenset()  # ids of tests whose polarity is known only because the other branch raises


def terminates(stmts: Sequence[ast.stmt]) -> bool:
    """Does this block always leave the enclosing block (continue/break/return/raise)?"""
    if not stmts:
        return False
    last = stmts[-1]
    if isinstance(last, (ast.Continue, ast.Break, ast.Return, ast.Raise)):
        return True
    if isinstance(last, ast.If):
        return terminates(last.body) and terminates(last.orelse)
    if isinstance(last, (ast.With,)):
        return terminates(last.body)
    return False


def _header_exprs(st: ast.stmt) -> List[ast.AST]:
    if isinstance(st, (ast.Expr, ast.Return, ast.Assign, ast.AugAssign, ast.AnnAssign, ast.Raise, ast.Delete, ast.Assert)):
        return [st]
    if isinstance(st, (ast.If, ast.While)):
        return [st.test]
    if isinstance(st, ast.For):
        return [st.iter]
    if isinstance(st, ast.With):
        return [i.context_expr for i in st.items]
    return []


def _walk_expr(e: ast.AST, conds, loops, defs, is_effect, out, stmt, in_try):
    """Walk an expression, looking through comprehensions / ternaries / boolean short-circuits."""
    if isinstance(e, (ast.FunctionDef, ast.AsyncFunctionDef, ast.ClassDef, ast.Lambda)):
        return
    if is_effect(e):
        out.append(Site(e, stmt, list(conds), list(loops), dict(defs), in_try))
    if isinstance(e, (ast.ListComp, ast.SetComp, ast.GeneratorExp, ast.DictComp)):
        c2, l2 = list(conds), list(loops)
        for g in e.generators:
            _walk_expr(g.iter, c2, l2, defs, is_effect, out, stmt, in_try)
            l2 = l2 + [(g.target, g.iter)]
            for f in g.ifs:
                _walk_expr(f, c2, l2, defs, is_effect, out, stmt, in_try)
                c2 = c2 + [_cond(f, True)]
        elts = [e.key, e.value] if isinstance(e, ast.DictComp) else [e.elt]
        for x in elts:
            _walk_expr(x, c2, l2, defs, is_effect, out, stmt, in_try)
        return
    if isinstance(e, ast.IfExp):
        _walk_expr(e.test, conds, loops, defs, is_effect, out, stmt, in_try)
        _walk_expr(e.body, conds + [_cond(e.test, True)], loops, defs, is_effect, out, stmt, in_try)
        _walk_expr(e.orelse, conds + [_cond(e.test, False)], loops, defs, is_effect, out, stmt, in_try)
        return
    if isinstance(e, ast.BoolOp):
        c2 = list(conds)
        for v in e.values:
            _walk_expr(v, c2, loops, defs, is_effect, out, stmt, in_try)
            c2 = c2 + [_cond(v, isinstance(e.op, ast.And))]
        return
    for c in ast.iter_child_nodes(e):
        _walk_expr(c, conds, loops, defs, is_effect, out, stmt, in_try)


def _assigned_names(st: ast.stmt) -> List[str]:
    out = []
    for n in ast.walk(st):
        if isinstance(n, ast.Name) and isinstance(n.ctx, (ast.Store, ast.Del)):
            out.append(n.id)
    return out


def _cond(test, pol):
    """path conditions are stored without leading `not`s: (not X, True) is (X, False) — rules never depend on how a branch was phrased"""
    while isinstance(test, ast.UnaryOp) and isinstance(test.op, ast.Not):
        test, pol = test.operand, not pol
    return (test, pol)


def walk_block(stmts, conds, loops, defs, is_effect, out, in_try=False):
    conds = list(conds)
    defs = dict(defs)
    for st in stmts:
        if isinstance(st, (ast.FunctionDef, ast.AsyncFunctionDef, ast.ClassDef)):
            continue
        for h in _header_exprs(st):
            _walk_expr(h, conds, loops, defs, is_effect, out, st, in_try)
        if isinstance(st, ast.If):
            after_body = walk_block(st.body, conds + [_cond(st.test, True)], loops, defs, is_effect, out, in_try)
            after_else = walk_block(st.orelse, conds + [_cond(st.test, False)], loops, defs, is_effect, out, in_try)
            if terminates(st.body) and not terminates(st.orelse):
                # execution continues only through the else path: keep everything known at its end
                # (this carries the negations of an `elif ...: raise` chain)
                conds = after_else
                if _only_raises(st.body):
                    _VALIDATION.add(id(_cond(st.test, True)[0]))
            elif st.orelse and terminates(st.orelse) and not terminates(st.body):
                conds = after_body
                if _only_raises(st.orelse):
                    _VALIDATION.add(id(_cond(st.test, True)[0]))
            for n in _assigned_names(st):
                defs.pop(n, None)
        elif isinstance(st, ast.For):
            inner = dict(defs)
            for n in _assigned_names(st):
                inner.pop(n, None)
            walk_block(st.body, conds, loops + [(st.target, st.iter)], inner, is_effect, out, in_try)
            walk_block(st.orelse, conds, loops, inner, is_effect, out, in_try)
            for n in _assigned_names(st):
                defs.pop(n, None)
        elif isinstance(st, ast.While):
            inner = dict(defs)
            for n in _assigned_names(st):
                inner.pop(n, None)
            walk_block(st.body, conds + [_cond(st.test, True)], loops, inner, is_effect, out, in_try)
            for n in _assigned_names(st):
                defs.pop(n, None)
        elif isinstance(st, ast.With):
            walk_block(st.body, conds, loops, defs, is_effect, out, in_try)
            for n in _assigned_names(st):
                defs.pop(n, None)
        elif isinstance(st, ast.Try):
            walk_block(st.body, conds, loops, defs, is_effect, out, True)
            for h in st.handlers:
                walk_block(h.body, conds, loops, defs, is_effect, out, in_try)
            walk_block(st.orelse, conds, loops, defs, is_effect, out, in_try)
            walk_block(st.finalbody, conds, loops, defs, is_effect, out, in_try)
            for n in _assigned_names(st):
                defs.pop(n, None)
        elif isinstance(st, ast.Assign) and len(st.targets) == 1:
            t = st.targets[0]
            if isinstance(t, ast.Name):
                defs[t.id] = st.value
            elif isinstance(t, (ast.Tuple, ast.List)) and isinstance(st.value, (ast.Tuple, ast.List)) and len(t.elts) == len(st.value.elts):
                for a, b in zip(t.elts, st.value.elts):
                    if isinstance(a, ast.Name):
                        defs[a.id] = b
            else:
                for n in _assigned_names(st):
                    defs.pop(n, None)
        elif isinstance(st, (ast.AugAssign, ast.AnnAssign, ast.Delete)):
            for n in _assigned_names(st):
                defs.pop(n, None)
    return conds


_VALIDATION = set()


def _only_raises(stmts) -> bool:
    """the block does nothing but raise (an argument-validation guard)"""
    if not stmts:
        return False
    last = stmts[-1]
    if isinstance(last, ast.Raise):
        return all(isinstance(x, (ast.Raise, ast.Expr, ast.Assign)) for x in stmts)
    if isinstance(last, ast.If):
        return _only_raises(last.body) and _only_raises(last.orelse)
    return False


def sites(fn: ast.FunctionDef, is_effect: Callable[[ast.AST], bool]) -> List[Site]:
    out: List[Site] = []
    _VALIDATION.clear()
    walk_block(fn.body, [], [], {}, is_effect, out)
    val = frozenset(_VALIDATION)
    for s in out:
        s.validation = val
    return out


def is_call_named(*names):
    ns = set(names)

    def pred(n):
        return isinstance(n, ast.Call) and (
            (isinstance(n.func, ast.Attribute) and n.func.attr in ns) or (isinstance(n.func, ast.Name) and n.func.id in ns)
        )

    return pred


# --------------------------------------------------------------------------------------
# formulas

T = ("const", True)
F = ("const", False)


def A(key):
    return ("atom", key)


def Not(f):
    if f[0] == "const":
        return ("const", not f[1])
    if f[0] == "not":
        return f[1]
    return ("not", f)


def And(*fs):
    flat = []
    for f in fs:
        if f[0] == "and":
            flat.extend(f[1])
        elif f == T:
            continue
        else:
            flat.append(f)
    if not flat:
        return T
    return ("and", flat) if len(flat) > 1 else flat[0]


def Or(*fs):
    flat = []
    for f in fs:
        if f[0] == "or":
            flat.extend(f[1])
        elif f == F:
            continue
        else:
            flat.append(f)
    if not flat:
        return F
    return ("or", flat) if len(flat) > 1 else flat[0]


def atoms_of(f, acc=None):
    acc = set() if acc is None else acc
    if f[0] == "atom":
        acc.add(f[1])
    elif f[0] == "not":
        atoms_of(f[1], acc)
    elif f[0] in ("and", "or"):
        for g in f[1]:
            atoms_of(g, acc)
    return acc


def evaluate(f, val: Dict) -> bool:
    k = f[0]
    if k == "const":
        return f[1]
    if k == "atom":
        return val[f[1]]
    if k == "not":
        return not evaluate(f[1], val)
    if k == "and":
        return all(evaluate(g, val) for g in f[1])
    if k == "or":
        return any(evaluate(g, val) for g in f[1])
    raise ValueError(f)


def valuations(atoms: Sequence, constraint=None):
    atoms = sorted(atoms, key=repr)
    if len(atoms) > 16:
        raise AnalysisError(f"too many atoms for exhaustive valuation: {len(atoms)}")
    for bits in itertools.product([False, True], repeat=len(atoms)):
        v = dict(zip(atoms, bits))
        if constraint is None or constraint(v):
            yield v


def implies(f, g, constraint=None, extra_atoms=()):
    """-> (ok, counterexample valuation or None, rows)"""
    atoms = atoms_of(f) | atoms_of(g) | set(extra_atoms)
    rows = 0
    for v in valuations(atoms, constraint):
        rows += 1
        if evaluate(f, v) and not evaluate(g, v):
            return False, v, rows
    return True, None, rows


def equivalent(f, g, constraint=None, extra_atoms=()):
    a, cx, r1 = implies(f, g, constraint, extra_atoms)
    if not a:
        return False, cx, r1
    b, cx, r2 = implies(g, f, constraint, extra_atoms)
    return b, cx, r1 + r2


def to_formula(expr: ast.expr, atomize: Callable[[ast.expr], Optional[tuple]], opaque=True):
    """Boolean structure of `expr`; leaves go through `atomize` (returns a formula or None).
    Unrecognised leaves become opaque atoms keyed by their normalised text."""
    if isinstance(expr, ast.BoolOp):
        parts = [to_formula(v, atomize, opaque) for v in expr.values]
        return And(*parts) if isinstance(expr.op, ast.And) else Or(*parts)
    if isinstance(expr, ast.UnaryOp) and isinstance(expr.op, ast.Not):
        return Not(to_formula(expr.operand, atomize, opaque))
    if isinstance(expr, ast.Constant) and isinstance(expr.value, bool):
        return ("const", expr.value)
    if isinstance(expr, ast.Compare) and len(expr.ops) > 1:
        # a < b < c  ==  a<b and b<c
        parts = []
        left = expr.left
        for op, right in zip(expr.ops, expr.comparators):
            parts.append(to_formula(ast.Compare(left=left, ops=[op], comparators=[right]), atomize, opaque))
            left = right
        return And(*parts)
    r = atomize(expr)
    if r is not None:
        return r
    if isinstance(expr, ast.Compare) and isinstance(expr.ops[0], (ast.NotIn, ast.IsNot, ast.NotEq)):
        flip = {ast.NotIn: ast.In, ast.IsNot: ast.Is, ast.NotEq: ast.Eq}[type(expr.ops[0])]
        pos = ast.Compare(left=expr.left, ops=[flip()], comparators=expr.comparators)
        r = atomize(pos)
        return Not(r if r is not None else A("?" + norm(pos)))
    if not opaque:
        raise AnalysisError("unrecognised guard: " + norm(expr))
    return A("?" + norm(expr))


def path_formula(site: Site, atomize, opaque=True, drop_validation=False):
    """drop_validation: ignore conditions that only say "the arguments passed validation" (the other branch raises)."""
    parts = []
    for test, pol in site.conds:
        if drop_validation and id(test) in site.validation:
            continue
        f = to_formula(test, atomize, opaque)
        parts.append(f if pol else Not(f))
    return And(*parts)


def show_formula(f) -> str:
    k = f[0]
    if k == "const":
        return str(f[1])
    if k == "atom":
        return str(f[1])
    if k == "not":
        return "¬" + show_formula(f[1])
    sep = " ∧ " if k == "and" else " ∨ "
    return "(" + sep.join(show_formula(g) for g in f[1]) + ")"
