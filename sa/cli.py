"""./check Cxx [--tier quick|thorough] [--replay file] [--repo DIR] [--json] [--no-evidence]

exit 0: every rule of the property held on the current tree (known findings are printed as
        KNOWN-FINDING lines); exit 1: VIOLATION line(s); exit 2: ANALYSIS-ERROR (cannot decide).
"""
from __future__ import annotations

import argparse
import importlib
import json
import os
import sys
import time
import traceback
import warnings

warnings.filterwarnings("ignore", category=SyntaxWarning)

HERE = os.path.dirname(os.path.abspath(__file__))
VERIF = os.path.dirname(HERE)
sys.path.insert(0, VERIF)

from sa import core  # noqa: E402
from sa.core import AnalysisError, Repo, RuleCtx  # noqa: E402
from sa import registry  # noqa: E402

ALL_PROPS = ["C%02d" % i for i in range(1, 21)]


def load_known():
    p = os.path.join(VERIF, "known_findings.json")
    if not os.path.exists(p):
        return {"findings": [], "fixed": []}
    return json.load(open(p))


def known_key(e):
    return (e["property"], e["rule"], e["file"], e["function"], e["construct"])


def run_property(prop: str, repo: Repo):
    """-> (reports, error_or_None)"""
    mod = importlib.import_module("sa.rules." + prop.lower())  # registers rules
    reports = []
    for rule_id, desc, floor, fn in registry.RULES.get(prop, []):
        rc = RuleCtx(repo, prop, rule_id, desc, floor)
        try:
            fn(rc)
            if len(rc.report.instances) < floor and not rc.report.findings:
                raise AnalysisError(
                    f"only {len(rc.report.instances)} instance(s) analysed, floor is {floor} "
                    f"(the rule would pass vacuously; anchors moved?)"
                )
        except AnalysisError as e:
            # one rule that cannot decide must not hide what the other rules found
            rc.report.error = f"rule {rule_id}: {e}"
        reports.append(rc.report)
    if not reports:
        raise AnalysisError(f"no rules registered for {prop}")
    return reports


def main(argv=None):
    ap = argparse.ArgumentParser()
    ap.add_argument("prop")
    ap.add_argument("--tier", default=os.environ.get("VERIF_TIER", "quick"), choices=["quick", "thorough"])
    ap.add_argument("--replay")
    ap.add_argument("--repo", default=None)
    ap.add_argument("--json", action="store_true", help="print findings as JSON (used by the self-test harness)")
    ap.add_argument("--no-evidence", action="store_true")
    args = ap.parse_args(argv)
    prop = args.prop.upper()
    t0 = time.time()
    try:
        seed = int(os.environ.get("VERIF_SEED", "0") or 0)
    except ValueError:
        seed = 0

    try:
        if prop not in ALL_PROPS:
            raise AnalysisError(f"unknown property {prop}")
        repo = Repo(args.repo)
        if repo.parse_errors:
            raise AnalysisError("unparsable module(s): " + "; ".join(repo.parse_errors))
        reports = run_property(prop, repo)
        selftest = None
        if args.tier == "thorough" and not args.json and not args.replay:
            from sa import selftest as st
            selftest = st.run(prop, repo, seed)
    except AnalysisError as e:
        print(f"ANALYSIS-ERROR property={prop} {e}")
        return 2
    except Exception:
        traceback.print_exc()
        print(f"ANALYSIS-ERROR property={prop} internal error in the checker (traceback above)")
        return 2

    findings = [f for r in reports for f in r.findings]
    errors = [r.error for r in reports if getattr(r, "error", None)]

    if args.json:
        json.dump({"property": prop, "findings": [f.to_json() for f in findings],
                   "instances": {r.rule: len(r.instances) for r in reports}}, sys.stdout)
        return 1 if findings else (2 if errors else 0)

    if args.replay:
        want = json.load(open(args.replay))
        hit = [f for f in findings if f.rule == want.get("rule") and f.file == want.get("file")
               and f.func == want.get("function") and f.construct == want.get("construct")]
        if hit:
            for f in hit:
                print(f"REPRODUCED property={prop} rule={f.rule} {f.file}:{f.line} {f.func}: {f.message}")
                print("  construct:", f.construct)
                print("  detail:", json.dumps(f.detail, default=str)[:2000])
            return 1
        print(f"NOT-REPRODUCED property={prop} rule={want.get('rule')} (the construct no longer violates the rule on the current tree)")
        return 0

    known = load_known()
    known_map = {known_key(e): e for e in known.get("findings", [])}
    new, listed = [], []
    for f in findings:
        (listed if f.key() in known_map else new).append(f)

    print(f"== {prop}: {len(repo.modules)} modules, {repo.n_functions} functions parsed from {repo.root} (tree digest {repo.digest})")
    for r in reports:
        status = "ok" if not r.findings else f"{len(r.findings)} finding(s)"
        ex = " exhaustive" if r.exhaustive else ""
        print(f"  rule {r.rule}: {len(r.instances)} instance(s) analysed (floor {r.floor}){ex}: {status}")
    seen_known = set()
    for f in listed:
        e = known_map[f.key()]
        if f.key() in seen_known:
            continue
        seen_known.add(f.key())
        print(f"KNOWN-FINDING: property={prop} {e.get('defect', '')} {f.file}:{f.func} [{f.rule}] {e.get('what', f.message)}")
    outdir = os.path.join(VERIF, "out", prop)
    rc = 0
    for e in errors:
        print(f"ANALYSIS-ERROR property={prop} {e}")
        rc = 2
    if new:
        os.makedirs(outdir, exist_ok=True)
        for i, f in enumerate(new):
            path = os.path.join(outdir, f"{f.rule}-{i}.json")
            with open(path, "w") as fh:
                json.dump(f.to_json(), fh, indent=1, default=str)
            print(f"  {f.file}:{f.line} in {f.func} [{f.rule}] {f.message}")
            print(f"     construct: {f.construct}")
            print(f"VIOLATION property={prop} replay={path}")
        rc = 1
    if selftest is not None:
        print(f"  self-test: {selftest['programs']} variant programs analysed: "
              f"{selftest['breaking_detected']}/{selftest['breaking']} breaking variants detected, "
              f"{selftest['twins_silent']}/{selftest['twins']} behaviour-preserving twins silent, "
              f"{selftest['seeded_detected']}/{selftest['seeded']} seeded changes detected"
              + (f", {selftest['repairs_silent']}/{selftest['repairs']} repaired variants silent" if selftest.get("repairs") else "")
              + (f"; {len(selftest['skipped'])} variant(s) skipped" if selftest.get("skipped") else ""))
        for msg in selftest["problems"]:
            print(f"  SELF-TEST-PROBLEM {msg}")
        if selftest["problems"]:
            print(f"ANALYSIS-ERROR property={prop} the checker failed its own adequacy self-test (see above); verdict withheld")
            rc = max(rc, 2) if rc != 1 else 1

    if not args.no_evidence:
        write_evidence(prop, args.tier, seed, repo, reports, new, listed, selftest, time.time() - t0)
    if rc == 0:
        print(f"PASS property={prop} tier={args.tier} rules={len(reports)} instances={sum(len(r.instances) for r in reports)} "
              f"known_findings={len(seen_known)}")
    return rc


def write_evidence(prop, tier, seed, repo, reports, new, listed, selftest, wall):
    n_inst = sum(len(r.instances) for r in reports)
    distinct = len({i for r in reports for i in r.instances})
    samples = []
    for r in reports:
        for i in r.instances[:3]:
            samples.append({"rule": r.rule, "obligation": i})
    rules = []
    for r in reports:
        rules.append({
            "rule": r.rule, "what": r.description, "instances": len(r.instances), "floor": r.floor,
            "exhaustive_over_abstract_domain": r.exhaustive, "rows_enumerated": r.rows,
            "findings": len(r.findings), "notes": r.notes, "instance_list": r.instances[:60],
        })
    decides = registry.DECIDES.get(prop, "")
    notdec = registry.NOT_DECIDED.get(prop, [])
    cov = {
        "explanation": (
            f"Static analysis (ast only; pgmpy is never imported or run) of /repo's current working tree. "
            f"Decides: {decides} NOT decided (runtime/numerical clauses of the property): {'; '.join(notdec)}. "
            f"{len(reports)} rules, {n_inst} rule instances (sites/obligations) analysed; "
            f"each rule has an instance floor below which the run is an ANALYSIS-ERROR rather than a pass."
        ),
        "evaluations": n_inst,
        "distinct_nontrivial": distinct,
        "rule": "an evaluation is one rule instance: a (rule, site/obligation) pair extracted from the current source; "
                "distinct = distinct instance texts; every instance is non-trivial in that it is a concrete construct the rule examined",
        "samples": samples,
        "modules_parsed": len(repo.modules),
        "functions_parsed": repo.n_functions,
        "tree_digest": repo.digest,
        "rules": rules,
        "obligations": n_inst,
        "discharged": n_inst - len(new) - len(listed),
        "known_findings_reported": sorted({f"{f.rule} {f.file}:{f.func}" for f in listed}),
        "checker_cmd": f"./check {prop} --tier {tier}",
        "trusted_base": ["CPython ast parser", "the rule tables in /verif/sa/rules (frozen after reading the code)",
                         "assumed semantics of numpy/networkx/pandas calls named in each rule"],
    }
    if selftest is not None:
        cov["programs"] = selftest["programs"]
        cov["disagreements_checked"] = selftest["breaking"] + selftest["twins"] + selftest["seeded"]
        cov["selftest"] = {k: v for k, v in selftest.items() if k != "cases"}
        cov["selftest_cases"] = selftest["cases"][:80]
    ev = {
        "property_id": prop,
        "tier": tier,
        "seed": seed,
        "level": "other",
        "coverage": cov,
        "assumptions": [
            "only the structural clauses named in 'explanation' are decided; numerical behaviour is not",
            "external library calls (numpy, pandas, networkx, scipy) behave as documented",
            "dynamic features (getattr/setattr by computed name, monkey patching) are not used on the analysed paths",
        ],
        "wall_s": round(wall, 3),
        "violations": len(new),
    }
    os.makedirs(os.path.join(VERIF, "evidence"), exist_ok=True)
    with open(os.path.join(VERIF, "evidence", prop + ".json"), "w") as fh:
        json.dump(ev, fh, indent=1, default=str)


if __name__ == "__main__":
    sys.exit(main())
