"""A small abstract interpreter for straight-line numeric code (score formulas).

It evaluates the *extracted* statements of a function on the checker's own symbolic domain:
  * scalars: floats obtained from a numeric assignment of the symbols (q, o, r, r_obs, n, ess, ...)
  * linear forms: {atom: coefficient} over opaque atoms (lgamma(c), sums over observed cells/columns)
  * arrays over the observed count table: Arr(level, form) with a per-cell symbolic form
pgmpy code is not executed; only its syntax tree is walked.  Unknown constructs raise AnalysisError.
"""
from __future__ import annotations

import ast
import math
from typing import Dict

from .core import AnalysisError, call_name, dotted, norm


class Lin:
    """linear form: const + sum coef*atom"""

    def __init__(self, terms=None, const=0.0):
        self.terms = dict(terms or {})
        self.const = float(const)

    @staticmethod
    def of(x):
        if isinstance(x, Lin):
            return x
        if isinstance(x, (int, float)):
            return Lin(const=x)
        raise AnalysisError(f"cannot use {x!r} as a scalar")

    def __add__(self, o):
        o = Lin.of(o)
        t = dict(self.terms)
        for k, v in o.terms.items():
            t[k] = t.get(k, 0.0) + v
        return Lin(t, self.const + o.const)

    __radd__ = __add__

    def __neg__(self):
        return Lin({k: -v for k, v in self.terms.items()}, -self.const)

    def __sub__(self, o):
        return self + (-Lin.of(o))

    def __rsub__(self, o):
        return Lin.of(o) - self

    def scale(self, c: float):
        return Lin({k: v * c for k, v in self.terms.items()}, self.const * c)

    def is_const(self):
        return not any(abs(v) > 1e-12 for v in self.terms.values())

    def coef(self, atom):
        return self.terms.get(atom, 0.0)

    def __repr__(self):
        return "Lin(%r, %r)" % ({k: round(v, 6) for k, v in self.terms.items() if abs(v) > 1e-12}, round(self.const, 6))


def mul(a, b):
    if isinstance(a, Lin) and a.is_const():
        a = a.const
    if isinstance(b, Lin) and b.is_const():
        b = b.const
    if isinstance(a, (int, float)) and isinstance(b, (int, float)):
        return float(a) * float(b)
    if isinstance(a, (int, float)) and isinstance(b, Lin):
        return b.scale(a)
    if isinstance(b, (int, float)) and isinstance(a, Lin):
        return a.scale(b)
    raise AnalysisError("non-linear product of two symbolic terms")


def num(x):
    if isinstance(x, Lin):
        if not x.is_const():
            raise AnalysisError("expected a plain number, got a symbolic term")
        return x.const
    if isinstance(x, (int, float)):
        return float(x)
    raise AnalysisError(f"expected a number, got {x!r}")


class Arr:
    def __init__(self, level, form):
        self.level = level  # 'cell' | 'col'
        self.form = form    # nested tuple

    def __repr__(self):
        return f"Arr({self.level}, {self.form})"


class Sym:
    def __init__(self, name):
        self.name = name

    def __repr__(self):
        return f"Sym({self.name})"


def lg_atom(x: float):
    x = round(float(x), 9)
    if abs(x - 1.0) < 1e-9 or abs(x - 2.0) < 1e-9:
        return Lin(const=0.0)  # lgamma(1) = lgamma(2) = 0
    return Lin({("lg", x): 1.0})


class ScoreInterp:
    """Evaluates the body of a `local_score(self, variable, parents)` method."""

    def __init__(self, fi, symbols: Dict[str, float]):
        self.fi = fi
        self.sym = symbols
        self.env: Dict[str, object] = {}
        p = fi.params
        self.self_name, self.var, self.parents = p[0], p[1], p[2]
        self.env[self.var] = Sym("variable")
        self.env[self.parents] = Sym("parents")
        self.count_calls = []
        self.result = None

    # -- helpers
    def run(self):
        for st in self.fi.body:
            self.stmt(st)
            if self.result is not None:
                break
        if self.result is None:
            raise AnalysisError(f"{self.fi.qual}: no return value")
        return self.result

    def stmt(self, st):
        if isinstance(st, ast.Assign) and len(st.targets) == 1 and isinstance(st.targets[0], ast.Name):
            self.env[st.targets[0].id] = self.ev(st.value)
        elif isinstance(st, ast.AugAssign) and isinstance(st.target, ast.Name):
            cur = self.env.get(st.target.id)
            val = self.ev(st.value)
            self.env[st.target.id] = self.binop(cur, st.op, val)
        elif isinstance(st, ast.Expr):
            self.ev(st.value)
        elif isinstance(st, ast.Return):
            self.result = self.ev(st.value)
        else:
            raise AnalysisError(f"{self.fi.qual}: unsupported statement in a score formula: {norm(st, 80)}")

    def binop(self, a, op, b):
        if isinstance(a, Arr) or isinstance(b, Arr):
            if isinstance(a, Arr) and isinstance(b, Arr):
                lvl = "cell" if "cell" in (a.level, b.level) else "col"
                fa, fb = a.form, b.form
            elif isinstance(a, Arr):
                lvl, fa, fb = a.level, a.form, ("k", round(num(b), 9))
            else:
                lvl, fa, fb = b.level, ("k", round(num(a), 9)), b.form
            o = {ast.Add: "+", ast.Sub: "-", ast.Mult: "*", ast.Div: "/"}.get(type(op))
            if o is None:
                raise AnalysisError("unsupported array operator")
            return Arr(lvl, (o, fa, fb))
        if isinstance(op, ast.Add):
            return Lin.of(a) + Lin.of(b)
        if isinstance(op, ast.Sub):
            return Lin.of(a) - Lin.of(b)
        if isinstance(op, ast.Mult):
            return mul(a, b)
        if isinstance(op, ast.Div):
            return mul(a, 1.0 / num(b))
        if isinstance(op, ast.Pow):
            return num(a) ** num(b)
        raise AnalysisError("unsupported operator " + type(op).__name__)

    def ev(self, e):
        if isinstance(e, ast.Constant):
            if isinstance(e.value, (int, float)) and not isinstance(e.value, bool):
                return float(e.value)
            return e.value
        if isinstance(e, ast.Name):
            if e.id in self.env:
                return self.env[e.id]
            if e.id == "float":
                return Sym("float")
            raise AnalysisError(f"{self.fi.qual}: unknown name {e.id}")
        if isinstance(e, ast.BinOp):
            return self.binop(self.ev(e.left), e.op, self.ev(e.right))
        if isinstance(e, ast.UnaryOp) and isinstance(e.op, ast.USub):
            v = self.ev(e.operand)
            return -v if isinstance(v, (float, Lin)) else self.binop(0.0, ast.Sub(), v)
        if isinstance(e, ast.Compare):
            l = self.ev(e.left)
            if isinstance(l, Arr):
                return Sym("mask")
            raise AnalysisError("unsupported comparison in a score formula")
        if isinstance(e, ast.Attribute):
            d = dotted(e)
            if d == f"{self.self_name}.state_names":
                return Sym("state_names")
            if d == f"{self.self_name}.equivalent_sample_size":
                return self.sym["ess"]
            if d == f"{self.self_name}.data":
                return Sym("data")
            base = self.ev(e.value) if not isinstance(e.value, ast.Name) or e.value.id in self.env else None
            if isinstance(base, Arr) and e.attr == "shape":
                return Sym("shape")
            if isinstance(base, Arr) and e.attr == "size":
                return self.sym["o"] * self.sym["r_obs"] if base.level == "cell" else self.sym["o"]
            if isinstance(base, Sym) and base.name == "data" and e.attr == "shape":
                return Sym("datashape")
            raise AnalysisError(f"{self.fi.qual}: unsupported attribute {norm(e)}")
        if isinstance(e, ast.Subscript):
            b = self.ev(e.value)
            if isinstance(b, Sym) and b.name == "state_names":
                k = self.ev(e.slice)
                if isinstance(k, Sym) and k.name == "variable":
                    return Sym("states_var")
                if isinstance(k, Sym) and k.name == "parent":
                    return Sym("states_parent")
                raise AnalysisError("state_names indexed by something that is neither the variable nor a parent")
            if isinstance(b, Sym) and b.name == "shape":
                idx = self.ev(e.slice)
                return self.sym["o"] if idx == 1.0 else self.sym["r_obs"]
            if isinstance(b, Sym) and b.name == "datashape":
                return self.sym["n"]
            raise AnalysisError(f"{self.fi.qual}: unsupported subscript {norm(e)}")
        if isinstance(e, (ast.ListComp, ast.GeneratorExp)):
            # [len(self.state_names[var]) for var in parents]
            g = e.generators[0]
            it = self.ev(g.iter)
            if len(e.generators) == 1 and not g.ifs and isinstance(it, Sym) and it.name == "parents" and isinstance(g.target, ast.Name):
                self.env[g.target.id] = Sym("parent")
                v = self.ev(e.elt)
                del self.env[g.target.id]
                if isinstance(v, Sym) and v.name == "card_parent":
                    return Sym("parent_cards")
            raise AnalysisError("unsupported comprehension in a score formula: " + norm(e))
        if isinstance(e, ast.Call):
            return self.call(e)
        if isinstance(e, ast.Tuple):
            return tuple(self.ev(x) for x in e.elts)
        raise AnalysisError(f"{self.fi.qual}: unsupported expression {norm(e, 80)}")

    def call(self, c):
        nm = call_name(c)
        kw = {k.arg: k.value for k in c.keywords}
        if nm == "len" and len(c.args) == 1:
            v = self.ev(c.args[0])
            if isinstance(v, Sym):
                if v.name == "states_var":
                    return self.sym["r"]
                if v.name == "states_parent":
                    return Sym("card_parent")
                if v.name == "data":
                    return self.sym["n"]
                if v.name == "parents":
                    return Sym("nparents")
            raise AnalysisError("len() of an unsupported value: " + norm(c))
        if nm == "list" and len(c.args) == 1:
            return self.ev(c.args[0])
        if nm == "state_counts" and dotted(c.func) == f"{self.self_name}.state_counts":
            self.count_calls.append(c)
            return Arr("cell", ("N",))
        if nm == "prod":
            v = self.ev(c.args[0])
            if isinstance(v, Sym) and v.name == "parent_cards":
                return self.sym["q"]
            raise AnalysisError("np.prod of something that is not the parents' cardinalities")
        if nm in ("asarray", "array", "copy") and c.args:
            return self.ev(c.args[0])
        if nm == "to_numpy" or nm == "values":
            return self.ev(c.func.value)
        if nm in ("zeros_like", "empty_like", "ones_like"):
            return Arr("cell", ("k", 0.0)) if isinstance(self.ev(c.args[0]), Arr) else 0.0
        if nm == "sum":
            a = self.ev(c.args[0])
            if isinstance(a, Arr):
                if "axis" in kw:
                    ax = self.ev(kw["axis"])
                    if ax == 0.0 and a.level == "cell":
                        return Arr("col", ("colsum", a.form))
                    raise AnalysisError("unsupported axis in a score formula")
                return Lin({("sum", a.level, a.form): 1.0})
            raise AnalysisError("np.sum of a non-array")
        if nm in ("gammaln", "lgamma", "log"):
            fn = "lg" if nm in ("gammaln", "lgamma") else "log"
            a = self.ev(c.args[0])
            if isinstance(a, Arr):
                res = Arr(a.level, (fn, a.form))
                if "out" in kw:
                    t = kw["out"]
                    if not isinstance(t, ast.Name):
                        raise AnalysisError("out= target is not a local")
                    self.env[t.id] = res
                return res
            x = num(a)
            if fn == "lg":
                return lg_atom(x)
            return math.log(x)
        raise AnalysisError(f"{self.fi.qual}: unsupported call {norm(c, 80)}")


def zero_value(form, consts_as_lin=True):
    """value of a per-cell form at N = 0, Nj = 0 as a linear form over lgamma atoms (None = unknown)."""
    k = form[0]
    if k == "N":
        return Lin(const=0.0)
    if k == "colsum":
        return zero_value(form[1])
    if k == "k":
        return Lin(const=form[1])
    if k == "lg":
        inner = zero_value(form[1])
        if inner is None or not inner.is_const():
            return None
        return lg_atom(inner.const)
    if k == "log":
        return Lin(const=0.0)  # guarded by where=... > 0: left at its initial 0
    if k in ("+", "-"):
        a, b = zero_value(form[1]), zero_value(form[2])
        if a is None or b is None:
            return None
        return a + b if k == "+" else a - b
    if k == "*":
        a, b = zero_value(form[1]), zero_value(form[2])
        if a is None or b is None:
            return None
        if a.is_const() and a.const == 0.0 or b.is_const() and b.const == 0.0:
            return Lin(const=0.0)
        return mul(a, b) if (a.is_const() or b.is_const()) else None
    return None
