"""Rule registry: every rule is a function(RuleCtx) registered under a property id."""
from __future__ import annotations

from typing import Callable, Dict, List, Tuple

RULES: Dict[str, List[Tuple[str, str, int, Callable]]] = {}
NOT_DECIDED: Dict[str, List[str]] = {}
DECIDES: Dict[str, str] = {}


def rule(rule_id: str, description: str, floor: int = 1):
    prop = rule_id.split(".")[0]

    def deco(fn):
        RULES.setdefault(prop, []).append((rule_id, description, floor, fn))
        return fn

    return deco


def describe(prop: str, decides: str, not_decided: List[str]):
    DECIDES[prop] = decides
    NOT_DECIDED[prop] = list(not_decided)
