"""Engine A (srcmodel): the resolved program model of /repo's *current working tree*.

Pure static: parses pgmpy/**/*.py with `ast`; never imports pgmpy.
"""
from __future__ import annotations

import ast
import hashlib
import os
import re
import sys
from dataclasses import dataclass, field
from typing import Callable, Dict, Iterable, Iterator, List, Optional, Sequence, Tuple

REPO = os.environ.get("VERIF_REPO", "/repo")


class AnalysisError(Exception):
    """The analysis cannot decide (anchor vanished, unknown construct, floor not met)."""


# --------------------------------------------------------------------------------------
# small AST helpers


def unparse(node) -> str:
    try:
        return ast.unparse(node)
    except Exception:  # pragma: no cover
        return "<%s>" % type(node).__name__


def norm(node_or_text, limit: int = 160) -> str:
    """Normalised one-line text of a construct (no line numbers, canonical spacing)."""
    s = node_or_text if isinstance(node_or_text, str) else unparse(node_or_text)
    s = re.sub(r"\s+", " ", s).strip()
    return s[:limit]


def dotted(node) -> Optional[str]:
    """a.b.c for Name/Attribute chains, else None."""
    parts = []
    while isinstance(node, ast.Attribute):
        parts.append(node.attr)
        node = node.value
    if isinstance(node, ast.Name):
        parts.append(node.id)
        return ".".join(reversed(parts))
    return None


def call_name(call: ast.Call) -> Optional[str]:
    """last component of the callee: f(...) -> f ; a.b.m(...) -> m"""
    f = call.func
    if isinstance(f, ast.Attribute):
        return f.attr
    if isinstance(f, ast.Name):
        return f.id
    return None


def kwarg(call: ast.Call, name: str):
    for k in call.keywords:
        if k.arg == name:
            return k.value
    return None


def has_starstar(call: ast.Call) -> bool:
    return any(k.arg is None for k in call.keywords)


def names_in(node) -> set:
    return {n.id for n in ast.walk(node) if isinstance(n, ast.Name)}


def is_const(node, value=...) -> bool:
    if not isinstance(node, ast.Constant):
        return False
    return True if value is ... else (node.value == value and type(node.value) is type(value))


def walk_no_nested(node) -> Iterator[ast.AST]:
    """ast.walk that does not descend into nested function/class definitions or lambdas."""
    stack = [node]
    first = True
    while stack:
        n = stack.pop()
        if not first and isinstance(n, (ast.FunctionDef, ast.AsyncFunctionDef, ast.ClassDef, ast.Lambda)):
            continue
        first = False
        yield n
        stack.extend(reversed(list(ast.iter_child_nodes(n))))  # pre-order, in source order


def strip_docstring(body: Sequence[ast.stmt]) -> List[ast.stmt]:
    if body and isinstance(body[0], ast.Expr) and isinstance(body[0].value, ast.Constant) and isinstance(body[0].value.value, str):
        return list(body[1:])
    return list(body)


def _name_occurrences(fn, name):
    return sum(1 for x in ast.walk(fn) if (isinstance(x, ast.Name) and x.id == name) or (isinstance(x, ast.arg) and x.arg == name))


def _header_exprs_of(st):
    """the expressions of statement `st` that are evaluated exactly once, right when control reaches it"""
    if isinstance(st, ast.Return):
        return [("value", st.value)] if st.value is not None else []
    if isinstance(st, ast.Assign):
        return [("value", st.value)] + [(("targets", i), t) for i, t in enumerate(st.targets) if not isinstance(t, ast.Name)]
    if isinstance(st, ast.AugAssign):
        return [("value", st.value)]
    if isinstance(st, ast.Expr):
        return [("value", st.value)]
    if isinstance(st, ast.If):
        return [("test", st.test)]
    if isinstance(st, ast.For):
        return [("iter", st.iter)]
    if isinstance(st, ast.Raise):
        return [("exc", st.exc)] if st.exc is not None else []
    return []


def _single_plain_occurrence(expr, name):
    """the one Load occurrence of `name` in expr, if it is not inside a lambda / comprehension (evaluated later or repeatedly)"""
    hits = []

    def rec(n, shielded):
        if isinstance(n, ast.Name) and n.id == name:
            hits.append((n, shielded))
        for c in ast.iter_child_nodes(n):
            sh = shielded or isinstance(n, (ast.Lambda, ast.ListComp, ast.SetComp, ast.DictComp, ast.GeneratorExp))
            # the first iterable of a comprehension is evaluated once, in the enclosing scope
            if isinstance(n, (ast.ListComp, ast.SetComp, ast.DictComp, ast.GeneratorExp)) and n.generators and c is n.generators[0]:
                rec_comp0(c, shielded)
                continue
            rec(c, sh)

    def rec_comp0(g, shielded):
        rec(g.iter, shielded)
        rec(g.target, True)
        for i in g.ifs:
            rec(i, True)

    rec(expr, False)
    if len(hits) == 1 and not hits[0][1] and isinstance(hits[0][0].ctx, ast.Load):
        return hits[0][0]
    return None


def _replace_node(root, old, new):
    for parent in ast.walk(root):
        for fld, val in ast.iter_fields(parent):
            if val is old:
                setattr(parent, fld, new)
                return True
            if isinstance(val, list):
                for i, x in enumerate(val):
                    if x is old:
                        val[i] = new
                        return True
    return False


FULL_CANON = not os.environ.get("SA_CANON_BASIC")


def canonicalise(tree):
    """Canonical form shared by all rules: a temporary that is assigned once and consumed exactly once by the NEXT statement — in a part of
    that statement that is evaluated once, right away (return value, assigned value, call statement, if-test, for-iterable, raise) — is
    forwarded into its consumer:
        tmp = E ; return f(tmp)     ->  return f(E)
        tmp = E ; obj.f = tmp       ->  obj.f = E
        tmp = E ; if not tmp: ...   ->  if not E: ...
    The name must not occur anywhere else in the function, and not under a lambda / comprehension body of the consumer.  Rules therefore see
    the same program whether or not the author named an intermediate value."""
    # docstrings are not code: no rule may be satisfied (or violated) by what a docstring says
    for holder in [n for n in ast.walk(tree) if isinstance(n, (ast.Module, ast.ClassDef, ast.FunctionDef, ast.AsyncFunctionDef))]:
        b = holder.body
        if b and isinstance(b[0], ast.Expr) and isinstance(b[0].value, ast.Constant) and isinstance(b[0].value.value, str):
            if len(b) == 1:
                b[0] = ast.copy_location(ast.Pass(), b[0])
            else:
                del b[0]
    for fn in [n for n in ast.walk(tree) if isinstance(n, (ast.FunctionDef, ast.AsyncFunctionDef))]:
        changed = True
        while changed:
            changed = False
            for blk_owner in ast.walk(fn):
                for field in ("body", "orelse", "finalbody"):
                    blk = getattr(blk_owner, field, None)
                    if not isinstance(blk, list) or not blk or not isinstance(blk[0], ast.stmt):
                        continue
                    i = 0
                    while i + 1 < len(blk):
                        a, b = blk[i], blk[i + 1]
                        if isinstance(a, ast.Assign) and len(a.targets) == 1 and isinstance(a.targets[0], ast.Name):
                            nm = a.targets[0].id
                            if _name_occurrences(fn, nm) == 2:
                                done = False
                                for _, e in _header_exprs_of(b):
                                    if not FULL_CANON and not (isinstance(e, ast.Name) and isinstance(b, (ast.Return, ast.Assign))):
                                        continue
                                    occ = _single_plain_occurrence(e, nm) if e is not None else None
                                    if occ is None:
                                        continue
                                    if occ is e:
                                        for fld, val in ast.iter_fields(b):
                                            if val is e:
                                                setattr(b, fld, a.value)
                                                done = True
                                    else:
                                        done = _replace_node(e, occ, a.value)
                                    if done:
                                        break
                                if done:
                                    del blk[i]
                                    changed = True
                                    continue
                        i += 1


def set_parents(tree):
    for p in ast.walk(tree):
        for c in ast.iter_child_nodes(p):
            c._parent = p  # type: ignore[attr-defined]
    return tree


def parent_chain(node) -> Iterator[ast.AST]:
    n = getattr(node, "_parent", None)
    while n is not None:
        yield n
        n = getattr(n, "_parent", None)


def enclosing_stmt(node) -> ast.stmt:
    n = node
    while not isinstance(n, ast.stmt):
        n = n._parent  # type: ignore[attr-defined]
    return n


# --------------------------------------------------------------------------------------
# program model


@dataclass
class FuncInfo:
    module: "ModuleInfo"
    cls: Optional["ClassInfo"]
    node: ast.FunctionDef

    @property
    def name(self) -> str:
        return self.node.name

    @property
    def qual(self) -> str:
        return (self.cls.name + "." if self.cls else "") + self.node.name

    @property
    def file(self) -> str:
        return self.module.rel

    @property
    def params(self) -> List[str]:
        a = self.node.args
        return [x.arg for x in a.posonlyargs + a.args + a.kwonlyargs]

    def param_default(self, name: str):
        a = self.node.args
        pos = a.posonlyargs + a.args
        defaults = [None] * (len(pos) - len(a.defaults)) + list(a.defaults)
        for p, d in zip(pos, defaults):
            if p.arg == name:
                return d
        for p, d in zip(a.kwonlyargs, a.kw_defaults):
            if p.arg == name:
                return d
        return None

    @property
    def body(self) -> List[ast.stmt]:
        return strip_docstring(self.node.body)

    def __repr__(self):
        return f"<{self.file}:{self.qual}>"


@dataclass
class ClassInfo:
    module: "ModuleInfo"
    node: ast.ClassDef
    methods: Dict[str, FuncInfo] = field(default_factory=dict)

    @property
    def name(self) -> str:
        return self.node.name

    @property
    def base_names(self) -> List[str]:
        out = []
        for b in self.node.bases:
            d = dotted(b)
            if d:
                out.append(d)
        return out


@dataclass
class ModuleInfo:
    rel: str  # pgmpy/base/DAG.py
    path: str
    src: str
    tree: ast.Module
    classes: Dict[str, ClassInfo] = field(default_factory=dict)
    functions: Dict[str, FuncInfo] = field(default_factory=dict)
    imports: Dict[str, str] = field(default_factory=dict)  # local name -> dotted origin

    @property
    def modname(self) -> str:
        return self.rel[:-3].replace("/", ".")


class Repo:
    """All non-test, non-extern modules of /repo/pgmpy, parsed from the working tree."""

    def __init__(self, root: str = None, overlay: Dict[str, str] = None):
        """overlay: {relative path: replacement source} — used by the self-test to analyse a variant
        program without writing it anywhere."""
        self.root = root or REPO
        overlay = overlay or {}
        self.modules: Dict[str, ModuleInfo] = {}
        self.classes: Dict[str, List[ClassInfo]] = {}
        self.n_functions = 0
        self.parse_errors: List[str] = []
        pkg = os.path.join(self.root, "pgmpy")
        if not os.path.isdir(pkg):
            raise AnalysisError(f"{pkg} not found")
        for dirpath, dirnames, filenames in os.walk(pkg):
            dirnames[:] = sorted(d for d in dirnames if d not in ("tests", "extern", "__pycache__"))
            for fn in sorted(filenames):
                if not fn.endswith(".py"):
                    continue
                path = os.path.join(dirpath, fn)
                rel = os.path.relpath(path, self.root)
                try:
                    src = overlay[rel] if rel in overlay else open(path, encoding="utf-8").read()
                    tree = ast.parse(src, filename=path)
                except SyntaxError as e:
                    self.parse_errors.append(f"{rel}: {e}")
                    continue
                if not os.environ.get("SA_NO_CANON"):
                    canonicalise(tree)
                set_parents(tree)
                mi = ModuleInfo(rel, path, src, tree)
                self._index(mi)
                self.modules[rel] = mi
        self.digest = hashlib.sha256(
            "".join(m.rel + hashlib.sha256(m.src.encode()).hexdigest() for m in self.modules.values()).encode()
        ).hexdigest()[:16]

    def _index(self, mi: ModuleInfo):
        for st in mi.tree.body:
            self._index_stmt(mi, st)

    def _index_stmt(self, mi: ModuleInfo, st):
        if isinstance(st, ast.ClassDef):
            ci = ClassInfo(mi, st)
            for s in st.body:
                if isinstance(s, (ast.FunctionDef, ast.AsyncFunctionDef)):
                    ci.methods[s.name] = FuncInfo(mi, ci, s)
                    self.n_functions += 1
            mi.classes[st.name] = ci
            self.classes.setdefault(st.name, []).append(ci)
        elif isinstance(st, (ast.FunctionDef, ast.AsyncFunctionDef)):
            mi.functions[st.name] = FuncInfo(mi, None, st)
            self.n_functions += 1
        elif isinstance(st, ast.Import):
            for a in st.names:
                mi.imports[(a.asname or a.name).split(".")[0]] = a.name
        elif isinstance(st, ast.ImportFrom):
            base = st.module or ""
            for a in st.names:
                mi.imports[a.asname or a.name] = base + "." + a.name
        elif isinstance(st, (ast.If, ast.Try)):
            for sub in ast.iter_child_nodes(st):
                if isinstance(sub, ast.stmt):
                    self._index_stmt(mi, sub)
                elif isinstance(sub, ast.ExceptHandler):
                    for s2 in sub.body:
                        self._index_stmt(mi, s2)

    # ---- lookup (a vanished anchor is an AnalysisError, never a silent pass)

    def module(self, rel: str) -> ModuleInfo:
        if rel not in self.modules:
            raise AnalysisError(f"anchor module vanished or unparsable: {rel}")
        return self.modules[rel]

    def cls(self, rel: str, name: str) -> ClassInfo:
        m = self.module(rel)
        if name not in m.classes:
            raise AnalysisError(f"anchor class vanished: {rel}:{name}")
        return m.classes[name]

    def func(self, rel: str, qual: str) -> FuncInfo:
        m = self.module(rel)
        if "." in qual:
            c, f = qual.split(".", 1)
            ci = self.cls(rel, c)
            if f not in ci.methods:
                raise AnalysisError(f"anchor method vanished: {rel}:{qual}")
            return ci.methods[f]
        if qual not in m.functions:
            raise AnalysisError(f"anchor function vanished: {rel}:{qual}")
        return m.functions[qual]

    def try_func(self, rel: str, qual: str) -> Optional[FuncInfo]:
        try:
            return self.func(rel, qual)
        except AnalysisError:
            return None

    def class_by_name(self, name: str, prefer_module: ModuleInfo = None) -> Optional[ClassInfo]:
        cands = self.classes.get(name, [])
        if not cands:
            return None
        if prefer_module is not None:
            for c in cands:
                if c.module is prefer_module:
                    return c
            origin = prefer_module.imports.get(name)
            if origin:
                for c in cands:
                    if origin.startswith(c.module.modname) or c.module.modname.startswith(origin.rsplit(".", 1)[0]):
                        return c
        return cands[0]

    def mro(self, ci: ClassInfo) -> List[ClassInfo]:
        """Left-to-right depth-first linearisation with duplicates removed (last kept) —
        equals C3 on pgmpy's single/diamond-free hierarchies."""
        out: List[ClassInfo] = []
        seen = set()

        def rec(c: ClassInfo):
            if id(c) in seen:
                return
            seen.add(id(c))
            out.append(c)
            for b in c.base_names:
                bc = self.class_by_name(b.split(".")[-1], c.module)
                if bc is not None and bc is not c:
                    rec(bc)

        rec(ci)
        return out

    def external_bases(self, ci: ClassInfo) -> List[str]:
        out = []
        for c in self.mro(ci):
            for b in c.base_names:
                if self.class_by_name(b.split(".")[-1], c.module) is None:
                    out.append(b)
        return out

    def resolve_method(self, ci: ClassInfo, name: str, after: ClassInfo = None) -> Optional[FuncInfo]:
        """Method lookup along the MRO; `after` = start after that class (super())."""
        mro = self.mro(ci)
        if after is not None:
            idx = [i for i, c in enumerate(mro) if c is after]
            mro = mro[idx[0] + 1:] if idx else mro
        for c in mro:
            if name in c.methods:
                return c.methods[name]
        return None

    def subclasses(self, ci: ClassInfo) -> List[ClassInfo]:
        out = []
        for lst in self.classes.values():
            for c in lst:
                if c is not ci and ci in self.mro(c):
                    out.append(c)
        return out

    def all_functions(self) -> Iterator[FuncInfo]:
        for m in self.modules.values():
            for f in m.functions.values():
                yield f
            for c in m.classes.values():
                for f in c.methods.values():
                    yield f

    def calls_in(self, fi: FuncInfo) -> List[ast.Call]:
        return [n for n in walk_no_nested(fi.node) if isinstance(n, ast.Call)]


# --------------------------------------------------------------------------------------
# rule results


@dataclass
class Finding:
    prop: str
    rule: str
    file: str
    func: str
    line: int
    construct: str  # normalised text of the offending construct (key; no line numbers)
    message: str
    detail: dict = field(default_factory=dict)

    def key(self) -> Tuple[str, str, str, str, str]:
        return (self.prop, self.rule, self.file, self.func, self.construct)

    def to_json(self) -> dict:
        return {
            "property": self.prop, "rule": self.rule, "file": self.file, "function": self.func,
            "line": self.line, "construct": self.construct, "message": self.message, "detail": self.detail,
        }


@dataclass
class RuleReport:
    rule: str
    description: str
    instances: List[str] = field(default_factory=list)  # what was analysed (sites/obligations)
    findings: List[Finding] = field(default_factory=list)
    floor: int = 1  # fewer instances than this => the rule went vacuous => AnalysisError
    exhaustive: bool = False
    rows: int = 0  # truth-table rows / symbolic cells enumerated
    notes: List[str] = field(default_factory=list)
    error: Optional[str] = None  # set when the rule could not decide (AnalysisError)

    def ob(self, text: str):
        self.instances.append(text)


class RuleCtx:
    """Convenience wrapper handed to each rule."""

    def __init__(self, repo: Repo, prop: str, rule: str, description: str, floor: int = 1):
        self.repo = repo
        self.prop = prop
        self.report = RuleReport(rule, description, floor=floor)

    def ob(self, text: str):
        self.report.instances.append(text)

    def note(self, text: str):
        self.report.notes.append(text)

    def fail(self, fi: Optional[FuncInfo], node, message: str, construct: str = None, file: str = None, func: str = None, **detail):
        line = getattr(node, "lineno", 0) if node is not None else 0
        cons = construct if construct is not None else (norm(node) if node is not None else "")
        self.report.findings.append(
            Finding(self.prop, self.report.rule, file or (fi.file if fi else ""), func or (fi.qual if fi else ""), line, cons, message, detail)
        )
