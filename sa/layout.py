"""Engine D (layout): shape-operator chains evaluated on a symbolic index tensor.

`MiniArray` is a tiny pure-Python n-d array (flat list + shape, C order) whose cells hold arbitrary labels
(index tuples).  `eval_expr` interprets an *extracted* expression AST — reshape / ravel / flatten / transpose /
moveaxis / swapaxes / .T / slicing-free — on such arrays, with shape arithmetic (np.prod, len, list/tuple
algebra) evaluated over a small environment of concrete cardinalities.  pgmpy itself is never executed.
Unknown operators raise AnalysisError (never a silent pass).
"""
from __future__ import annotations

import ast
import itertools
from typing import Dict, List, Sequence

from .core import AnalysisError, call_name, dotted, kwarg, norm


def prod(xs):
    r = 1
    for x in xs:
        r *= int(x)
    return r


class MiniArray:
    def __init__(self, flat: List, shape: Sequence[int]):
        shape = tuple(int(s) for s in shape)
        if prod(shape) != len(flat):
            raise AnalysisError(f"cannot view {len(flat)} cells as shape {shape}")
        self.flat = list(flat)
        self.shape = shape

    @staticmethod
    def indexed(shape, label=lambda idx: idx):
        shape = tuple(shape)
        return MiniArray([label(idx) for idx in itertools.product(*[range(s) for s in shape])], shape)

    @property
    def ndim(self):
        return len(self.shape)

    def _strides(self):
        st, acc = [], 1
        for s in reversed(self.shape):
            st.append(acc)
            acc *= s
        return tuple(reversed(st))

    def at(self, idx):
        return self.flat[sum(i * s for i, s in zip(idx, self._strides()))]

    def ravel(self, order="C"):
        if order in ("C", "K", "A", None):
            return MiniArray(self.flat, (len(self.flat),))
        if order == "F":
            idxs = itertools.product(*[range(s) for s in reversed(self.shape)])
            return MiniArray([self.at(tuple(reversed(i))) for i in idxs], (len(self.flat),))
        raise AnalysisError(f"unknown order {order!r}")

    def reshape(self, shape, order="C"):
        shape = list(shape)
        if shape.count(-1) == 1:
            known = prod(s for s in shape if s != -1)
            shape[shape.index(-1)] = len(self.flat) // max(known, 1)
        if order in ("C", None):
            return MiniArray(self.ravel("C").flat, shape)
        if order == "F":
            src = self.ravel("F").flat
            out = MiniArray([None] * len(src), shape)
            st = out._strides()
            for k, idx in enumerate(itertools.product(*[range(s) for s in reversed(shape)])):
                idx = tuple(reversed(idx))
                out.flat[sum(i * s for i, s in zip(idx, st))] = src[k]
            return out
        raise AnalysisError(f"unknown order {order!r}")

    def transpose(self, axes=None):
        axes = tuple(reversed(range(self.ndim))) if axes is None else tuple(int(a) % self.ndim for a in axes)
        if sorted(axes) != list(range(self.ndim)):
            raise AnalysisError(f"bad transpose axes {axes} for ndim {self.ndim}")
        new_shape = tuple(self.shape[a] for a in axes)
        out = []
        for idx in itertools.product(*[range(s) for s in new_shape]):
            src = [0] * self.ndim
            for pos, a in enumerate(axes):
                src[a] = idx[pos]
            out.append(self.at(tuple(src)))
        return MiniArray(out, new_shape)

    def moveaxis(self, s, d):
        s, d = int(s) % self.ndim, int(d) % self.ndim
        order = [a for a in range(self.ndim) if a != s]
        order.insert(d, s)
        return self.transpose(order)

    def swapaxes(self, a, b):
        a, b = int(a) % self.ndim, int(b) % self.ndim
        order = list(range(self.ndim))
        order[a], order[b] = order[b], order[a]
        return self.transpose(order)

    def tolist(self):
        def rec(off, dims):
            if not dims:
                return self.flat[off]
            step = prod(dims[1:])
            return [rec(off + i * step, dims[1:]) for i in range(dims[0])]
        return rec(0, self.shape)


class Env(dict):
    pass


def eval_expr(e, env: Env):
    """Evaluate an expression over MiniArrays / ints / lists."""
    if isinstance(e, ast.Constant):
        return e.value
    if isinstance(e, (ast.Subscript, ast.Call)) and env.get("__by_text__") and norm(e) in env["__by_text__"]:
        return env["__by_text__"][norm(e)]
    if isinstance(e, ast.Name):
        if e.id in env:
            return env[e.id]
        raise AnalysisError(f"layout: unknown name `{e.id}`")
    if isinstance(e, ast.Attribute):
        d = dotted(e)
        if d in env:
            return env[d]
        base = eval_expr(e.value, env)
        if isinstance(base, MiniArray):
            if e.attr == "T":
                return base.transpose()
            if e.attr == "shape":
                return tuple(base.shape)
            if e.attr == "ndim":
                return base.ndim
            if e.attr == "size":
                return len(base.flat)
            if e.attr == "values":
                return base
        raise AnalysisError(f"layout: unsupported attribute `{norm(e)}`")
    if isinstance(e, ast.Compare) and len(e.ops) == 1:
        l, r = eval_expr(e.left, env), eval_expr(e.comparators[0], env)
        op = e.ops[0]
        if isinstance(op, ast.In):
            return l in r
        if isinstance(op, ast.NotIn):
            return l not in r
        if isinstance(op, ast.Eq):
            return l == r
        if isinstance(op, ast.NotEq):
            return l != r
        if isinstance(op, (ast.Lt, ast.LtE, ast.Gt, ast.GtE)) and isinstance(l, (int, float)) and isinstance(r, (int, float)):
            return {ast.Lt: l < r, ast.LtE: l <= r, ast.Gt: l > r, ast.GtE: l >= r}[type(op)]
        raise AnalysisError(f"layout: unsupported comparison `{norm(e)}`")
    if isinstance(e, ast.UnaryOp) and isinstance(e.op, ast.Not):
        return not eval_expr(e.operand, env)
    if isinstance(e, ast.BoolOp):
        vals = [eval_expr(v, env) for v in e.values]
        return all(vals) if isinstance(e.op, ast.And) else any(vals)
    if isinstance(e, ast.IfExp):
        return eval_expr(e.body, env) if eval_expr(e.test, env) else eval_expr(e.orelse, env)
    if isinstance(e, (ast.Tuple, ast.List)):
        out = []
        for x in e.elts:
            if isinstance(x, ast.Starred):
                out.extend(eval_expr(x.value, env))
            else:
                out.append(eval_expr(x, env))
        return out if isinstance(e, ast.List) else tuple(out)
    if isinstance(e, ast.UnaryOp) and isinstance(e.op, ast.USub):
        return -eval_expr(e.operand, env)
    if isinstance(e, ast.BinOp):
        l, r = eval_expr(e.left, env), eval_expr(e.right, env)
        if isinstance(e.op, ast.Add):
            if isinstance(l, (list, tuple)) or isinstance(r, (list, tuple)):
                return list(l) + list(r)
            return l + r
        if isinstance(e.op, ast.Sub):
            return l - r
        if isinstance(e.op, ast.Mult):
            return l * r
        if isinstance(e.op, ast.FloorDiv):
            return l // r
        raise AnalysisError(f"layout: unsupported operator in `{norm(e)}`")
    if isinstance(e, ast.Subscript):
        base = eval_expr(e.value, env)
        if isinstance(base, (list, tuple)):
            if isinstance(e.slice, ast.Slice):
                lo = eval_expr(e.slice.lower, env) if e.slice.lower else None
                hi = eval_expr(e.slice.upper, env) if e.slice.upper else None
                st = eval_expr(e.slice.step, env) if e.slice.step else None
                return list(base)[lo:hi:st]
            return base[eval_expr(e.slice, env)]
        if isinstance(base, dict):
            return base[eval_expr(e.slice, env)]
        raise AnalysisError(f"layout: unsupported subscript `{norm(e)}`")
    if isinstance(e, (ast.ListComp, ast.GeneratorExp, ast.DictComp, ast.SetComp)) and len(e.generators) == 1:
        g = e.generators[0]

        def _bind(t, v, env2):
            if isinstance(t, ast.Name):
                env2[t.id] = v
            elif isinstance(t, (ast.Tuple, ast.List)) and isinstance(v, (list, tuple)) and len(t.elts) == len(v):
                for tt, vv in zip(t.elts, v):
                    _bind(tt, vv, env2)
            else:
                raise AnalysisError(f"layout: unsupported comprehension target `{norm(t)}`")
        out = {} if isinstance(e, ast.DictComp) else []
        for v in eval_expr(g.iter, env):
            env2 = Env(env)
            _bind(g.target, v, env2)
            if not all(eval_expr(c, env2) for c in g.ifs):
                continue
            if isinstance(e, ast.DictComp):
                out[eval_expr(e.key, env2)] = eval_expr(e.value, env2)
            else:
                out.append(eval_expr(e.elt, env2))
        return out
    if isinstance(e, ast.Call):
        nm = call_name(e)
        order = kwarg(e, "order")
        order = eval_expr(order, env) if order is not None else "C"
        if isinstance(e.func, ast.Attribute) and dotted(e.func.value) not in ("np", "numpy", "compat_fns", "torch"):
            recv = eval_expr(e.func.value, env)
            if isinstance(recv, MiniArray):
                if nm in ("flatten", "ravel"):
                    if e.args:
                        order = eval_expr(e.args[0], env)
                    return recv.ravel(order)
                if nm == "reshape":
                    shape = [eval_expr(a, env) for a in e.args]
                    if len(shape) == 1 and isinstance(shape[0], (list, tuple)):
                        shape = list(shape[0])
                    return recv.reshape(shape, order)
                if nm == "transpose":
                    axes = [eval_expr(a, env) for a in e.args]
                    if len(axes) == 1 and isinstance(axes[0], (list, tuple)):
                        axes = list(axes[0])
                    return recv.transpose(axes or None)
                if nm == "swapaxes":
                    return recv.swapaxes(eval_expr(e.args[0], env), eval_expr(e.args[1], env))
                if nm in ("copy", "astype", "tolist", "to_numpy"):
                    return recv
                if nm == "get_values":
                    return env["__get_values__"](recv)
            if isinstance(recv, (list, tuple)) and nm == "index":
                return list(recv).index(eval_expr(e.args[0], env))
            if isinstance(recv, (list, tuple)) and nm == "copy":
                return list(recv)
            raise AnalysisError(f"layout: unsupported method `{norm(e, 80)}`")
        # functions
        args = [eval_expr(a, env) for a in e.args]
        if nm in ("array", "asarray", "copy", "to_numpy", "Tensor", "astype"):
            return args[0]
        if nm == "reshape":
            return args[0].reshape(args[1], order)
        if nm in ("ravel", "flatten"):
            return args[0].ravel(args[1] if len(args) > 1 else order)
        if nm == "transpose":
            return args[0].transpose(args[1] if len(args) > 1 else None)
        if nm == "moveaxis":
            return args[0].moveaxis(args[1], args[2])
        if nm == "swapaxes":
            return args[0].swapaxes(args[1], args[2])
        if nm == "prod":
            return prod(args[0])
        if nm == "len":
            return len(args[0])
        if nm in ("tuple", "list"):
            return list(args[0]) if nm == "list" else tuple(args[0])
        if nm == "range":
            return list(range(*args))
        if nm == "int":
            return int(args[0])
        if nm in ("max", "min") and args:
            vals = args[0] if len(args) == 1 and isinstance(args[0], (list, tuple)) else args
            return max(vals) if nm == "max" else min(vals)
        if nm == "zip":
            return list(zip(*args))
        if nm == "enumerate":
            return [(k + (args[1] if len(args) > 1 else (eval_expr(kwarg(e, "start"), env) if kwarg(e, "start") is not None else 0)), v) for k, v in enumerate(args[0])]
        if nm == "len":
            return len(args[0])
        if nm == "dict":
            return dict(args[0])
        if nm == "reversed":
            return list(reversed(args[0]))
        if nm == "sorted":
            return sorted(args[0])
        raise AnalysisError(f"layout: unsupported function `{norm(e, 80)}`")
    raise AnalysisError(f"layout: unsupported expression `{norm(e, 80)}`")
