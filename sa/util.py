"""Common AST predicates shared by the rules."""
from __future__ import annotations

import ast
from typing import Dict, Iterable, List, Optional, Set

from .core import AnalysisError, FuncInfo, call_name, dotted, norm, walk_no_nested

PARENT_CALLS = {"predecessors", "get_parents"}
CHILD_CALLS = {"successors", "get_children"}


def is_method_call(e, names: Iterable[str], recv: str = None) -> bool:
    """e is `<recv>.<name>(...)` (recv None = any receiver)."""
    if not (isinstance(e, ast.Call) and isinstance(e.func, ast.Attribute) and e.func.attr in set(names)):
        return False
    if recv is None:
        return True
    return dotted(e.func.value) == recv


def peel(e, wrappers=("list", "set", "tuple", "sorted", "iter", "frozenset")):
    """Strip value-preserving container conversions: list(x) -> x."""
    while isinstance(e, ast.Call) and isinstance(e.func, ast.Name) and e.func.id in wrappers and len(e.args) == 1 and not e.keywords:
        e = e.args[0]
    return e


def resolve(e, defs: Dict[str, ast.expr], depth: int = 6):
    """Follow straight-line local definitions (name -> defining expression)."""
    while depth and isinstance(e, ast.Name) and e.id in defs:
        e = defs[e.id]
        depth -= 1
    return e


def neighbour_kind(e, defs=None, of: str = None) -> Optional[str]:
    """'parents' / 'children' if e is (a container conversion of) X.predecessors(of) etc."""
    e = peel(resolve(e, defs or {}))
    if isinstance(e, ast.Call) and isinstance(e.func, ast.Attribute) and len(e.args) >= 1:
        if of is not None and not (isinstance(e.args[0], ast.Name) and e.args[0].id == of):
            return None
        if e.func.attr in PARENT_CALLS:
            return "parents"
        if e.func.attr in CHILD_CALLS:
            return "children"
    return None


def assigned_value(fi: FuncInfo, name: str) -> List[ast.expr]:
    """All expressions assigned to local `name` in fi (plain Assign with Name target)."""
    out = []
    for n in walk_no_nested(fi.node):
        if isinstance(n, ast.Assign):
            for t in n.targets:
                if isinstance(t, ast.Name) and t.id == name:
                    out.append(n.value)
                elif isinstance(t, (ast.Tuple, ast.List)) and isinstance(n.value, (ast.Tuple, ast.List)) and len(t.elts) == len(n.value.elts):
                    for a, b in zip(t.elts, n.value.elts):
                        if isinstance(a, ast.Name) and a.id == name:
                            out.append(b)
    return out


def returns_of(fi: FuncInfo) -> List[ast.Return]:
    return [n for n in walk_no_nested(fi.node) if isinstance(n, ast.Return)]


def raises_of(fi: FuncInfo) -> List[ast.Raise]:
    return [n for n in walk_no_nested(fi.node) if isinstance(n, ast.Raise)]


def calls_named(fi_or_node, *names) -> List[ast.Call]:
    node = fi_or_node.node if isinstance(fi_or_node, FuncInfo) else fi_or_node
    ns = set(names)
    return [n for n in walk_no_nested(node) if isinstance(n, ast.Call) and call_name(n) in ns]


def stmt_index_path(fn: ast.FunctionDef, node: ast.AST) -> List[int]:
    """Position of node's statement for ordering comparisons (pre-order index)."""
    order = {}
    for i, n in enumerate(ast.walk(fn)):
        order[id(n)] = i
    return order.get(id(node), -1)


def preorder_index(fn: ast.AST) -> Dict[int, int]:
    """Source-order index of every node (by position)."""
    nodes = [n for n in ast.walk(fn) if hasattr(n, "lineno")]
    nodes.sort(key=lambda n: (n.lineno, n.col_offset, -(getattr(n, "end_lineno", n.lineno) * 10000 + getattr(n, "end_col_offset", 0))))
    return {id(n): i for i, n in enumerate(nodes)}


def pos(node) -> tuple:
    return (getattr(node, "lineno", 0), getattr(node, "col_offset", 0))


def same_expr(a, b) -> bool:
    return norm(a, 10000) == norm(b, 10000)


def is_self_attr(e, attr: str = None) -> bool:
    return isinstance(e, ast.Attribute) and isinstance(e.value, ast.Name) and e.value.id == "self" and (attr is None or e.attr == attr)


def const_str(e) -> Optional[str]:
    return e.value if isinstance(e, ast.Constant) and isinstance(e.value, str) else None


def single_defs(fi: FuncInfo) -> Dict[str, ast.expr]:
    """local name -> its defining expression, for locals assigned exactly once by a plain `name = expr` (parameters excluded)"""
    cnt: Dict[str, List[ast.expr]] = {}
    for n in walk_no_nested(fi.node):
        if isinstance(n, ast.Assign) and len(n.targets) == 1 and isinstance(n.targets[0], ast.Name):
            cnt.setdefault(n.targets[0].id, []).append(n.value)
    return {k: v[0] for k, v in cnt.items() if len(v) == 1 and k not in fi.params}


def deep_resolve(e, defs: Dict[str, ast.expr], depth: int = 0):
    """copy of `e` in which single-definition local names are replaced by their definitions, recursively: the result does not
    depend on what the analysed code calls its temporaries"""
    import copy as _copy
    if e is None or depth > 8:
        return e

    class R(ast.NodeTransformer):
        def visit_Name(self, n):
            if isinstance(n.ctx, ast.Load) and n.id in defs and not any(isinstance(x, ast.Name) and x.id == n.id for x in ast.walk(defs[n.id])):
                return deep_resolve(defs[n.id], defs, depth + 1)
            return n
    return R().visit(_copy.deepcopy(e))


_RESOLVED_CACHE: Dict[int, ast.AST] = {}


def _fresh_object(v) -> bool:
    """definitions that create a new mutable object (its identity matters to what follows): never inlined"""
    if isinstance(v, (ast.List, ast.Dict, ast.Set)) and not (getattr(v, "elts", None) or getattr(v, "keys", None)):
        return True
    if isinstance(v, ast.Call):
        nm = call_name(v)
        if nm in ("copy", "deepcopy", "defaultdict", "deque", "set", "dict", "list") and (nm in ("copy", "deepcopy", "defaultdict", "deque") or not v.args):
            return True
        if isinstance(v.func, ast.Name) and v.func.id[:1].isupper():
            return True
        if isinstance(v.func, ast.Attribute) and v.func.attr[:1].isupper():
            return True
    return False


def resolved_fn(fi: FuncInfo) -> ast.AST:
    """A copy of the function in which every Load of a single-definition local is replaced by its (recursively resolved) definition.
    Templates written without temporaries match this view whether or not the analysed code names its intermediate values, and whether
    the temporary is used once or several times.  The defining assignments stay in place; line numbers are those of the original nodes."""
    from .core import set_parents
    key = id(fi.node)
    if key not in _RESOLVED_CACHE:
        import copy as _copy
        sd = {k: v for k, v in single_defs(fi).items() if not _fresh_object(v)}
        # a local defined inside a loop and used outside of it, or defined after its first use, is still resolved: templates
        # describe shapes, the flow-sensitive questions are asked by the path walker on the original tree
        fn = _copy.deepcopy(fi.node)

        class R(ast.NodeTransformer):
            def visit_Name(self, n):
                if isinstance(n.ctx, ast.Load) and n.id in sd and not any(isinstance(x, ast.Name) and x.id == n.id for x in ast.walk(sd[n.id])):
                    new = deep_resolve(sd[n.id], sd)
                    return ast.copy_location(new, n) if hasattr(new, "lineno") else new
                return n

            def visit_FunctionDef(self, n):
                if n is fn:
                    self.generic_visit(n)
                return n

            def visit_Lambda(self, n):
                # parameters of the lambda shadow outer locals
                shadow = {a.arg for a in n.args.args}
                if shadow & set(sd):
                    return n
                self.generic_visit(n)
                return n

        fn = R().visit(fn)
        ast.fix_missing_locations(fn)
        set_parents(fn)
        _RESOLVED_CACHE[key] = fn
    return _RESOLVED_CACHE[key]
