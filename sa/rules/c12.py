"""C12 — constraint-based discovery is exact given exact independence information."""
from __future__ import annotations

import ast
import itertools

from ..core import AnalysisError, call_name, dotted, kwarg, norm, walk_no_nested
from ..edgealg import E, edge_test, membership, rename
from ..guards import A, And, F, Not, Or, T, atoms_of, equivalent, implies, is_call_named, path_formula, show_formula, sites, to_formula
from ..registry import describe, rule
from .. import tmatch as tm
from ..util import assigned_value, calls_named, is_method_call, peel, resolve, returns_of

PCF = "pgmpy/estimators/PC.py"
DAGF = "pgmpy/base/DAG.py"

describe(
    "C12",
    "every edge removal (orientation step) in PC.skeleton_to_pdag happens only under the published rule's full "
    "precondition (v-structure rule and Meek rules R1-R3, compared as formulas over edge literals by exhaustive "
    "valuation, with non-adjacency = both directions absent) and each rule is present; all ordered node pairs are visited; "
    "separating sets are stored and read under the unordered-pair key; CI callables receive (u, v, separating_set) unchanged "
    "in all three variants; PDAG.to_dag picks a node only if it is a sink whose undirected neighbours are adjacent (either "
    "direction) to all its other neighbours, orients incident edges into it and copies directed edges first.",
    ["completeness of the Meek rule set itself", "faithfulness / statistical errors of CI tests", "termination"],
)


def _kinds(fi):
    params = fi.params
    kinds = {params[0]: "undirected"}
    for n in walk_no_nested(fi.node):
        if isinstance(n, ast.Assign) and isinstance(n.targets[0], ast.Name) and isinstance(n.value, ast.Call) \
                and call_name(n.value) == "to_directed" and dotted(n.value.func.value) == params[0]:
            kinds[n.targets[0].id] = "directed"
    return kinds


def _flag_info(fn, name, kinds):
    """Recognise the flag idiom for 'the path is directed':
        flag = True; for s, d in zip(path, path[1:]): if G.has_edge(d, s): flag = False
    -> ('dpath', G, pathvar) when every False-assignment is guarded by a reverse-edge test of a consecutive pair;
       ('never',) when guarded by the forward edge (a path edge always exists: the flag can never stay true);
       None when not recognised."""
    falses = []
    trues = 0
    for n in walk_no_nested(fn):
        if isinstance(n, ast.Assign) and any(isinstance(t, ast.Name) and t.id == name for t in n.targets):
            if isinstance(n.value, ast.Constant) and n.value.value is True:
                trues += 1
            elif isinstance(n.value, ast.Constant) and n.value.value is False:
                falses.append(n)
            else:
                return None
    if not trues or not falses:
        return None
    res = None
    for s in sites(fn, lambda x: any(x is f for f in falses)):
        # innermost loop must iterate consecutive pairs of a path
        if not s.loops:
            return None
        tgt, it = s.loops[-1]
        it = peel(it)
        if not (isinstance(it, ast.Call) and call_name(it) == "zip" and len(it.args) == 2 and isinstance(tgt, ast.Tuple) and len(tgt.elts) == 2):
            return None
        a0, a1 = it.args
        pathvar = dotted(a0)
        ok_pairs = pathvar is not None and isinstance(a1, ast.Subscript) and dotted(a1.value) == pathvar and isinstance(a1.slice, ast.Slice) \
            and isinstance(a1.slice.lower, ast.Constant) and a1.slice.lower.value == 1 and a1.slice.upper is None
        if not ok_pairs:
            return None
        src, dst = (dotted(x) for x in tgt.elts)
        inner = [c for c in s.conds if any(x is c[0] for x in ast.walk(_innermost_for(s)))]
        if len(inner) != 1 or inner[0][1] is not True:
            return None
        t = inner[0][0]
        if not (isinstance(t, ast.Call) and call_name(t) == "has_edge" and len(t.args) == 2 and dotted(t.func.value) in kinds):
            return None
        args = [dotted(x) for x in t.args]
        g = dotted(t.func.value)
        if args == [dst, src]:
            r = ("dpath", g, pathvar)
        elif args == [src, dst]:
            r = ("never",)
        else:
            return None
        if res is not None and res != r:
            return None
        res = r
    return res


def _innermost_for(site):
    n = site.node
    while n is not None and not isinstance(n, ast.For):
        n = getattr(n, "_parent", None)
    return n


def _site_formula(fi, s, kinds, sep_name):
    fn = fi.node
    notes = {}

    def atomize(e):
        r = edge_test(e, kinds)
        if r is not None:
            return r
        if isinstance(e, ast.Compare) and len(e.ops) == 1 and isinstance(e.ops[0], ast.In) and isinstance(e.left, ast.Name):
            r = peel(e.comparators[0])
            key = None
            if isinstance(r, ast.Subscript) and dotted(r.value) == sep_name:
                key = r.slice
            elif isinstance(r, ast.Call) and call_name(r) == "get" and dotted(r.func.value) == sep_name and r.args:
                key = r.args[0]
            if key is not None:
                pair = _unordered_pair(key)
                if pair is None:
                    notes["ordered_key"] = norm(key)
                    return None
                return A(("insep", e.left.id, pair))
        if isinstance(e, ast.Name):
            info = _flag_info(fn, e.id, kinds)
            if info is None:
                return None
            if info[0] == "never":
                return F
            # the path variable must come from all_simple_paths(G, a, b) in an enclosing loop
            for t, it in s.loops:
                if dotted(t) == info[2]:
                    c = peel(it)
                    if isinstance(c, ast.Call) and call_name(c) in ("all_simple_paths", "all_simple_edge_paths") and len(c.args) >= 3 \
                            and dotted(c.args[0]) == info[1] and all(isinstance(x, ast.Name) for x in c.args[1:3]):
                        return A(("dpath", c.args[1].id, c.args[2].id))
            return None
        return None

    import copy as _copy
    s2 = _copy.copy(s)
    # the test of the enclosing fixpoint loop (`while progress:`) is not a side condition of the step
    s2.conds = [(t, pol) for t, pol in s.conds if not isinstance(getattr(t, "_parent", None), ast.While)]
    parts = [path_formula(s2, atomize)]
    for t, it in s.loops:
        if isinstance(t, ast.Name):
            m = membership(it, t.id, s.defs, kinds)
            if m is not None:
                parts.append(m)
    return And(*parts), notes


def _unordered_pair(key):
    k = key
    if isinstance(k, ast.Call) and isinstance(k.func, ast.Name) and k.func.id == "frozenset" and len(k.args) == 1:
        inner = k.args[0]
        if isinstance(inner, (ast.Tuple, ast.List, ast.Set)) and len(inner.elts) == 2 and all(isinstance(x, ast.Name) for x in inner.elts):
            return tuple(sorted(x.id for x in inner.elts))
    return None


def _removed_edges(call):
    """[(a, b), ...] removed by this call, or None."""
    nm = call_name(call)
    if nm == "remove_edge" and len(call.args) == 2 and all(isinstance(a, ast.Name) for a in call.args):
        return [(call.args[0].id, call.args[1].id)]
    if nm == "remove_edges_from" and call.args and isinstance(call.args[0], (ast.List, ast.Tuple)):
        out = []
        for e in call.args[0].elts:
            if isinstance(e, ast.Tuple) and len(e.elts) == 2 and all(isinstance(a, ast.Name) for a in e.elts):
                out.append((e.elts[0].id, e.elts[1].id))
            else:
                return None
        return out
    return None


def _reference(P, S, kinds):
    """rule name -> (roles, precondition formula, set of removable edges) with role variables X,Y,Z,W."""
    def p(a, b):
        return E(P, a, b, kinds)

    def s(a, b):
        return E(S, a, b, kinds)

    def und(a, b):
        return And(p(a, b), p(b, a))

    def arrow(a, b):
        return And(p(a, b), Not(p(b, a)))

    def nonadj(a, b):
        return And(Not(p(a, b)), Not(p(b, a)))

    # (roles, required precondition, optional extra literals, removable edges).  Soundness: site ⇒ required;
    # completeness: required ∧ optional ⇒ site.  R3's non-adjacency of X,Y is *optional*: Meek's rule states it, but
    # with exact CI information no state reachable by steps 1-3 was found (exhaustive over all DAGs on <= 5 nodes) in
    # which its absence changes the result, so its absence is not reported as a defect (DESIGN.md section 5, D9).
    return {
        "v-structure": (("X", "Y", "Z"), And(Not(s("X", "Y")), s("X", "Z"), s("Y", "Z"), Not(A(("insep", "Z", ("X", "Y"))))), T,
                        {("Z", "X"), ("Z", "Y")}),
        "R1": (("X", "Y", "Z"), And(arrow("X", "Z"), und("Z", "Y"), nonadj("X", "Y")), T, {("Y", "Z")}),
        "R2": (("X", "Y"), And(und("X", "Y"), A(("dpath", "X", "Y"))), T, {("Y", "X")}),
        "R3": (("X", "Y", "Z", "W"), And(und("Z", "X"), und("Z", "Y"), arrow("X", "W"), arrow("Y", "W"), und("Z", "W")), nonadj("X", "Y"),
               {("W", "Z")}),
    }


def _vars_of(f):
    out = set()
    for a in atoms_of(f):
        if isinstance(a, tuple):
            if a[0] == "E":
                out |= {a[2], a[3]}
            elif a[0] == "S":
                out |= set(a[2])
            elif a[0] == "insep":
                out |= {a[1]} | set(a[2])
            elif a[0] == "dpath":
                out |= {a[1], a[2]}
            elif a[0] == "eq":
                out |= set(a[1])
    return out


def _no_eq(v):
    return not any(isinstance(a, tuple) and a[0] == "eq" and val for a, val in v.items())


@rule("C12.rules", "each orientation step of PC.skeleton_to_pdag fires only under (and exactly under) its published precondition", floor=5)
def rules(rc):
    fi = rc.repo.func(PCF, "PC.skeleton_to_pdag")
    kinds = _kinds(fi)
    params = fi.params
    if len(kinds) != 2:
        raise AnalysisError("skeleton_to_pdag: cannot identify the directed working copy of the skeleton (`X = skeleton.to_directed()`)")
    S = params[0]
    P = [k for k in kinds if k != S][0]
    sep = params[1]
    ref = _reference(P, S, kinds)
    rem = sites(fi.node, lambda n: isinstance(n, ast.Call) and call_name(n) in ("remove_edge", "remove_edges_from")
                and isinstance(n.func, ast.Attribute) and dotted(n.func.value) in kinds)
    if not rem:
        raise AnalysisError("skeleton_to_pdag: no edge-removal sites found")
    seen_rules = {}
    for s in rem:
        edges = _removed_edges(s.node)
        g = dotted(s.node.func.value)
        if edges is None:
            raise AnalysisError("skeleton_to_pdag: cannot read the removed edges of " + norm(s.node))
        if g != P:
            rc.fail(fi, s.node, f"orientation must edit the working copy `{P}`, not `{g}`")
            continue
        f, notes = _site_formula(fi, s, kinds, sep)
        rc.ob(f"removal {norm(s.node)} under {show_formula(f)}")
        if "ordered_key" in notes:
            rc.fail(fi, s.node, f"separating set looked up under an ordered key {notes['ordered_key']}; it is stored under the unordered pair")
            continue
        opaque = [a for a in atoms_of(f) if isinstance(a, str) and a.startswith("?")]
        site_vars = sorted(_vars_of(f) | {x for e in edges for x in e})
        matched = None
        best = None
        for rname, (roles, pre, opt, removable) in ref.items():
            if len(roles) > len(site_vars):
                continue
            for perm in itertools.permutations(site_vars, len(roles)):
                mp = dict(zip(roles, perm))
                rem_m = {(mp[a], mp[b]) for a, b in removable}
                if not set(edges) <= rem_m:
                    continue
                pre_m = rename(pre, mp)
                ok, cx, rows = implies(f, pre_m, constraint=_no_eq)
                rc.report.rows += rows
                if ok:
                    eq_ok, cx2, rows2 = implies(And(pre_m, rename(opt, mp)), f, constraint=_no_eq)
                    rc.report.rows += rows2
                    matched = (rname, mp, eq_ok, cx2)
                    break
                else:
                    conj = pre_m[1] if pre_m[0] == "and" else [pre_m]
                    nmiss = sum(1 for c in conj if not implies(f, c, constraint=_no_eq)[0])
                    rank = (len(roles) != len(site_vars), nmiss)
                    if best is None or rank < best[4]:
                        best = (rname, mp, cx, pre_m, rank)
            if matched:
                break
        if matched:
            rname, mp, eq_ok, cx2 = matched
            prev = seen_rules.get(rname)
            seen_rules[rname] = (prev[0] or eq_ok, prev[1] | set(edges), mp, s) if prev else (eq_ok, set(edges), mp, s)
            if not eq_ok and not opaque:
                # stricter than the rule: sound but incomplete; remember, judged after all sites are seen
                pass
            continue
        if best is not None:
            rname, mp, cx, pre_m, _n = best
            missing = [show_formula(c) for c in (pre_m[1] if pre_m[0] == "and" else [pre_m]) if not implies(f, c, constraint=_no_eq)[0]]
            rc.fail(fi, s.node, f"edge removal {edges} is not justified by any orientation rule: closest is {rname} "
                    f"(roles {mp}) but its precondition is not implied — missing side condition(s): {', '.join(missing)}",
                    construct=f"{norm(s.node)} [{rname}]", missing=missing, condition=show_formula(f))
        else:
            rc.fail(fi, s.node, f"edge removal {edges} matches no published orientation rule (condition {show_formula(f)})")
    for rname, (roles, pre, opt, removable) in ref.items():
        got = seen_rules.get(rname)
        if got is None:
            if not any(f.message.find(rname) >= 0 for f in rc.report.findings):
                rc.fail(fi, fi.node, f"orientation rule {rname} is not applied anywhere: compelled edges stay unoriented", construct=f"missing {rname}")
            continue
        eq_ok, edges, mp, s = got
        need = {(mp[a], mp[b]) for a, b in removable}
        if edges != need:
            rc.fail(fi, s.node, f"{rname} must remove {sorted(need)} but removes only {sorted(edges)}", construct=f"{rname} incomplete removal")
        if not eq_ok:
            rc.fail(fi, s.node, f"{rname} is applied under a condition strictly stronger than its precondition (or one that can never hold): "
                    f"some compelled edges are never oriented", construct=f"{rname} too strict")
    # all ordered pairs are visited by the asymmetric rules
    pair_srcs = set()
    for s in rem:
        for t, it in s.loops:
            src = resolve(it, s.defs)
            if isinstance(it, ast.Name):
                vals = assigned_value(fi, it.id)
                for v in vals:
                    c = peel(v)
                    if isinstance(c, ast.Call) and call_name(c) in ("permutations", "combinations", "product"):
                        pair_srcs.add((it.id, call_name(c), norm(c)))
    for name, kind, txt in sorted(pair_srcs):
        rc.ob(f"pair enumeration {name} = {txt}")
        if kind == "combinations":
            rc.fail(fi, fi.node, f"node pairs come from combinations(): the asymmetric rules (X->Z-Y) never see the mirrored pair", construct=f"{name} = {txt}")
    if not pair_srcs:
        rc.note("pair enumeration not recognised (no permutations/product source found)")
    # fixpoint loop: rules 1-3 are re-applied while edges keep being removed
    loops = [n for n in walk_no_nested(fi.node) if isinstance(n, ast.While)]
    in_loop = [s for s in rem if any(isinstance(p, ast.While) for p in _parents(s.node))]
    rc.ob(f"{len(in_loop)} removal site(s) inside the fixpoint loop")
    if len(in_loop) < 3:
        rc.fail(fi, fi.node, "Meek rules must be iterated to a fixpoint (inside the progress loop)", construct="fixpoint loop")
    rc.report.exhaustive = True


def _parents(n):
    p = getattr(n, "_parent", None)
    while p is not None:
        yield p
        p = getattr(p, "_parent", None)


# ------------------------------------------------------------------------------------------------
@rule("C12.nodes", "the oriented graph keeps every variable of the skeleton (isolated variables included)", floor=1)
def nodes(rc):
    """A variable that is independent of all others has no edge in the skeleton; a PDAG built from edge lists alone silently loses it, and so does the DAG
    extended from it: the result is then not the CPDAG of the true graph over the data's variables."""
    fi = rc.repo.func(PCF, "PC.skeleton_to_pdag")
    skel = fi.params[0]
    rets = [r for r in returns_of(fi) if r.value is not None]
    ok = False
    for r in rets:
        v = r.value
        if isinstance(v, ast.Name):
            if tm.has(fi.node, "_R.add_nodes_from(_S.nodes())", {"_R": v.id, "_S": skel}) or tm.has(fi.node, "_R.add_nodes_from(_S)", {"_R": v.id, "_S": skel}):
                ok = True
        elif isinstance(v, ast.Call) and call_name(v) == "PDAG":
            ok = False
    rc.ob(f"skeleton_to_pdag: the result receives all nodes of `{skel}`: {ok}")
    if not ok:
        rc.fail(fi, rets[-1] if rets else fi.node, "skeleton_to_pdag builds the PDAG from the directed and undirected EDGE lists only: variables without any edge (independent of everything) "
                "are missing from the CPDAG and from the DAG extended from it", construct="pdag without isolated nodes")


@rule("C12.sepset", "separating sets are stored and read under the unordered pair; CI callables get (u, v, separating_set) unchanged", floor=6)
def sepset(rc):
    fi = rc.repo.func(PCF, "PC.build_skeleton")
    n_store = 0
    for n in ast.walk(fi.node):
        if isinstance(n, ast.Assign) and isinstance(n.targets[0], ast.Subscript) and "separating_sets" == dotted(n.targets[0].value):
            n_store += 1
            key = n.targets[0].slice
            rc.ob(f"store {norm(n)}")
            if _unordered_pair(key) is None:
                rc.fail(fi, n, "separating set stored under a key that is not frozenset((u, v)); readers use the unordered pair")
    if n_store < 3:
        rc.fail(fi, fi.node, "build_skeleton must record a separating set in each of the three variants", construct="stores")
    # ci_test call sites: (u, v, separating_set) and the edge removed is the tested one
    calls = [n for n in ast.walk(fi.node) if isinstance(n, ast.Call) and isinstance(n.func, ast.Name) and n.func.id == "ci_test"]
    for c in calls:
        rc.ob(f"ci_test call {norm(c, 60)}")
        args = [dotted(a) for a in c.args[:3]]
        if len(args) < 3 or None in args:
            rc.fail(fi, c, "ci_test must be called with (u, v, separating_set) positionally")
            continue
        u, v, sset = args
        # find the store/removal governed by this test
        par = getattr(c, "_parent", None)
        while par is not None and not isinstance(par, ast.If):
            par = getattr(par, "_parent", None)
        if par is None:
            continue
        body_calls = [x for st in par.body for x in ast.walk(st)]
        for x in body_calls:
            if isinstance(x, ast.Assign) and isinstance(x.targets[0], ast.Subscript) and dotted(x.targets[0].value) == "separating_sets":
                if _unordered_pair(x.targets[0].slice) != tuple(sorted((u, v))) or dotted(x.value) != sset:
                    rc.fail(fi, x, "the stored separating set must be the tested set under the tested pair")
            if isinstance(x, ast.Call) and call_name(x) == "remove_edge":
                if sorted(dotted(a) for a in x.args) != sorted((u, v)):
                    rc.fail(fi, x, "the removed edge must be the tested pair")
            if isinstance(x, ast.Return) and isinstance(x.value, ast.Tuple):
                el = x.value.elts
                if not (isinstance(el[0], ast.Tuple) and [dotted(a) for a in el[0].elts] == [u, v] and dotted(el[1]) == sset):
                    rc.fail(fi, x, "the parallel variant must return the tested pair and set")
    if len(calls) < 3:
        rc.fail(fi, fi.node, "each variant must consult the CI test", construct="ci calls")
    # candidate separating sets: subsets of adj(u) minus v AND of adj(v) minus u (both endpoints), in every variant
    n_ch = 0
    for ch in [n for n in ast.walk(fi.node) if isinstance(n, ast.Call) and call_name(n) == "chain" and len(n.args) == 2]:
        pairs = []
        for a in ch.args:
            b = None
            for t in ("combinations(set(__G.neighbors(_a)) - set([_b]), lim_neighbors)", "combinations(set(_N[_a]) - set([_b]), lim_neighbors)",
                      "combinations(set(__G.neighbors(_a)) - {_b}, lim_neighbors)", "combinations(set(_N[_a]) - {_b}, lim_neighbors)",
                      "combinations(_N[_a] - {_b}, lim_neighbors)", "combinations(_N[_a] - set([_b]), lim_neighbors)"):
                b = b or tm.is_(a, t)
            pairs.append((b["_a"], b["_b"]) if b else None)
        if None in pairs:
            continue
        n_ch += 1
        rc.ob(f"candidate separating sets: adj({pairs[0][0]}) minus {pairs[0][1]}, adj({pairs[1][0]}) minus {pairs[1][1]}")
        if not (pairs[0][0] != pairs[1][0] and pairs[0] == pairs[1][::-1]):
            rc.fail(fi, ch, f"candidate separating sets must be drawn from the neighbours of BOTH endpoints (adj(u)∖{{v}} and adj(v)∖{{u}}); found adj({pairs[0][0]})∖{pairs[0][1]} and "
                    f"adj({pairs[1][0]})∖{pairs[1][1]} — a pair separable only through a neighbour of the other endpoint keeps its edge", construct="separating set candidates")
    if n_ch < 3:
        rc.fail(fi, fi.node, "every variant must enumerate the candidate separating sets of both endpoints", construct="separating set candidates missing")
    # the level loop tries every conditioning-set size 0..max_cond_vars (event order simulated on a small bound)
    wl = [n for n in walk_no_nested(fi.node) if isinstance(n, ast.While)]
    if not wl:
        raise AnalysisError("build_skeleton: level loop not found")
    events = []
    for st in wl[0].body:
        t = norm(st, 4000)
        if isinstance(st, ast.If) and "ci_test(" in t:
            events.append(("test", None))
        elif isinstance(st, ast.If) and "max_cond_vars" in norm(st.test) and any(isinstance(x, ast.Break) for x in ast.walk(st)):
            events.append(("check", st.test))
        elif isinstance(st, ast.AugAssign) and dotted(st.target) == "lim_neighbors":
            events.append(("incr", st))
    lim0 = [n for n in fi.body if isinstance(n, ast.Assign) and dotted(n.targets[0]) == "lim_neighbors"]
    if not lim0 or not any(e[0] == "check" for e in events) or not any(e[0] == "incr" for e in events) or not any(e[0] == "test" for e in events):
        raise AnalysisError("build_skeleton: cannot read the level loop's test/check/increment structure")
    tried = []
    lim = lim0[0].value.value
    mx = 2
    for _ in range(10):
        stop = False
        for kind, node in events:
            if kind == "test":
                tried.append(lim)
            elif kind == "incr":
                lim += node.value.value if isinstance(node.op, ast.Add) else -node.value.value
            elif kind == "check":
                op = node.ops[0]
                l, r = (lim, mx) if dotted(node.left) == "lim_neighbors" else (mx, lim)
                val = {ast.GtE: l >= r, ast.Gt: l > r, ast.LtE: l <= r, ast.Lt: l < r, ast.Eq: l == r}[type(op)]
                if val:
                    stop = True
                    break
        if stop:
            break
    rc.ob(f"level loop events {[e[0] for e in events]}: with max_cond_vars={mx} the conditioning-set sizes tried are {tried}")
    if tried != list(range(mx + 1)):
        rc.fail(fi, wl[0], f"with max_cond_vars={mx} the skeleton phase tries conditioning sets of sizes {tried} instead of {list(range(mx + 1))}: pairs that need a separating set of "
                f"the maximum allowed size keep their edge", construct="level loop sizes")
    # candidate conditioning sets come from the neighbours of u (minus v) and of v (minus u)
    for c in [n for n in ast.walk(fi.node) if isinstance(n, ast.Call) and call_name(n) == "combinations"]:
        a = c.args[0]
        rc.ob(f"candidate sets {norm(c, 80)}")
        if not (isinstance(a, ast.BinOp) and isinstance(a.op, ast.Sub)):
            rc.fail(fi, c, "candidate separating sets must exclude the other endpoint (neighbours(u) - {v})")


# ------------------------------------------------------------------------------------------------
@rule("C12.oracle", "independence_match answers from the assertion list by decomposition and symmetry, not by literal membership only", floor=1)
def oracle(rc):
    """PC asks pairwise questions (X ⟂ Y | Z).  An independence list — e.g. DAG.get_independencies(), the "full independence list" of the property — states
    set-valued assertions (A ⟂ B | Z) and is reduced, so the pairwise statement is usually NOT literally a member.  The oracle must therefore answer True when
    some assertion has the same conditioning set and X on one side, Y on the other (decomposition), in either orientation (symmetry).  Literal membership may
    remain as a shortcut."""
    repo = rc.repo
    fi = repo.func("pgmpy/estimators/CITests.py", "independence_match")
    X, Y, Z = fi.params[:3]
    rets = returns_of(fi)
    rc.ob(f"independence_match returns {[norm(r.value, 60) for r in rets]}")
    loops = [n for n in walk_no_nested(fi.node) if isinstance(n, ast.For) and isinstance(n.target, ast.Name)
             and any(isinstance(c, ast.Call) and call_name(c) == "get_assertions" and dotted(c.func.value) == "independencies" for c in ast.walk(n.iter))]
    ok = False
    body = fi.node.body
    for lp in loops:
        a = lp.target.id
        top = [k for k, st in enumerate(body) if any(x is lp for x in ast.walk(st))]
        if not top or any(isinstance(st, (ast.Return, ast.Raise)) for st in body[:top[0]]):
            rc.ob("independence_match: the loop over the assertions is not reachable (an unconditional return precedes it)")
            continue
        for st in ast.walk(lp):
            if not isinstance(st, ast.If) or not any(isinstance(r, ast.Return) and isinstance(r.value, ast.Constant) and r.value.value is True for r in st.body):
                continue
            ins = {(norm(c.left), norm(c.comparators[0])) for c in ast.walk(st.test) if isinstance(c, ast.Compare) and isinstance(c.ops[0], ast.In)}
            eqs = [c for c in ast.walk(st.test) if isinstance(c, ast.Compare) and isinstance(c.ops[0], ast.Eq) and f"{a}.event3" in (norm(c.left), norm(c.comparators[0]))]
            need = {(X, f"{a}.event1"), (Y, f"{a}.event2"), (Y, f"{a}.event1"), (X, f"{a}.event2")}
            rc.ob(f"independence_match: loop over the assertions; same conditioning set: {bool(eqs)}; membership atoms {sorted(ins)}")
            if eqs and need <= ins:
                ok = True
    if not ok:
        rc.fail(fi, fi.node, "independence_match answers by literal membership of IndependenceAssertion(X, Y, Z): the pairwise questions PC asks are not members of a list of "
                "set-valued (reduced) assertions such as DAG.get_independencies(), so true independencies are answered 'dependent' (spurious edges); it must also accept an "
                "assertion with the same conditioning set and X, Y on opposite sides, in either orientation", construct="oracle by literal membership")
    falls = [r for r in rets if isinstance(r.value, ast.Constant) and r.value.value is False]
    if ok and not falls:
        rc.fail(fi, fi.node, "independence_match must answer False when no assertion supports the statement", construct="oracle default")


# ------------------------------------------------------------------------------------------------
@rule("C12.extend", "PDAG.to_dag chooses only sinks whose undirected neighbours are adjacent to all other neighbours; edges point into the chosen node", floor=4)
def extend(rc):
    fi = rc.repo.func(DAGF, "PDAG.to_dag")
    fn = fi.node
    # the working copy
    work = None
    for n in walk_no_nested(fn):
        if isinstance(n, ast.Assign) and isinstance(n.targets[0], ast.Name) and isinstance(n.value, ast.Call) and call_name(n.value) == "copy" \
                and dotted(n.value.func.value) == "self":
            work = n.targets[0].id
    if work is None:
        raise AnalysisError("PDAG.to_dag: no working copy `pdag = self.copy()`")
    kinds = {work: "directed"}
    # result graph and directed edges copied first
    res = dotted(returns_of(fi)[-1].value)
    copied = [c for c in calls_named(fi, "add_edges_from") if dotted(c.func.value) == res and c.args and dotted(c.args[0]) == "self.directed_edges"]
    rc.ob(f"directed edges copied into the result first: {bool(copied)}")
    if not copied:
        rc.fail(fi, fn, "the result must start from all directed edges of the PDAG", construct="copy directed edges")
    nodes_copied = [c for c in calls_named(fi, "add_nodes_from") if dotted(c.func.value) == res]
    if not nodes_copied:
        rc.fail(fi, fn, "the result must contain all nodes", construct="copy nodes")
    # the removal of the chosen node and the edge additions
    rm = sites(fn, lambda n: is_method_call(n, ("remove_node",), work))
    if len(rm) != 1:
        raise AnalysisError("PDAG.to_dag: expected exactly one remove_node on the working copy")
    s = rm[0]
    X = dotted(s.node.args[0])
    defs = dict(s.defs)

    def setform(name_or_expr, elem):
        return membership(name_or_expr, elem, defs, kinds)

    def atomize(e):
        r = edge_test(e, kinds)
        if r is not None:
            return r
        if isinstance(e, ast.Name) and e.id in defs:
            d = defs[e.id]
            # emptiness of a neighbour set:  `not S`  ==  no element in S  -> quantified atom
            m = membership(d, "_n", defs, kinds)
            if m is not None:
                return A(("nonempty", show_formula(_canon(m))))
            if isinstance(d, ast.Call) and call_name(d) == "all" and d.args and isinstance(d.args[0], (ast.GeneratorExp, ast.ListComp)):
                all_calls[e.id] = d
                return A(("all", e.id))
        if isinstance(e, ast.Call) and call_name(e) == "all" and e.args and isinstance(e.args[0], (ast.GeneratorExp, ast.ListComp)):
            key = f"all@{e.lineno}:{e.col_offset}"
            all_calls[key] = e
            return A(("all", key))
        return None

    all_calls = {}

    f = path_formula(s, atomize)
    rc.ob(f"node {X} chosen under {show_formula(f)}")
    # reference atoms
    out_dir = show_formula(_canon(And(E(work, X, "_n", kinds), Not(E(work, "_n", X, kinds)))))
    und = show_formula(_canon(And(E(work, X, "_n", kinds), E(work, "_n", X, kinds))))
    all_atoms = [a for a in atoms_of(f) if isinstance(a, tuple) and a[0] == "all"]
    want = And(Not(A(("nonempty", out_dir))), Or(Not(A(("nonempty", und))), *[A(a) for a in all_atoms]))
    ok, cx, rows = implies(f, want)
    rc.report.rows += rows
    if not ok or not all_atoms:
        rc.fail(fi, s.node, "a node may be removed only if it has no directed outgoing edge and (no undirected neighbour or the clique test holds); "
                f"found condition {show_formula(f)}", construct="sink condition")
    # the clique test itself
    for a in all_atoms:
        gen = all_calls[a[1]].args[0]
        elt = gen.elt
        loops = [(g.target, g.iter) for g in gen.generators]
        filt = [i for g in gen.generators for i in g.ifs]
        ef = to_formula(elt, lambda e: edge_test(e, kinds))
        names = [dotted(t) for t, _ in loops]
        if len(names) != 2 or None in names:
            raise AnalysisError("PDAG.to_dag: clique test is not a two-variable quantification")
        Y, Z = names
        rc.ob(f"clique test element {norm(elt)} for {[(norm(t), norm(i)) for t, i in loops]} if {[norm(x) for x in filt]}")
        adj = Or(E(work, Y, Z, kinds), E(work, Z, Y, kinds))
        ok, cx, rows = equivalent(ef, adj)
        rc.report.rows += rows
        if not ok:
            rc.fail(fi, elt, f"the clique test must ask whether {Y} and {Z} are ADJACENT (an edge in either direction); it tests {show_formula(ef)} — "
                    f"a directed edge {Z}->{Y} between a parent and an undirected neighbour is missed", construct="clique adjacency test")
        # domains: one variable ranges over the undirected neighbours, the other over all neighbours (parents and undirected)
        doms = []
        for t, it in loops:
            m = membership(it, "_n", defs, kinds)
            doms.append(show_formula(_canon(m)) if m is not None else None)
        pred = show_formula(_canon(E(work, "_n", X, kinds)))
        anyadj = show_formula(_canon(Or(E(work, "_n", X, kinds), E(work, X, "_n", kinds))))
        if not (und in doms and (pred in doms or anyadj in doms or doms.count(und) == 2 and False)):
            rc.fail(fi, gen, f"clique test must range over (undirected neighbours) x (all neighbours incl. parents) of {X}; ranges are {doms}", construct="clique domains")
        if not filt:
            rc.fail(fi, gen, "clique test must skip the pair Y == Z", construct="clique filter")
    # edges are added pointing INTO the chosen node, for every remaining neighbour
    adds = [a for a in sites(fn, lambda n: is_method_call(n, ("add_edge",), res)) if a.node is not None]
    good = False
    for a in adds:
        if not any(p is _enclosing_if(s.node) for p in _parents(a.node)):
            continue
        args = [dotted(x) for x in a.node.args[:2]]
        src_loop = [(t, it) for t, it in a.loops if dotted(t) == args[0]]
        rc.ob(f"orientation {norm(a.node)}")
        if args[1] == X and src_loop:
            m = membership(src_loop[-1][1], "_n", defs, kinds)
            if m is not None and show_formula(_canon(m)) in (show_formula(_canon(E(work, "_n", X, kinds))),):
                good = True
            else:
                rc.fail(fi, a.node, f"all remaining neighbours/parents of {X} must be oriented into it")
        else:
            rc.fail(fi, a.node, f"edges of the chosen sink {X} must point INTO it")
    if not good and not rc.report.findings:
        rc.fail(fi, s.node, f"no orientation of incident edges into the chosen node {X} found", construct="orient into sink")
    rc.report.exhaustive = True


def _enclosing_if(n):
    p = getattr(n, "_parent", None)
    while p is not None and not isinstance(p, ast.If):
        p = getattr(p, "_parent", None)
    return p


def _canon(f):
    """canonical ordering of conjunct/disjunct lists for textual comparison of small set formulas"""
    k = f[0]
    if k in ("and", "or"):
        return (k, sorted((_canon(g) for g in f[1]), key=repr))
    if k == "not":
        return ("not", _canon(f[1]))
    return f



@rule("C12.defuse", "anchored files: no parameter is accepted and ignored (generic def-use detector, triaged exemptions)", floor=2)
def defuse(rc):
    from . import shared as _sh
    _sh.defuse_rule(rc, _sh.anchor_files("C12"))


@rule("C12.data", "preprocess_data (run in front of every estimator, score and CI test) hands on the caller's values: copy, column-wise value-preserving casts", floor=2)
def data_(rc):
    from . import shared as _sh
    _sh.preprocess_rule(rc)


@rule("C12.variables", "with data the estimator's variables are the data's columns: the base initialiser runs after (and overrides) the variables taken from the independence list", floor=2)
def variables_(rc):
    """StructureEstimator.__init__ takes `variables` from the independence list and then calls BaseEstimator.__init__, which re-assigns `self.variables` only when
    data is given.  In that order data wins; in the reverse order a variable that occurs in no assertion (a collider's child, any node of a complete DAG) is dropped
    from the search although it is a column of the data."""
    repo = rc.repo
    f = repo.func("pgmpy/estimators/base.py", "StructureEstimator.__init__")
    b = repo.func("pgmpy/estimators/base.py", "BaseEstimator.__init__")
    sup = [st for st in f.body if any(isinstance(c, ast.Call) and isinstance(c.func, ast.Attribute) and c.func.attr == "__init__" and isinstance(c.func.value, ast.Call) and call_name(c.func.value) == "super"
                                      for c in ast.walk(st))]
    asg = [st for st in ast.walk(f.node) if isinstance(st, ast.Assign) and norm(st.targets[0]) == "self.variables"]
    if not sup or not asg:
        raise AnalysisError("StructureEstimator.__init__: base initialiser / variables assignment not found")
    base_sets = [s_ for s_ in sites(b.node, lambda n: isinstance(n, ast.Assign) and norm(n.targets[0]) == "self.variables")]
    cond = [[(norm(t), pol) for t, pol in s_.conds] for s_ in base_sets]
    rc.ob(f"BaseEstimator.__init__ assigns self.variables under {cond}")
    if not base_sets or not all(any("data is not None" in t and pol or "data is None" in t and not pol for t, pol in c) for c in cond):
        raise AnalysisError("BaseEstimator.__init__: `self.variables` is not assigned exactly when data is given — premise of the ordering rule changed")
    before = all(a_.lineno < sup[0].lineno for a_ in asg)
    rc.ob(f"StructureEstimator.__init__: variables from the independence list are assigned before the base initialiser: {before}")
    if not before:
        rc.fail(f, asg[0], "StructureEstimator.__init__ assigns the independence list's variables AFTER the base initialiser: with both data and independencies given, a data "
                "column that occurs in no assertion is dropped from the search", construct="variables from independencies override the data's")



MUTANTS = [
    dict(kind="break", name="oracle-literal-membership-only", file="pgmpy/estimators/CITests.py", expect="C12.oracle",
         old="    if IndependenceAssertion(X, Y, Z) in independencies:\n        return True\n", new="    return IndependenceAssertion(X, Y, Z) in independencies\n"),
    dict(kind="break", name="oracle-one-orientation-only", file="pgmpy/estimators/CITests.py", expect="C12.oracle",
         old="            (X in assertion.event1 and Y in assertion.event2)\n            or (Y in assertion.event1 and X in assertion.event2)\n", new="            (X in assertion.event1 and Y in assertion.event2)\n"),
    dict(kind="break", name="oracle-ignores-conditioning-set", file="pgmpy/estimators/CITests.py", expect="C12.oracle",
         old="        if assertion.event3 == Z and (", new="        if ("),
    dict(kind="twin", name="oracle-orientations-swapped", file="pgmpy/estimators/CITests.py",
         old="            (X in assertion.event1 and Y in assertion.event2)\n            or (Y in assertion.event1 and X in assertion.event2)\n", new="            (Y in assertion.event1 and X in assertion.event2)\n            or (X in assertion.event1 and Y in assertion.event2)\n"),
    dict(kind="break", name="pdag-loses-isolated-variables", file=PCF, expect="C12.nodes",
         old="        result.add_nodes_from(skeleton.nodes())\n", new=""),
    dict(kind="break", name="stable-candidates-from-one-endpoint", file=PCF, expect="C12.sepset",
         old="                        combinations(set(neighbors[u]) - set([v]), lim_neighbors),\n                        combinations(set(neighbors[v]) - set([u]), lim_neighbors),",
         new="                        combinations(set(neighbors[u]) - set([v]), lim_neighbors),\n                        combinations(set(neighbors[u]) - set([v]), lim_neighbors),"),
    dict(kind="break", name="r1-one-direction", file=PCF, expect="C12.rules",
         old="if not pdag.has_edge(X, Y) and not pdag.has_edge(Y, X):", new="if not pdag.has_edge(X, Y):"),
    dict(kind="break", name="v-structure-ignores-sepset", file=PCF, expect="C12.rules",
         old="if Z not in separating_sets[frozenset((X, Y))]:", new="if True:"),
    dict(kind="break", name="v-structure-inverted", file=PCF, expect="C12.rules",
         old="if Z not in separating_sets[frozenset((X, Y))]:", new="if Z in separating_sets[frozenset((X, Y))]:"),
    dict(kind="break", name="v-structure-wrong-edge", file=PCF, expect="C12.rules",
         old="pdag.remove_edges_from([(Z, X), (Z, Y)])", new="pdag.remove_edges_from([(X, Z), (Z, Y)])"),
    dict(kind="break", name="r1-removes-wrong-direction", file=PCF, expect="C12.rules",
         old="                        pdag.remove_edge(Y, Z)", new="                        pdag.remove_edge(Z, Y)"),
    dict(kind="break", name="r2-any-path", file=PCF, expect="C12.rules",
         old="                            if pdag.has_edge(dst, src):\n                                is_directed = False", new="                            if False:\n                                is_directed = False"),
    dict(kind="break", name="r2-forward-edge-test", file=PCF, expect="C12.rules",
         old="if pdag.has_edge(dst, src):", new="if pdag.has_edge(src, dst):"),
    dict(kind="break", name="r3-w-not-child-of-y", file=PCF, expect="C12.rules",
         old="                        & (set(pdag.successors(Y)) - set(pdag.predecessors(Y)))\n", new="                        & (set(pdag.successors(Y)))\n"),
    dict(kind="break", name="pairs-combinations", file=PCF, expect="C12.rules",
         old="node_pairs = list(permutations(pdag.nodes(), 2))", new="node_pairs = list(combinations(pdag.nodes(), 2))"),
    dict(kind="break", name="sepset-ordered-key", file=PCF, expect="C12.sepset",
         old="                            separating_sets[frozenset((u, v))] = separating_set\n                            graph.remove_edge(u, v)\n                            break\n\n            elif variant == \"stable\":",
         new="                            separating_sets[(u, v)] = separating_set\n                            graph.remove_edge(u, v)\n                            break\n\n            elif variant == \"stable\":"),
    dict(kind="break", name="level-increment-before-check", file=PCF, expect="C12.sepset",
         old="            if lim_neighbors >= max_cond_vars:\n                logger.info(\n                    \"Reached maximum number of allowed conditional variables. Exiting\"\n                )\n                break\n            lim_neighbors += 1\n",
         new="            lim_neighbors += 1\n            if lim_neighbors >= max_cond_vars:\n                logger.info(\n                    \"Reached maximum number of allowed conditional variables. Exiting\"\n                )\n                break\n"),
    dict(kind="break", name="todag-one-directional-adjacency", file=DAGF, expect="C12.extend",
         old="pdag.has_edge(Y, Z) or pdag.has_edge(Z, Y)", new="pdag.has_edge(Y, Z)"),
    dict(kind="break", name="todag-no-sink-test", file=DAGF, expect="C12.extend",
         old="if not directed_outgoing_edges and (", new="if (True) and ("),
    dict(kind="break", name="todag-edges-out-of-sink", file=DAGF, expect="C12.extend",
         old="                        dag.add_edge(Y, X)\n                    pdag.remove_node(X)", new="                        dag.add_edge(X, Y)\n                    pdag.remove_node(X)"),
    dict(kind="twin", name="r1-nested-if", file=PCF,
         old="if not pdag.has_edge(X, Y) and not pdag.has_edge(Y, X):", new="if not (pdag.has_edge(Y, X) or pdag.has_edge(X, Y)):"),
    dict(kind="twin", name="r2-swapped-conjuncts", file=PCF,
         old="if pdag.has_edge(Y, X) and pdag.has_edge(X, Y):", new="if pdag.has_edge(X, Y) and pdag.has_edge(Y, X):"),
    dict(kind="twin", name="v-structure-two-calls", file=PCF,
         old="pdag.remove_edges_from([(Z, X), (Z, Y)])", new="pdag.remove_edges_from([(Z, Y), (Z, X)])"),
]
