"""C03 — MAP queries return a maximiser of the exact posterior (structural clauses only)."""
from __future__ import annotations

import ast

from ..core import AnalysisError, call_name, dotted, kwarg, norm, walk_no_nested
from ..guards import sites
from ..registry import describe, rule
from ..util import calls_named, returns_of
from .. import tmatch as tm

EI = "pgmpy/inference/ExactInference.py"
DF = "pgmpy/factors/discrete/DiscreteFactor.py"

describe(
    "C03",
    "the structural clauses only: the assignment returned by map_query is decoded from the arg-max of the SAME factor's flat value "
    "table by that factor's own `assignment`, whose index arithmetic is the row-major (C-order) un-ravelling that matches how the table "
    "is stored (checked by evaluating the extracted modulo / floor-division loop on all flat indices of a symbolic 2x3x4 table); that "
    "factor is the JOINT over exactly the requested variables (sum-elimination of the others, joint=True — not per-variable max-marginals, "
    "not max-elimination); every (variable, value) pair of the decoded assignment reaches the result and values are state NAMES; the "
    "default for `variables` is all variables; overlap with evidence is rejected; belief propagation restores its model before decoding; "
    "every remaining factor is multiplied into that joint once (no value-keyed set of factors); inference/model code never re-arranges "
    "a factor's axes without its cardinalities (the decoder's radix); BayesianNetwork.predict issues ONE map_query over all missing "
    "variables per distinct row.",
    ["that the maximised table is the exact posterior (numeric; C01 decides its structural conditions)", "ties"],
)


def _eval_assignment_loop(f):
    """Interpret DiscreteFactor.assignment's index arithmetic on concrete ints:
         rev_card = self.cardinality[::-1]
         for i, card in enumerate(rev_card): assignments[:, i] = index % card ; index = index // card
         assignments = flip(assignments, axis 1)
       returns a function flat_index -> tuple of per-variable state numbers, or raises AnalysisError."""
    idx = f.params[1]
    loops = [n for n in walk_no_nested(f.node) if isinstance(n, ast.For) and tm.is_(n, "for _i, _c in enumerate(_RC):\n    __BODY") is not None or
             (isinstance(n, ast.For) and isinstance(n.iter, ast.Call) and call_name(n.iter) == "enumerate" and isinstance(n.target, ast.Tuple) and len(n.target.elts) == 2)]
    if not loops:
        raise AnalysisError("DiscreteFactor.assignment: decoding loop not found")
    lp = loops[0]
    ivar, cvar = dotted(lp.target.elts[0]), dotted(lp.target.elts[1])
    from ..util import deep_resolve, single_defs
    rce = deep_resolve(lp.iter.args[0], single_defs(f)) if lp.iter.args else None
    if rce is None:
        raise AnalysisError("DiscreteFactor.assignment: cannot read the cardinality order used for decoding")
    if tm.is_(rce, "self.cardinality[::-1]") is not None:
        order = "reversed"
    elif tm.is_(rce, "self.cardinality") is not None or tm.is_(rce, "self.cardinality[:]") is not None:
        order = "forward"
    else:
        raise AnalysisError("DiscreteFactor.assignment: cannot read the cardinality order used for decoding")
    steps = []
    out = None
    for st in lp.body:
        b1 = tm.is_(st, "_A[:, _i] = _idx % _c", {"_i": ivar, "_c": cvar, "_idx": idx})
        if b1 is not None:
            out = b1["_A"]
            steps.append("digit")
        elif tm.is_(st, "_idx = _idx // _c", {"_c": cvar, "_idx": idx}) is not None:
            steps.append("carry")
        elif isinstance(st, ast.Assign) and isinstance(st.targets[0], ast.Subscript):
            raise AnalysisError("DiscreteFactor.assignment: digit extraction is not `index % card`")
        elif isinstance(st, ast.Assign) and dotted(st.targets[0]) == idx:
            raise AnalysisError("DiscreteFactor.assignment: carry is not `index // card`")
        else:
            raise AnalysisError("DiscreteFactor.assignment: unexpected statement in the decoding loop")
    flipped = out is not None and (tm.has(f.node, "_A = compat_fns.flip(_A, axis=(1,))", {"_A": out}) or tm.has(f.node, "_A = _A[:, ::-1]", {"_A": out})
                                   or tm.has(f.node, "_A = np.flip(_A, axis=1)", {"_A": out}) or tm.has(f.node, "_A = np.fliplr(_A)", {"_A": out}))
    f._c03_out = out

    def decode(k, cards):
        cs = list(reversed(cards)) if order == "reversed" else list(cards)
        digits = []
        idx = k
        for c in cs:
            dg = None
            for s in steps:
                if s == "digit":
                    dg = idx % c
                else:
                    idx = idx // c
            digits.append(dg)
        if flipped:
            digits = digits[::-1]
        return tuple(digits)

    return decode, order, steps, flipped


@rule("C03.decode", "the arg-max index is decoded by the maximised factor's own row-major un-ravelling", floor=3)
def decode(rc):
    repo = rc.repo
    a = repo.func(DF, "DiscreteFactor.assignment")
    dec, order, steps, flipped = _eval_assignment_loop(a)
    cards = (2, 3, 4)
    bad = None
    k = 0
    for i in range(cards[0]):
        for j in range(cards[1]):
            for l in range(cards[2]):
                if dec(k, cards) != (i, j, l) and bad is None:
                    bad = (k, dec(k, cards), (i, j, l))
                k += 1
    rc.report.rows += k
    rc.ob(f"DiscreteFactor.assignment: cardinalities {order}, steps {steps}, flipped {flipped}")
    if bad:
        rc.fail(a, a.node, f"assignment() does not invert the row-major layout of the value table: flat index {bad[0]} is decoded as {bad[1]} but is cell {bad[2]} of a 2x3x4 table",
                construct="assignment unravel")
    okn = any(tm.is_(r.value, "[[(_k, self.get_state_names(_k, int(_v))) for _k, _v in zip(self.variables, _row)] for _row in _A]", {"_A": getattr(a, "_c03_out", None) or "assignments"}) is not None
              for r in returns_of(a) if r.value is not None)
    if not okn:
        rc.fail(a, a.node, "assignment() must pair the decoded digits with the factor's variables in axis order and translate them to state names", construct="assignment names")
    rc.ob("assignment pairs digits with self.variables and maps them to state names")
    for cname in ("VariableElimination", "BeliefPropagation"):
        f = repo.func(EI, f"{cname}.map_query")
        fd_calls = [n for n in walk_no_nested(f.node) if isinstance(n, ast.Assign) and isinstance(n.value, ast.Call) and call_name(n.value) in ("_variable_elimination", "_query")
                    and isinstance(n.targets[0], ast.Name)]
        if not fd_calls:
            raise AnalysisError(f"{cname}.map_query: joint factor definition not found")
        FD = fd_calls[-1].targets[0].id
        _, b1 = tm.find(f.node, "_AM = compat_fns.argmax(_FD.values)", {"_FD": FD})
        _, b2 = tm.find(f.node, "_AS = _FD.assignment([_AM])[0]", b1) if b1 is not None else (None, None)
        if b2 is None:
            _, b2 = tm.find(f.node, "_AS = _FD.assignment([compat_fns.argmax(_FD.values)])[0]", {"_FD": FD})
        rc.ob(f"{cname}.map_query: arg-max over `{FD}.values`, decoded by `{FD}.assignment`: {b2 is not None}")
        if b2 is None:
            rc.fail(f, f.node, f"{cname}.map_query must take the arg-max over the joint factor's value table and decode it with that same factor", construct=f"{cname} argmax/decode")
            continue
        # every pair of the assignment reaches the result
        okr = False
        for lp in [n for n in walk_no_nested(f.node) if isinstance(n, ast.For)]:
            for t in ("for _p in _AS:\n    _k, _v = _p\n    _R[_k] = _v", "for _k, _v in _AS:\n    _R[_k] = _v"):
                b3 = tm.is_(lp, t, {"_AS": b2["_AS"]})
                if b3 is not None and any(dotted(r.value) == b3["_R"] for r in returns_of(f)):
                    okr = True
        okr = okr or any(tm.is_(r.value, "dict(_AS)", {"_AS": b2["_AS"]}) is not None or tm.is_(r.value, "{_k: _v for _k, _v in _AS}", {"_AS": b2["_AS"]}) is not None for r in returns_of(f) if r.value is not None)
        if not okr:
            rc.fail(f, f.node, f"{cname}.map_query must return every (variable, state name) pair of the decoded assignment", construct=f"{cname} result pairs")
    # the factor handed to the decoder keeps variables / cardinality / values together wherever inference code touches them
    from . import shared as _sh
    _sh.external_layout_rule(rc, ("pgmpy/inference/", "pgmpy/models/"))
    am = repo.func("pgmpy/utils/compat_fns.py", "argmax")
    rc.ob(f"compat_fns.argmax: {norm(am.node, 200)[-90:]}")
    if "argmax()" not in norm(am.node, 2000) and "argmax(" not in norm(am.node, 2000):
        rc.fail(am, am.node, "argmax must be the flat arg-max", construct="compat argmax")
    rc.report.exhaustive = True


@rule("C03.scope", "the maximised factor is the joint over exactly the requested variables; defaults and validation", floor=4)
def scope(rc):
    repo = rc.repo
    f = repo.func(EI, "VariableElimination.map_query")
    cs = calls_named(f, "_variable_elimination")
    if len(cs) != 1:
        raise AnalysisError("VariableElimination.map_query: elimination call not found")
    c = cs[0]
    kw = {k.arg: k.value for k in c.keywords}
    rc.ob(f"VE.map_query -> _variable_elimination({', '.join(f'{k}={norm(v)}' for k, v in kw.items())})")
    if dotted(kw.get("variables")) != "variables":
        rc.fail(f, c, "the joint must be over exactly the requested variables", construct="VE scope variables")
    if norm(kw.get("operation", ast.Constant(value=None))) != "'marginalize'":
        rc.fail(f, c, "the other variables must be SUMMED out (MAP of the marginal posterior), not maximised", construct="VE operation")
    if not (isinstance(kw.get("joint"), ast.Constant) and kw["joint"].value is True):
        rc.fail(f, c, "MAP needs the JOINT over the requested variables, not per-variable marginals", construct="VE joint")
    if dotted(kw.get("evidence")) != "evidence":
        rc.fail(f, c, "the evidence must condition the joint", construct="VE evidence")
    recv = dotted(c.func.value)
    d = {n.targets[0].id: n.value for n in walk_no_nested(f.node) if isinstance(n, ast.Assign) and isinstance(n.targets[0], ast.Name)}
    _, be = tm.find(f.node, "_VE = VariableElimination(_MR)", {"_VE": recv}) if recv != "self" else (None, {})
    if recv != "self" and (be is None or not (tm.has(f.node, "_MR, evidence = self._prune_bayesian_model(variables, evidence)", be) or tm.has(f.node, "_MR = self.model", be))):
        rc.fail(f, c, "elimination must run on the (pruned) model of this query", construct="VE engine")
    b = repo.func(EI, "BeliefPropagation.map_query")
    qs = calls_named(b, "_query")
    if len(qs) != 1:
        raise AnalysisError("BeliefPropagation.map_query: _query call not found")
    kw = {k.arg: k.value for k in qs[0].keywords}
    rc.ob(f"BP.map_query -> _query({', '.join(f'{k}={norm(v)}' for k, v in kw.items())})")
    if dotted(kw.get("variables")) != "variables" or norm(kw.get("operation", ast.Constant(value=None))) != "'marginalize'" or not (isinstance(kw.get("joint"), ast.Constant) and kw["joint"].value is True) \
            or dotted(kw.get("evidence")) != "evidence":
        rc.fail(b, qs[0], "BP.map_query must decode the calibrated JOINT marginal over exactly the requested variables given the evidence", construct="BP scope")
    # default: all variables
    tb = norm(b.node, 100000)
    okd = "if not variables" in tb and ("variables = list(self.model.nodes())" in tb or bool(tm.find_all(b.node, "variables = [_v for _v in self.model.nodes() if _v not in evidence]")))
    rc.ob(f"BP.map_query default variables = all nodes: {okd}")
    if not okd:
        rc.fail(b, b.node, "without `variables` the MAP must be over all variables of the model", construct="BP default variables")
    # the default must be taken from the ORIGINAL model (before pruning / virtual evidence re-binds the engine)
    lines = {k: n.lineno for n in walk_no_nested(b.node) if isinstance(n, ast.Assign) for k in [norm(n.targets[0])] if k in ("variables",)}
    reb = [n.lineno for n in walk_no_nested(b.node) if isinstance(n, ast.Call) and call_name(n) in ("_virtual_evidence", "_prune_bayesian_model")]
    dv = [n for n in walk_no_nested(b.node) if isinstance(n, ast.Assign) and norm(n.targets[0]) == "variables" and "self.model.nodes()" in norm(n.value)]
    if dv and reb and dv[0].lineno > min(reb):
        rc.fail(b, dv[0], "the default variable list must be taken before the engine is re-bound to an augmented/pruned model (else auxiliary '__X' nodes are returned)", construct="BP default order")
    fv = repo.func(EI, "VariableElimination._variable_elimination")
    # the all-variables branch (`if not variables`) must condition on the evidence as well
    for br in [n for n in walk_no_nested(fv.node) if isinstance(n, ast.If) and tm.is_(n.test, "not variables") is not None]:
        reduces = [c for st_ in br.body for c in ast.walk(st_) if isinstance(c, ast.Call) and call_name(c) == "reduce" and c.args]
        uses_ev = any(any(isinstance(x, ast.Name) and x.id == "evidence" for x in ast.walk(c.args[0])) for c in reduces) or \
            any(isinstance(x, ast.Name) and x.id == "working_factors" for st_ in br.body for x in ast.walk(st_))
        rc.ob(f"_variable_elimination without variables: the evidence is applied to the factors: {uses_ev}")
        if not uses_ev:
            rc.fail(fv, br, "without `variables` the joint is built from the model's factors without reducing them to the evidence: map_query(evidence=e) / max_marginal(evidence=e) "
                    "ignore e, and the returned assignment can contradict it", construct="all-variables branch ignores evidence")
    tv = norm(fv.node, 100000)
    if "if not variables" not in tv or "factor_product(*" not in tv:
        rc.fail(fv, fv.node, "without variables the joint over all variables is the product of all factors", construct="VE all variables")
    rc.ob("VE without variables: product of all factors")
    # the decode happens on the restored engine (BP) — order: restore, then decode
    _, bo = tm.find(b.node, "_OM = self.model.copy()")
    init = [n.lineno for n, _ in tm.find_all(b.node, "self.__init__(_OM)", bo)] if bo is not None else []
    arg = [n.lineno for n, _ in tm.find_all(b.node, "compat_fns.argmax(_FD.values)", nested=True)]
    if not init or not arg:
        raise AnalysisError("BP.map_query: restore / decode statements not found")
    # the joint that is maximised multiplies every remaining factor once (no value-keyed set of factors on the way)
    from . import shared as _sh
    _sh.value_keyed_factor_rule(rc, [(EI, "VariableElimination._variable_elimination"), (EI, "VariableElimination._get_working_factors"), (EI, "BeliefPropagation._query")])
    # BayesianNetwork.predict (deterministic): ONE map_query over ALL missing variables per distinct row (joint MAP, not per-variable modes)
    BNF = "pgmpy/models/BayesianNetwork.py"
    pr = repo.func(BNF, "BayesianNetwork.predict")
    _, bmv = tm.find(pr.node, "_MV = set(self.nodes()) - set(data.columns)")
    mq = [c for c in ast.walk(pr.node) if isinstance(c, ast.Call) and isinstance(c.func, ast.Call) and call_name(c.func) == "delayed" and c.func.args
          and isinstance(c.func.args[0], ast.Attribute) and c.func.args[0].attr == "map_query"]
    mq += [c for c in ast.walk(pr.node) if isinstance(c, ast.Call) and call_name(c) == "map_query" and isinstance(c.func, ast.Attribute)]
    if bmv is None or not mq:
        raise AnalysisError("BayesianNetwork.predict: missing-variable set / map_query call not found")
    for c in mq:
        vv = kwarg(c, "variables") or (c.args[0] if c.args else None)
        okv = isinstance(vv, ast.Name) and vv.id == bmv["_MV"] or tm.is_(vv, "list(_MV)", bmv) is not None
        # the call must not sit under a generator / loop over the missing variables
        per_var = False
        p_ = getattr(c, "_parent", None)
        while p_ is not None and p_ is not pr.node:
            gens = p_.generators if isinstance(p_, (ast.GeneratorExp, ast.ListComp)) else []
            its = [g.iter for g in gens] + ([p_.iter] if isinstance(p_, ast.For) else [])
            if any(any(isinstance(x, ast.Name) and x.id == bmv["_MV"] for x in ast.walk(it)) for it in its):
                per_var = True
            p_ = getattr(p_, "_parent", None)
        rc.ob(f"predict -> map_query(variables={norm(vv) if vv is not None else None}) once per distinct row: {bool(okv) and not per_var}")
        if not okv or per_var:
            rc.fail(pr, c, "predict must decode the JOINT MAP over all missing variables with one map_query per row; per-variable queries return the marginal modes, "
                    "which need not be a jointly most probable completion", construct="predict per-variable MAP")
    # ... and the rows queried are the rows that are distinct over ALL observed columns, results merged back on all of them
    dd = [c for c in ast.walk(pr.node) if isinstance(c, ast.Call) and call_name(c) == "drop_duplicates"]
    for c in dd:
        sub = kwarg(c, "subset") or (c.args[0] if c.args else None)
        rc.ob(f"predict: distinct rows by {norm(c, 60)}")
        if sub is not None:
            rc.fail(pr, c, "predict de-duplicates the rows on a SUBSET of the observed columns: every observed column is evidence of the MAP query (a co-parent of a child of the missing "
                    "variable changes the answer), so rows that differ elsewhere get the answer of another row", construct="predict distinct rows on a subset")
    for c in [c for c in ast.walk(pr.node) if isinstance(c, ast.Call) and call_name(c) == "merge"]:
        if kwarg(c, "on") is not None or kwarg(c, "left_on") is not None:
            rc.fail(pr, c, "predict merges the per-row answers back on a subset of the columns", construct="predict merge on a subset")
    # max_marginal: maximises the joint's table
    mm = repo.func(EI, "VariableElimination.max_marginal")
    cm = calls_named(mm, "_variable_elimination")
    from ..util import deep_resolve as _dr, single_defs as _sd
    okm = False
    for r in returns_of(mm):
        if r.value is None:
            continue
        bb = tm.is_(_dr(r.value, _sd(mm)), "compat_fns.max(__J.values)")
        if bb is not None and isinstance(bb["__J"], ast.Call) and call_name(bb["__J"]) == "_variable_elimination" and norm(kwarg(bb["__J"], "operation")) == "'maximize'":
            okm = True
    rc.ob(f"max_marginal: max-elimination and max of the remaining table: {bool(okm)}")
    if not okm:
        rc.fail(mm, mm.node, "max_marginal = max over the requested variables of the max-eliminated joint", construct="max_marginal")



@rule("C03.defuse", "anchored files: no parameter is accepted and ignored (generic def-use detector, triaged exemptions)", floor=2)
def defuse(rc):
    from . import shared as _sh
    _sh.defuse_rule(rc, _sh.anchor_files("C03"))

MUTANTS = [
    dict(kind="break", name="all-variables-branch-ignores-evidence", file=EI, expect="C03.scope",
         old="                            for var, state in evidence.items()\n                            if var in factor.scope()", new="                            for var, state in {}.items()\n                            if var in factor.scope()"),
    dict(kind="break", name="predict-distinct-rows-on-neighbours-only", file="pgmpy/models/BayesianNetwork.py", expect="C03.scope",
         old="            data_unique = data.drop_duplicates()\n            pred_values = []\n\n            # Send state_names dict", new="            data_unique = data.drop_duplicates(subset=[c for c in data.columns if c in set(self.get_markov_blanket(list(missing_variables)[0]))] or None)\n            pred_values = []\n\n            # Send state_names dict"),
    dict(kind="break", name="predict-per-variable-map", file="pgmpy/models/BayesianNetwork.py", expect="C03.scope",
         old="                delayed(model_inference.map_query)(\n                    variables=missing_variables,", new="                delayed(model_inference.map_query)(\n                    variables=[list(missing_variables)[0]],"),
    dict(kind="break", name="joint-axes-reordered-without-cardinality", file=EI, expect="C03.decode",
         old="        if joint:\n            if isinstance(self.model, BayesianNetwork):\n                return factor_product(*final_distribution).normalize(inplace=False)",
         new="        if joint:\n            if isinstance(self.model, BayesianNetwork):\n                phi = factor_product(*final_distribution).normalize(inplace=False)\n                order = [phi.variables.index(v) for v in variables]\n                phi.values = compat_fns.transpose(phi.values, order)\n                phi.variables = [phi.variables[i] for i in order]\n                return phi"),
    dict(kind="break", name="assignment-forward-cardinalities", file=DF, expect="C03.decode",
         old="        rev_card = self.cardinality[::-1]\n", new="        rev_card = self.cardinality[:]\n"),
    dict(kind="break", name="assignment-carry-before-digit", file=DF, expect="C03.decode",
         old="            assignments[:, i] = index % card\n            index = index // card", new="            index = index // card\n            assignments[:, i] = index % card"),
    dict(kind="break", name="map-query-argmax-of-other-factor", file=EI, expect="C03.decode",
         old="        argmax = compat_fns.argmax(final_distribution.values)\n        assignment = final_distribution.assignment([argmax])[0]\n\n        map_query_results = {}\n        for var_assignment in assignment:\n            var, value = var_assignment\n            map_query_results[var] = value\n\n        return map_query_results\n\n    def induced_graph",
         new="        argmax = compat_fns.argmax(final_distribution.normalize(inplace=False).values.T)\n        assignment = final_distribution.assignment([argmax])[0]\n\n        map_query_results = {}\n        for var_assignment in assignment:\n            var, value = var_assignment\n            map_query_results[var] = value\n\n        return map_query_results\n\n    def induced_graph"),
    dict(kind="break", name="ve-map-maximises-out-others", file=EI, expect="C03.scope",
         old="        final_distribution = reduced_ve._variable_elimination(\n            variables=variables,\n            operation=\"marginalize\",\n            evidence=evidence,\n            elimination_order=elimination_order,\n            joint=True,",
         new="        final_distribution = reduced_ve._variable_elimination(\n            variables=variables,\n            operation=\"maximize\",\n            evidence=evidence,\n            elimination_order=elimination_order,\n            joint=True,"),
    dict(kind="break", name="bp-map-default-after-rebind", file=EI, expect="C03.scope",
         old="        # TODO:Check the note in docstring. Change that behavior to return the joint MAP\n        if not variables:\n            variables = [var for var in self.model.nodes() if var not in evidence]\n\n        # Make a copy of the original model and then replace self.model with it later.\n        orig_model = self.model.copy()\n",
         new="        # Make a copy of the original model and then replace self.model with it later.\n        orig_model = self.model.copy()\n"),
    dict(kind="twin", name="assignment-explicit-slice", file=DF,
         old="        assignments = compat_fns.flip(assignments, axis=(1,))\n", new="        assignments = assignments[:, ::-1]\n"),
]
