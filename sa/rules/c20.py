"""C20 — linear-Gaussian models agree with multivariate-normal algebra."""
from __future__ import annotations

import ast

from ..core import AnalysisError, call_name, dotted, kwarg, norm, walk_no_nested
from ..effects import Flow, analyse
from ..guards import sites
from ..registry import describe, rule
from ..util import calls_named, peel, returns_of
from . import shared
from .. import tmatch as tm

LG = "pgmpy/models/LinearGaussianBayesianNetwork.py"
GD = "pgmpy/factors/distributions/GaussianDistribution.py"
CD = "pgmpy/factors/distributions/CanonicalDistribution.py"

describe(
    "C20",
    "sub-matrices of means/covariances are extracted with np.ix_/np.delete/chained indexing, never with paired fancy indexing A[I, J] "
    "(which returns a vector of paired entries); the variable list used for data columns, the index map of mean/cov and the order of "
    "the returned names come from one topological order; the orientation of the coefficient matrix B[parent, child] matches the side on "
    "which the inverse is transposed in (I-B)^-T Omega (I-B)^-1; conditional mean/covariance formulas pair the right blocks; "
    "regression coefficients are stored in the order of the regressors with the intercept first; for every method with an `inplace` "
    "flag in the Gaussian modules, the inplace=True specialisation stores the computed result into self and the inplace=False one "
    "leaves self untouched; after a Gaussian's covariance is replaced its cached precision matrix is dropped, re-derived from the new "
    "covariance, or taken from the distribution the covariance came from, on the same path.",
    ["the matrix identities' numeric values", "least-squares fitting done by scikit-learn", "positive-definiteness"],
)


def _defs(f):
    d = {}
    for n in walk_no_nested(f.node):
        if isinstance(n, ast.Assign) and len(n.targets) == 1 and isinstance(n.targets[0], ast.Name):
            d.setdefault(n.targets[0].id, []).append(n.value)
    return d


def _listish(e, d, depth=0):
    if depth > 4 or e is None:
        return False
    if isinstance(e, (ast.List, ast.ListComp, ast.Tuple)):
        return True
    if isinstance(e, ast.Call) and isinstance(e.func, ast.Name) and e.func.id in ("list", "sorted", "range"):
        return True
    if isinstance(e, ast.Name) and e.id in d:
        return any(_listish(v, d, depth + 1) for v in d[e.id])
    return False


@rule("C20.submatrix", "no paired fancy indexing A[I, J] with two index lists where a sub-matrix is meant", floor=10)
def submatrix(rc):
    repo = rc.repo
    n = 0
    for rel in (LG, GD, CD, "pgmpy/factors/continuous/LinearGaussianCPD.py"):
        mod = repo.module(rel)
        for f in list(mod.functions.values()) + [m for c in mod.classes.values() for m in c.methods.values()]:
            d = _defs(f)
            for s in [x for x in walk_no_nested(f.node) if isinstance(x, ast.Subscript)]:
                sl = s.slice
                if isinstance(sl, ast.Tuple) and len(sl.elts) == 2:
                    n += 1
                    a, b = sl.elts
                    if _listish(a, d) and _listish(b, d):
                        rc.fail(f, s, f"{f.qual}: `{norm(s)}` indexes with two index lists at once; numpy pairs them element-wise (a vector of entries), it does not "
                                f"extract the sub-matrix — with two or more indices the block is wrong", construct=f"{f.qual} paired fancy index {norm(s)}")
                    else:
                        rc.ob(f"{f.qual}: 2-D index {norm(s)} (not two lists)")
            for c in [c for c in repo.calls_in(f) if call_name(c) == "ix_"]:
                n += 1
                rc.ob(f"{f.qual}: sub-matrix via {norm(c)}")
    if n == 0:
        raise AnalysisError("no matrix indexing found in the Gaussian modules")


@rule("C20.order", "one variable order for data columns, index maps and returned names; B orientation matches the transposed side; block formulas paired", floor=8)
def order(rc):
    repo = rc.repo
    f = repo.func(LG, "LinearGaussianBayesianNetwork.to_joint_gaussian")
    fn = f.node
    # templates: _X = any local name, __E = any expression
    n, b = tm.find(fn, "_V = list(nx.topological_sort(self))")
    topo = n is not None
    V = b["_V"] if b else None
    rc.ob(f"to_joint_gaussian: variable order `{V}` = topological sort: {topo}")
    if not topo:
        rc.fail(f, fn, "means must be computed parents-first (topological order)", construct="topological order")
        return
    n, bi = tm.find(fn, "_IDX = {_a: _i for _i, _a in enumerate(_V)}", {"_V": V})
    if n is None:
        rc.fail(f, fn, "the index map of mean/covariance must enumerate the same `variables` list", construct="index map")
        return
    IDX = bi["_IDX"]
    okm = tm.has(fn, "_M[_x] = (_c.mean * np.array([1] + [_M[_u] for _u in _c.evidence])).sum()")
    rc.ob(f"mean recursion intercept + sum coef_i * mean(parent_i) in the CPD's evidence order: {okm}")
    if not okm:
        rc.fail(f, fn, "mean(var) = intercept + sum coef_i * mean(parent_i), coefficients paired with parents in the CPD's evidence order (intercept first)", construct="mean recursion")
    if not tm.has(fn, "_M = np.array([_M[_u] for _u in _V])", {"_V": V}):
        rc.fail(f, fn, "the mean vector must follow the `variables` order", construct="mean vector order")
    pc = tm.find_all(fn, "_B[_IDX[_ev], _IDX[_var]] = __COEF", {"_IDX": IDX})
    orient = None
    Bn = None
    for n, b in pc:
        # which of (_ev, _var) is the loop variable over cpd.evidence?
        loops = [p for p in _parents(n) if isinstance(p, ast.For)]
        ev_loop = None
        for lp in loops:
            bl = tm.is_(lp.target, "(_i, _e)")
            if bl and tm.is_(lp.iter, "enumerate(_c.evidence)") is not None:
                ev_loop = (bl["_i"], bl["_e"])
        if ev_loop is None:
            continue
        Bn = b["_B"]
        coef = b["__COEF"]
        okc = tm.is_(coef, "_c.mean[_i + 1]", {"_i": ev_loop[0]}) is not None
        if not okc:
            rc.fail(f, n, "B entry for the i-th parent must be coefficient i+1 of the CPD (0 is the intercept)", construct="B coefficient")
        orient = "parent,child" if b["_ev"] == ev_loop[1] else ("child,parent" if b["_var"] == ev_loop[1] else None)
    if orient is None:
        # vectorised form: B[[idx of parents], idx[var]] = cpd.mean[1:]  (or the transposed placement)
        from ..util import deep_resolve as _dr0, single_defs as _sd0
        for fmt, ori in (("_B[__ROWS, _IDX[_var]] = _c.mean[1:]", "parent,child"), ("_B[_IDX[_var], __ROWS] = _c.mean[1:]", "child,parent")):
            for n, b in tm.find_all(fn, fmt, {"_IDX": IDX}):
                rows = _dr0(b["__ROWS"], {k: v for k, v in _sd0(f).items()})
                br = tm.is_(rows, "[_IDX[_u] for _u in __PS]", {"_IDX": IDX})
                Bn, orient = b["_B"], ori
                okp = br is not None and tm.is_(br["__PS"], "_c.evidence", {"_c": b["_c"]}) is not None
                rc.ob(f"B filled column-wise from {norm(b['_c'])}.mean[1:] with parents taken from `{norm(br['__PS']) if br else norm(rows, 60)}`")
                if not okp:
                    rc.fail(f, n, "the coefficient vector `mean[1:]` follows the CPD's own evidence order; pairing it with another parent list (e.g. the graph's get_parents order) puts "
                            "coefficients on the wrong parents whenever the two orders differ", construct="B coefficient order")
    if orient is None:
        raise AnalysisError("to_joint_gaussian: cannot read the orientation of the coefficient matrix")
    n, bo = tm.find(fn, "_OM[_IDX[_v], _IDX[_v]] = _c.variance", {"_IDX": IDX})
    if n is None:
        rc.fail(f, fn, "Omega must be diagonal with each node's own residual variance", construct="omega")
        return
    OM = bo["_OM"]
    from ..util import deep_resolve as _dr, single_defs as _sd
    n, bv = tm.find(fn, "_INV = np.linalg.inv(__I - _B)", {"_B": Bn})
    if n is None or tm.is_(_dr(bv["__I"], _sd(f)), "np.eye(__N)") is None:
        rc.fail(f, fn, "inv must be (I - B)^-1", construct="inverse")
        return
    INV = bv["_INV"]
    fwd = bool(tm.find_all(fn, "_INV.T @ _OM @ _INV", {"_INV": INV, "_OM": OM}, nested=True))
    rev = bool(tm.find_all(fn, "_INV @ _OM @ _INV.T", {"_INV": INV, "_OM": OM}, nested=True))
    rc.ob(f"B orientation [{orient}]; implied covariance inv.T@omega@inv: {fwd}, inv@omega@inv.T: {rev}")
    want_fwd = orient == "parent,child"
    if (want_fwd and not fwd) or (not want_fwd and not rev):
        rc.fail(f, fn, f"with B[{orient}] the implied covariance must be " + ("inv.T @ omega @ inv" if want_fwd else "inv @ omega @ inv.T") +
                " (= (I-B)^-T Omega (I-B)^-1 for B[parent, child])", construct="covariance orientation")
    # predict — judged on the resolved view (all single-definition temporaries inlined), so the rule does not depend on how the
    # blocks are named or whether they are named at all
    from ..util import resolved_fn
    p = repo.func(LG, "LinearGaussianBayesianNetwork.predict")
    pr_ = resolved_fn(p)
    rets = [n for n in walk_no_nested(pr_) if isinstance(n, ast.Return) and isinstance(n.value, ast.Tuple) and len(n.value.elts) == 3]
    if not rets:
        raise AnalysisError("predict: (names, mean, covariance) result not found")
    names_e, mu_e, cov_e = rets[-1].value.elts
    _, bj = tm.find(p.node, "_MU, _COV = self.to_joint_gaussian()")
    if bj is None:
        raise AnalysisError("predict: joint mean/covariance not obtained from to_joint_gaussian()")
    bc = tm.is_(cov_e, "__AA - __AB @ np.linalg.inv(__BB) @ __AB.T")
    rc.ob(f"predict: conditional covariance has the form aa - ab bb^-1 ab^T: {bc is not None}")
    if bc is None:
        rc.fail(p, p.node, "predict: conditional covariance = cov_aa - cov_ab cov_bb^-1 cov_ab^T", construct="predict cov_cond")
        return
    bm = tm.is_(mu_e, "np.atleast_2d(_MU[__MI]) + (__AB @ np.linalg.inv(__BB) @ (data.loc[:, __RV].values - np.atleast_2d(np.delete(_MU, __MI))).T).T", dict(bc, _MU=bj["_MU"]))
    rc.ob(f"predict: conditional mean = mu_a + ab bb^-1 (x_b - mu_b) with the same blocks: {bm is not None}")
    if bm is None:
        rc.fail(p, p.node, "predict: conditional mean = mu_a + cov_ab cov_bb^-1 (x_b - mu_b) with the observed columns taken in the order of remain_vars", construct="predict mu_cond")
        return
    B0 = dict(bm, _COV=bj["_COV"])
    okaa = any(tm.is_(bm["__AA"], t, B0) is not None for t in ("_COV[np.ix_(__MI, __MI)]", "_COV[__MI][:, __MI]", "_COV[__MI, :][:, __MI]", "_COV[__MI, __MI]"))
    okbb = any(tm.is_(bm["__BB"], t, B0) is not None for t in ("np.delete(np.delete(_COV, __MI, axis=0), __MI, axis=1)", "np.delete(np.delete(_COV, __MI, axis=1), __MI, axis=0)"))
    okab = any(tm.is_(bm["__AB"], t, B0) is not None for t in ("np.delete(_COV[__MI, :], __MI, axis=1)", "np.delete(_COV, __MI, axis=1)[__MI, :]", "np.delete(_COV[__MI], __MI, axis=1)"))
    rc.ob(f"predict blocks: aa over missing x missing {okaa}; bb without missing rows and columns {okbb}; ab missing rows, observed columns {okab}")
    if not okaa:
        rc.fail(p, p.node, "predict: cov_aa must be the missing x missing block of cov", construct="predict cov_aa")
    if not (okbb and okab):
        rc.fail(p, p.node, "predict: cov_bb = cov without missing rows AND columns; cov_ab = missing rows, observed columns", construct="predict cov blocks")
    bi = tm.is_(bm["__MI"], "[__VO.index(_v) for _v in __MV]")
    if bi is None or tm.is_(bi["__VO"], "list(nx.topological_sort(self))") is None:
        rc.fail(p, p.node, "predict must index mean/cov with the same variable order that to_joint_gaussian used to build them (positions of the missing variables in the topological order)",
                construct="predict order")
        return
    if tm.is_(bm["__RV"], "[_v for _v in __VO if _v not in __MV]", {"__VO": bi["__VO"], "__MV": bi["__MV"]}) is None:
        rc.fail(p, p.node, "predict: the observed variables must keep the variable order", construct="predict remain_vars")
    if tm.is_(names_e, "[__VO[_i] for _i in __MI]", {"__VO": bi["__VO"], "__MI": bm["__MI"]}) is None:
        rc.fail(p, p.node, "the returned variable names must follow the order of the returned mean/covariance (missing_indexes)", construct="predict names")
    # simulate / fit
    s = repo.func(LG, "LinearGaussianBayesianNetwork.simulate")
    from ..util import deep_resolve as _dr2, single_defs as _sd2
    oks = any(kwarg(c, "columns") is not None and tm.is_(_dr2(kwarg(c, "columns"), _sd2(s)), "list(nx.topological_sort(self))") is not None
              for c in repo.calls_in(s) if call_name(c) == "DataFrame")
    rc.ob(f"simulate labels columns with the topological order: {oks}")
    if not oks:
        rc.fail(s, s.node, "simulate must label the columns with the order to_joint_gaussian used", construct="simulate columns")
    ft = repo.func(LG, "LinearGaussianBayesianNetwork.fit")
    okf = False
    for n, b in tm.find_all(ft.node, "_LM = LinearRegression().fit(data.loc[:, _P], data.loc[:, _N])"):
        P = b["_P"]
        c1 = any(tm.is_(kwarg(c, "evidence_mean"), "np.append([_LM.intercept_], _LM.coef_)", {"_LM": b["_LM"]}) is not None and dotted(kwarg(c, "evidence")) == P
                 for c in repo.calls_in(ft) if call_name(c) == "LinearGaussianCPD")
        c2 = tm.has(ft.node, "_LM.predict(data.loc[:, _P])", {"_LM": b["_LM"], "_P": P})
        okf = c1 and c2 and tm.has(ft.node, "_P = self.get_parents(_N)", {"_P": P, "_N": b["_N"]})
    rc.ob(f"fit: regressors, coefficient vector and evidence list share one parents list, intercept first: {okf}")
    if not okf:
        rc.fail(ft, ft.node, "fit must regress the node on its parents, store [intercept, coefficients...] and list the parents in the same order", construct="fit pairing")
    # Gaussian reduce / marginalize blocks
    g = repo.func(GD, "GaussianDistribution.reduce")
    gn = g.node
    n, b = tm.find(gn, "_K = [self.variables.index(_v) for _v in self.variables if _v not in _R]")
    n2, b2 = tm.find(gn, "_RI = [self.variables.index(_v) for _v in _R]", {"_R": b["_R"]} if b else None)
    if n is None or n2 is None:
        raise AnalysisError("GaussianDistribution.reduce: index lists not found")
    K, RI = b["_K"], b2["_RI"]
    bb = {"_K": K, "_RI": RI}
    blocks = {}
    for role, t in (("ij", "_S = self.covariance[np.ix_(_RI, _K)]"), ("ji", "_S = self.covariance[np.ix_(_K, _RI)]"),
                    ("ii_inv", "_S = np.linalg.inv(self.covariance[np.ix_(_RI, _RI)])"), ("jj", "_S = self.covariance[np.ix_(_K, _K)]"),
                    ("mu_j", "_S = self.mean[_K]"), ("mu_i", "_S = self.mean[_RI]")):
        n, b = tm.find(gn, t, bb)
        if n is None:
            rc.fail(g, gn, f"GaussianDistribution.reduce: block `{role}` must be `{t.split('= ')[1]}`", construct=f"reduce {role}")
        else:
            blocks[role] = b["_S"]
    if len(blocks) == 6:
        w = tm.find(gn, "_W = self if inplace else self.copy()")[1]
        W = w["_W"] if w else "phi"
        ok1 = tm.has(gn, "_W.mean = _MJ + np.linalg.multi_dot([_JI, _II, _X - _MI])", {"_W": W, "_MJ": blocks["mu_j"], "_JI": blocks["ji"], "_II": blocks["ii_inv"], "_MI": blocks["mu_i"]})
        ok2 = tm.has(gn, "_W.covariance = _JJ - np.linalg.multi_dot([_JI, _II, _IJ])", {"_W": W, "_JJ": blocks["jj"], "_JI": blocks["ji"], "_II": blocks["ii_inv"], "_IJ": blocks["ij"]})
        if not (ok1 and ok2):
            rc.fail(g, gn, "GaussianDistribution.reduce: conditional mean/covariance formulas", construct="reduce formulas")
    rc.ob("GaussianDistribution.reduce: blocks and conditional formulas paired")
    m = repo.func(GD, "GaussianDistribution.marginalize")
    n, b = tm.find(m.node, "_W.covariance = _W.covariance[np.ix_(_K, _K)]")
    okg = n is not None and tm.has(m.node, "_W.mean = _W.mean[_K]", b) and tm.has(m.node, "_W.variables = [_W.variables[_i] for _i in _K]", b)
    if n is None:
        n, b = tm.find(m.node, "_W.covariance = _W.covariance[_K, _K]")  # reported by C20.submatrix
        okg = n is not None and tm.has(m.node, "_W.mean = _W.mean[_K]", b) and tm.has(m.node, "_W.variables = [_W.variables[_i] for _i in _K]", b)
    if not okg:
        rc.fail(m, m.node, "GaussianDistribution.marginalize must keep the same index list for variables, mean and covariance block", construct="marginalize blocks")
    rc.ob("GaussianDistribution.marginalize: one index list for variables, mean, covariance")
    # canonical form: integrating x_j out of exp(-x'Kx/2 + h'x + g) gives  g' = g + 0.5 (|j| log 2pi - log|K_jj| + h_j' K_jj^{-1} h_j)   (Koller & Friedman 14.6)
    from ..util import resolved_fn as _rf
    cm = repo.func(CD, "CanonicalDistribution.marginalize")
    cr = _rf(cm)
    gs = [n for n in walk_no_nested(cr) if isinstance(n, ast.Assign) and isinstance(n.targets[0], ast.Attribute) and n.targets[0].attr == "g"]
    if not gs:
        raise AnalysisError("CanonicalDistribution.marginalize: g update not found")
    quad = [c for c in ast.walk(gs[-1].value) if isinstance(c, ast.Call) and call_name(c) == "multi_dot" and c.args and isinstance(c.args[0], ast.List) and len(c.args[0].elts) == 3]
    okq = False
    for c in quad:
        l, m, r = c.args[0].elts
        hl = tm.is_(l, "__H.T")
        if hl is not None and ast.dump(hl["__H"]) == ast.dump(r):
            inv = isinstance(m, ast.Call) and call_name(m) == "inv"
            rc.ob(f"CanonicalDistribution.marginalize: quadratic term of g uses {norm(m, 60)} (inverse of K_jj: {inv})")
            if inv:
                okq = True
            else:
                rc.fail(cm, gs[-1], "the constant of the marginal canonical form needs h_j' K_jj^{-1} h_j; the code multiplies with K_jj itself, so the marginal density is off by a constant "
                        "factor (K' and h' are right)", construct="canonical marginalize quadratic term")
                okq = True
    if not okq:
        raise AnalysisError("CanonicalDistribution.marginalize: quadratic term of g not recognised")


def _parents(n):
    p = getattr(n, "_parent", None)
    while p is not None:
        yield p
        p = getattr(p, "_parent", None)


@rule("C20.inplace", "inplace=True stores the computed result into self; inplace=False leaves self untouched (Gaussian modules)", floor=8)
def inplace(rc):
    repo = rc.repo
    summ = shared.summaries(repo)
    for rel in (GD, CD):
        for ci in repo.module(rel).classes.values():
            for f in ci.methods.values():
                if "inplace" not in f.params:
                    continue
                # out-of-place: operand untouched
                fl = analyse(summ, f, fold={"inplace": False})
                for m in fl.mutations:
                    rc.fail(f, m.node, f"{f.qual}(inplace=False) modifies `{m.root}`: {norm(m.node, 60)}", construct=f"{f.qual} False: {norm(m.node, 80)}")
                # in place: the value handed back when not inplace must be self itself, or be stored into self, or the work is delegated with the flag
                res_names = set()
                for s in sites(f.node, lambda n: isinstance(n, ast.Return) and n.value is not None):
                    if any((dotted(t) == "inplace" and not pol) or (isinstance(t, ast.UnaryOp) and dotted(t.operand) == "inplace" and pol) for t, pol in s.conds):
                        if isinstance(s.node.value, ast.Name):
                            res_names.add(s.node.value.id)
                delegates = [r for r in returns_of(f) if isinstance(r.value, ast.Call) and (dotted(kwarg(r.value, "inplace")) == "inplace" or any(dotted(a) == "inplace" for a in r.value.args))]
                flt = Flow(summ, f, fold={"inplace": True})
                flt.run()
                stores = [m for m in flt.mutations if m.root == "self"]
                verdict = "delegates" if delegates else None
                for nm in res_names:
                    p = flt.state.get(nm)
                    aliases_self = p is not None and "self" in p.roots
                    if aliases_self:
                        verdict = verdict or "works on self"
                    elif stores:
                        verdict = verdict or "stores result into self"
                    else:
                        verdict = verdict or "DROPPED"
                if verdict is None:
                    verdict = "no result variable" if not res_names else verdict
                rc.ob(f"{f.qual}: inplace=True -> {verdict}; inplace=False -> {len(fl.mutations)} operand mutation(s)")
                if verdict == "DROPPED":
                    rc.fail(f, f.node, f"{f.qual}(inplace=True) computes `{sorted(res_names)[0]}` but never stores it into self: the default in-place call does nothing",
                            construct=f"{f.qual} inplace result dropped")



@rule("C20.cache", "the cached precision matrix is dropped or re-derived whenever a Gaussian's covariance is replaced", floor=3)
def cache(rc):
    """GaussianDistribution memoises inv(covariance) in `_precision_matrix`.  After `B.covariance = ...` the only coherent values of
    B._precision_matrix are None (recomputed on demand), inv(B.covariance), or — when the covariance is taken over from another
    distribution P (`B.covariance = P.covariance`) — P's own cache.  A block of the OLD precision is the conditional's precision, not
    the marginal's."""
    from ..guards import sites
    repo = rc.repo
    cls = repo.cls(GD, "GaussianDistribution")
    n = 0
    for f in cls.methods.values():
        covs = [s_ for s_ in sites(f.node, lambda x: isinstance(x, ast.Assign) and isinstance(x.targets[0], ast.Attribute) and x.targets[0].attr == "covariance")]
        for s_ in covs:
            base = norm(s_.node.targets[0].value)
            n += 1
            src = None
            if isinstance(s_.node.value, ast.Attribute) and s_.node.value.attr == "covariance":
                src = norm(s_.node.value.value)
            later = [x for x in sites(f.node, lambda x: isinstance(x, ast.Assign) and isinstance(x.targets[0], ast.Attribute) and x.targets[0].attr == "_precision_matrix"
                                      and norm(x.targets[0].value) == base) if x.node.lineno > s_.node.lineno]
            ok = False
            for l in later:
                v = l.node.value
                coherent = (isinstance(v, ast.Constant) and v.value is None) or tm.is_(v, "np.linalg.inv(__C)") is not None and norm(tm.is_(v, "np.linalg.inv(__C)")["__C"]) == f"{base}.covariance" \
                    or (src is not None and norm(v) == f"{src}._precision_matrix")
                # must not be more conditional than the covariance store itself
                extra = [c for c in l.conds if not any(c[0] is c2[0] and c[1] == c2[1] for c2 in s_.conds)]
                if coherent and not extra:
                    ok = True
                elif not coherent:
                    rc.fail(f, l.node, f"{f.qual}: after `{norm(s_.node, 70)}` the cached precision of `{base}` is set to `{norm(v, 70)}` — neither dropped (None), nor inv of the new covariance, "
                            "nor the cache of the distribution the covariance came from; precision-based operations (to_canonical_factor, product, divide) then describe another density",
                            construct=f"{f.name} stale precision {norm(v, 60)}")
                    ok = True  # reported
            rc.ob(f"{f.qual}: `{norm(s_.node, 60)}` followed by a coherent precision-cache update: {ok}")
            if not ok:
                rc.fail(f, s_.node, f"{f.qual}: `{norm(s_.node, 70)}` replaces the covariance of `{base}` but its cached precision matrix is not dropped/re-derived on the same path",
                        construct=f"{f.name} precision not invalidated")
    if n < 3:
        raise AnalysisError(f"GaussianDistribution: only {n} covariance stores found")


@rule("C20.defuse", "anchored files: no parameter is accepted and ignored (generic def-use detector, triaged exemptions)", floor=2)
def defuse(rc):
    from . import shared as _sh
    _sh.defuse_rule(rc, _sh.anchor_files("C20"))


@rule("C20.scatter", "CanonicalDistribution._operate scatters each operand's K and h into the combined scope at the positions of ITS OWN variables, in its own order", floor=2)
def scatter(rc):
    """`ext[np.ix_(index, index)] = K` puts K[i, j] at (index[i], index[j]); `index` therefore lists, for the operand's i-th variable, its position in the combined
    scope.  The index expressions are evaluated on concrete scopes in which the second operand lists shared variables in another order than the combined scope
    (x3, x1 against x1, x2, x3): a membership mask or a sorted index list loses exactly that order."""
    from ..layout import Env, eval_expr
    repo = rc.repo
    f = repo.func(CD, "CanonicalDistribution._operate")
    defs = {}
    for st in walk_no_nested(f.node):
        if isinstance(st, ast.Assign) and len(st.targets) == 1 and isinstance(st.targets[0], ast.Name):
            defs[st.targets[0].id] = st
    if "all_vars" not in defs:
        raise AnalysisError("_operate: combined scope `all_vars` not found")
    # which index goes with which operand: arguments of the scope-extension helpers
    pairs = set()
    for c in ast.walk(f.node):
        if isinstance(c, ast.Call) and isinstance(c.func, ast.Name) and c.func.id.startswith("_extend") and len(c.args) == 2 and isinstance(c.args[1], ast.Name):
            op = norm(c.args[0]).split(".")[0]
            pairs.add((op, c.args[1].id))
    if len(pairs) < 2:
        raise AnalysisError("_operate: scope-extension calls not found")
    for sv, ov in ((["x1", "x2", "x3"], ["x3", "x1"]), (["x1", "x2", "x3"], ["x4", "x2"]), (["b", "a"], ["a", "c", "b"])):
        env = Env()
        env["self.variables"], env["other.variables"] = list(sv), list(ov)
        env["np"] = None
        try:
            all_vars = eval_expr(defs["all_vars"].value, env)
            env["all_vars"] = all_vars
            env["no_of_var"] = len(all_vars)
            for op, idx in sorted(pairs):
                if idx not in defs:
                    raise AnalysisError(f"_operate: index `{idx}` has no single definition")
                got = eval_expr(defs[idx].value, env)
                opvars = sv if op == "self" else ov
                want = [all_vars.index(v) for v in opvars]
                if isinstance(got, (list, tuple)) and got and all(isinstance(x, bool) for x in got):
                    got_pos = [i for i, b_ in enumerate(got) if b_]     # numpy: a boolean mask selects the True positions in increasing order
                else:
                    got_pos = list(got) if isinstance(got, (list, tuple)) else got
                rc.ob(f"_operate: scopes {sv} {'*'} {ov}: `{idx}` -> {got_pos}, positions of {op}.variables in the combined scope {want}")
                if got_pos != want:
                    rc.fail(f, defs[idx], f"_operate: with scopes {sv} and {ov} the index `{idx} = {norm(defs[idx].value, 60)}` addresses positions {got_pos} of the combined scope "
                            f"{all_vars}, but {op}.variables {opvars} sit at {want}: K and h of the operand are scattered to the wrong variables", construct=f"_operate scatter index {idx}")
        except AnalysisError:
            raise



MUTANTS = [
    dict(kind="repair", name="canonical-marginalize-uses-inverse", file=CD, gone="C20.order",
         old="                + np.linalg.multi_dot([h_j.T, K_j_j, h_j])", new="                + np.linalg.multi_dot([h_j.T, K_j_j_inv, h_j])"),
    dict(kind="break", name="marginalize-keeps-precision-block", file=GD, expect="C20.cache",
         old="        phi.covariance = phi.covariance[np.ix_(index_to_keep, index_to_keep)]\n        phi._precision_matrix = None", new="        phi.covariance = phi.covariance[np.ix_(index_to_keep, index_to_keep)]\n        if phi._precision_matrix is not None:\n            phi._precision_matrix = phi._precision_matrix[np.ix_(index_to_keep, index_to_keep)]"),
    dict(kind="break", name="reduce-forgets-precision", file=GD, expect="C20.cache",
         old="        phi.covariance = sig_j_j - np.linalg.multi_dot([sig_j_i, sig_i_i_inv, sig_i_j])\n        phi._precision_matrix = None", new="        phi.covariance = sig_j_j - np.linalg.multi_dot([sig_j_i, sig_i_i_inv, sig_i_j])"),
    dict(kind="twin", name="marginalize-recomputes-precision", file=GD,
         old="        phi.covariance = phi.covariance[np.ix_(index_to_keep, index_to_keep)]\n        phi._precision_matrix = None", new="        phi.covariance = phi.covariance[np.ix_(index_to_keep, index_to_keep)]\n        phi._precision_matrix = np.linalg.inv(phi.covariance)"),
    dict(kind="break", name="predict-paired-index", file=LG, expect="C20.submatrix",
         old="cov_aa = cov[np.ix_(missing_indexes, missing_indexes)]", new="cov_aa = cov[missing_indexes, missing_indexes]"),
    dict(kind="break", name="gaussian-marginalize-paired-index", file=GD, expect="C20.submatrix",
         old="phi.covariance = phi.covariance[np.ix_(index_to_keep, index_to_keep)]", new="phi.covariance = phi.covariance[index_to_keep, index_to_keep]"),
    dict(kind="break", name="cov-wrong-side-transposed", file=LG, expect="C20.order",
         old="implied_cov = inv.T @ omega @ inv", new="implied_cov = inv @ omega @ inv.T"),
    dict(kind="break", name="b-orientation-flipped", file=LG, expect="C20.order",
         old="B[var_to_index[evidence_var], var_to_index[var]] = cpd.mean[i + 1]", new="B[var_to_index[var], var_to_index[evidence_var]] = cpd.mean[i + 1]"),
    dict(kind="break", name="b-coefficient-off-by-one", file=LG, expect="C20.order",
         old="B[var_to_index[evidence_var], var_to_index[var]] = cpd.mean[i + 1]", new="B[var_to_index[evidence_var], var_to_index[var]] = cpd.mean[i]"),
    dict(kind="break", name="predict-order-from-nodes", file=LG, expect="C20.order",
         old="        variable_order = list(nx.topological_sort(self))\n        missing_indexes", new="        variable_order = list(self.nodes())\n        missing_indexes"),
    dict(kind="break", name="predict-cov-ab-not-transposed", file=LG, expect="C20.order",
         old="cov_cond = cov_aa - cov_ab @ cov_bb_inv @ cov_ab.T", new="cov_cond = cov_aa - cov_ab @ cov_bb_inv @ cov_ab"),
    dict(kind="break", name="predict-names-sorted", file=LG, expect="C20.order",
         old="return ([variable_order[i] for i in missing_indexes], mu_cond, cov_cond)", new="return (sorted(missing_vars), mu_cond, cov_cond)"),
    dict(kind="break", name="fit-intercept-last", file=LG, expect="C20.order",
         old="evidence_mean=np.append([lm.intercept_], lm.coef_),", new="evidence_mean=np.append(lm.coef_, [lm.intercept_]),"),
    dict(kind="break", name="gaussian-reduce-swapped-blocks", file=GD, expect="C20.order",
         old="sig_i_j = self.covariance[np.ix_(index_to_reduce, index_to_keep)]", new="sig_i_j = self.covariance[np.ix_(index_to_keep, index_to_keep)]"),
    dict(kind="break", name="gaussian-operate-drops-inplace", file=GD, expect="C20.inplace",
         old="        else:\n            self.variables = phi.variables\n            self.mean = phi.mean\n            self.covariance = phi.covariance\n            self._precision_matrix = phi._precision_matrix\n", new=""),
    dict(kind="break", name="gaussian-reduce-writes-self", file=GD, expect="C20.inplace",
         old="        phi.variables = [self.variables[index] for index in index_to_keep]\n        phi.mean = mu_j", new="        self.variables = [self.variables[index] for index in index_to_keep]\n        phi.mean = mu_j"),
    dict(kind="twin", name="predict-chained-index", file=LG,
         old="cov_aa = cov[np.ix_(missing_indexes, missing_indexes)]", new="cov_aa = cov[missing_indexes][:, missing_indexes]"),
]
