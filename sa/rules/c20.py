"""C20 — linear-Gaussian models agree with multivariate-normal algebra."""
from __future__ import annotations

import ast

from ..core import AnalysisError, call_name, dotted, kwarg, norm, walk_no_nested
from ..effects import Flow, analyse
from ..guards import sites
from ..registry import describe, rule
from ..util import calls_named, peel, returns_of
from . import shared

LG = "pgmpy/models/LinearGaussianBayesianNetwork.py"
GD = "pgmpy/factors/distributions/GaussianDistribution.py"
CD = "pgmpy/factors/distributions/CanonicalDistribution.py"

describe(
    "C20",
    "sub-matrices of means/covariances are extracted with np.ix_/np.delete/chained indexing, never with paired fancy indexing A[I, J] "
    "(which returns a vector of paired entries); the variable list used for data columns, the index map of mean/cov and the order of "
    "the returned names come from one topological order; the orientation of the coefficient matrix B[parent, child] matches the side on "
    "which the inverse is transposed in (I-B)^-T Omega (I-B)^-1; conditional mean/covariance formulas pair the right blocks; "
    "regression coefficients are stored in the order of the regressors with the intercept first; for every method with an `inplace` "
    "flag in the Gaussian modules, the inplace=True specialisation stores the computed result into self and the inplace=False one "
    "leaves self untouched.",
    ["the matrix identities' numeric values", "least-squares fitting done by scikit-learn", "positive-definiteness"],
)


def _defs(f):
    d = {}
    for n in walk_no_nested(f.node):
        if isinstance(n, ast.Assign) and len(n.targets) == 1 and isinstance(n.targets[0], ast.Name):
            d.setdefault(n.targets[0].id, []).append(n.value)
    return d


def _listish(e, d, depth=0):
    if depth > 4 or e is None:
        return False
    if isinstance(e, (ast.List, ast.ListComp, ast.Tuple)):
        return True
    if isinstance(e, ast.Call) and isinstance(e.func, ast.Name) and e.func.id in ("list", "sorted", "range"):
        return True
    if isinstance(e, ast.Name) and e.id in d:
        return any(_listish(v, d, depth + 1) for v in d[e.id])
    return False


@rule("C20.submatrix", "no paired fancy indexing A[I, J] with two index lists where a sub-matrix is meant", floor=10)
def submatrix(rc):
    repo = rc.repo
    n = 0
    for rel in (LG, GD, CD, "pgmpy/factors/continuous/LinearGaussianCPD.py"):
        mod = repo.module(rel)
        for f in list(mod.functions.values()) + [m for c in mod.classes.values() for m in c.methods.values()]:
            d = _defs(f)
            for s in [x for x in walk_no_nested(f.node) if isinstance(x, ast.Subscript)]:
                sl = s.slice
                if isinstance(sl, ast.Tuple) and len(sl.elts) == 2:
                    n += 1
                    a, b = sl.elts
                    if _listish(a, d) and _listish(b, d):
                        rc.fail(f, s, f"{f.qual}: `{norm(s)}` indexes with two index lists at once; numpy pairs them element-wise (a vector of entries), it does not "
                                f"extract the sub-matrix — with two or more indices the block is wrong", construct=f"{f.qual} paired fancy index {norm(s)}")
                    else:
                        rc.ob(f"{f.qual}: 2-D index {norm(s)} (not two lists)")
            for c in [c for c in repo.calls_in(f) if call_name(c) == "ix_"]:
                n += 1
                rc.ob(f"{f.qual}: sub-matrix via {norm(c)}")
    if n == 0:
        raise AnalysisError("no matrix indexing found in the Gaussian modules")


@rule("C20.order", "one variable order for data columns, index maps and returned names; B orientation matches the transposed side; block formulas paired", floor=8)
def order(rc):
    repo = rc.repo
    f = repo.func(LG, "LinearGaussianBayesianNetwork.to_joint_gaussian")
    d = _defs(f)
    v = d.get("variables", [None])[0]
    topo = v is not None and "topological_sort(self)" in norm(v)
    idx = d.get("var_to_index", [None])[0]
    okidx = idx is not None and norm(idx).replace(" ", "") == "{var:ifori,varinenumerate(variables)}"
    rc.ob(f"to_joint_gaussian: variables = {norm(v) if v is not None else None}; index map from the same list: {okidx}")
    if not topo:
        rc.fail(f, f.node, "means must be computed parents-first (topological order)", construct="topological order")
    if not okidx:
        rc.fail(f, f.node, "the index map of mean/covariance must enumerate the same `variables` list", construct="index map")
    # mean recursion
    ms = [n for n in walk_no_nested(f.node) if isinstance(n, ast.Assign) and norm(n.targets[0]) == "mean[var]"]
    okm = ms and "cpd.mean *" in norm(ms[0].value, 300) and "[1] + [mean[u] for u in cpd.evidence]" in norm(ms[0].value, 300) and ".sum()" in norm(ms[0].value, 300)
    rc.ob(f"mean recursion: {norm(ms[0].value, 120) if ms else None}")
    if not okm:
        rc.fail(f, f.node, "mean(var) = intercept + sum coef_i * mean(parent_i), coefficients paired with parents in the CPD's evidence order (intercept first)", construct="mean recursion")
    mv = [n for n in walk_no_nested(f.node) if isinstance(n, ast.Assign) and dotted(n.targets[0]) == "mean" and isinstance(n.value, ast.Call)]
    if not any("for u in variables" in norm(n.value) for n in mv):
        rc.fail(f, f.node, "the mean vector must follow the `variables` order", construct="mean vector order")
    # B orientation
    bs = [n for n in walk_no_nested(f.node) if isinstance(n, ast.Assign) and isinstance(n.targets[0], ast.Subscript) and dotted(n.targets[0].value) == "B"]
    orient = None
    for n in bs:
        sl = n.targets[0].slice
        if isinstance(sl, ast.Tuple) and len(sl.elts) == 2:
            r0, c0 = norm(sl.elts[0]), norm(sl.elts[1])
            if r0 == "var_to_index[evidence_var]" and c0 == "var_to_index[var]":
                orient = "parent,child"
            elif r0 == "var_to_index[var]" and c0 == "var_to_index[evidence_var]":
                orient = "child,parent"
            coefok = norm(n.value) == "cpd.mean[i + 1]" and any(isinstance(p, ast.For) and norm(p.iter) == "enumerate(cpd.evidence)" for p in _parents(n))
            if not coefok:
                rc.fail(f, n, "B entry for the i-th parent must be coefficient i+1 of the CPD (0 is the intercept)", construct="B coefficient")
    cov = d.get("implied_cov", [None])[0]
    ct = norm(cov) if cov is not None else ""
    rc.ob(f"B orientation [{orient}], implied covariance {ct}, inv = {norm(d.get('inv', [None])[0]) if d.get('inv') else None}")
    want = {"parent,child": "inv.T @ omega @ inv", "child,parent": "inv @ omega @ inv.T"}.get(orient)
    if want is None or ct != want:
        rc.fail(f, cov if cov is not None else f.node, f"with B[{orient}] the implied covariance must be `{want}` (= (I-B)^-T Omega (I-B)^-1 for B[parent, child]); found `{ct}`",
                construct="covariance orientation")
    inv = d.get("inv", [None])[0]
    if inv is None or norm(inv).replace(" ", "") not in ("np.linalg.inv(I-B)", "np.linalg.inv((I-B))"):
        rc.fail(f, f.node, "inv must be (I - B)^-1", construct="inverse")
    om = [n for n in walk_no_nested(f.node) if isinstance(n, ast.Assign) and isinstance(n.targets[0], ast.Subscript) and dotted(n.targets[0].value) == "omega"]
    if not om or norm(om[0].targets[0].slice) != "(var_to_index[var], var_to_index[var])" or norm(om[0].value) != "cpd.variance":
        rc.fail(f, f.node, "Omega must be diagonal with each node's own residual variance", construct="omega")
    # predict
    p = repo.func(LG, "LinearGaussianBayesianNetwork.predict")
    d = _defs(p)
    vo = d.get("variable_order", [None])[0]
    same_order = vo is not None and v is not None and norm(vo) == norm(v)
    rc.ob(f"predict: variable_order = {norm(vo) if vo is not None else None} (same expression as to_joint_gaussian: {same_order})")
    if not same_order:
        rc.fail(p, p.node, "predict must index mean/cov with the same variable order that to_joint_gaussian used to build them", construct="predict order")
    checks = {
        "missing_indexes": "[variable_order.index(var) for var in missing_vars]",
        "remain_vars": "[var for var in variable_order if var not in missing_vars]",
        "mu_a": "mu[missing_indexes]",
        "mu_b": "np.delete(mu, missing_indexes)",
        "cov_bb": "np.delete(np.delete(cov, missing_indexes, axis=0), missing_indexes, axis=1)",
        "cov_ab": "np.delete(cov[missing_indexes, :], missing_indexes, axis=1)",
        "cov_bb_inv": "np.linalg.inv(cov_bb)",
        "cov_cond": "cov_aa - cov_ab @ cov_bb_inv @ cov_ab.T",
    }
    alt = {"cov_bb": ["np.delete(np.delete(cov, missing_indexes, axis=1), missing_indexes, axis=0)"],
           "cov_ab": ["np.delete(cov, missing_indexes, axis=1)[missing_indexes, :]", "np.delete(cov[missing_indexes], missing_indexes, axis=1)"]}
    for name, want in checks.items():
        if name not in d:
            raise AnalysisError(f"predict: local `{name}` not found (the function was restructured; this rule compares named blocks and cannot decide)")
        got = norm(d.get(name, [ast.Constant(value=None)])[0])
        if got != want and got not in alt.get(name, []):
            rc.fail(p, p.node, f"predict: `{name}` must be `{want}`; found `{got}`", construct=f"predict {name}")
    caa = norm(d.get("cov_aa", [ast.Constant(value=None)])[0])
    rc.ob(f"predict blocks: cov_aa = {caa}")
    if caa not in ("cov[np.ix_(missing_indexes, missing_indexes)]", "cov[missing_indexes][:, missing_indexes]", "cov[missing_indexes, :][:, missing_indexes]"):
        if "cov[missing_indexes, missing_indexes]" != caa:  # the paired form is reported by C20.submatrix
            rc.fail(p, p.node, f"predict: cov_aa must be the missing x missing block of cov; found `{caa}`", construct="predict cov_aa")
    mc = norm(d.get("mu_cond", [ast.Constant(value=None)])[0], 400).replace(" ", "")
    okmc = "np.atleast_2d(mu_a)+" in mc and "cov_ab@cov_bb_inv@(data.loc[:,remain_vars].values-np.atleast_2d(mu_b)).T" in mc
    if not okmc:
        rc.fail(p, p.node, "predict: conditional mean = mu_a + cov_ab cov_bb^-1 (x_b - mu_b) with the observed columns taken in the order of remain_vars", construct="predict mu_cond")
    r = returns_of(p)[-1].value
    if not (isinstance(r, ast.Tuple) and norm(r.elts[0]) == "[variable_order[i] for i in missing_indexes]"):
        rc.fail(p, p.node, "the returned variable names must follow the order of the returned mean/covariance (missing_indexes)", construct="predict names")
    # simulate / fit
    s = repo.func(LG, "LinearGaussianBayesianNetwork.simulate")
    ds = _defs(s)
    if v is None or norm(ds.get("variables", [ast.Constant(value=None)])[0]) != norm(v) or "columns=variables" not in norm(s.node, 5000):
        rc.fail(s, s.node, "simulate must label the columns with the order to_joint_gaussian used", construct="simulate columns")
    rc.ob("simulate labels columns with the topological order")
    ft = repo.func(LG, "LinearGaussianBayesianNetwork.fit")
    t = norm(ft.node, 100000)
    okf = "LinearRegression().fit(data.loc[:, parents], data.loc[:, node])" in t and "evidence_mean=np.append([lm.intercept_], lm.coef_)" in t and "evidence=parents" in t \
        and "lm.predict(data.loc[:, parents])" in t
    rc.ob(f"fit: regressors, coefficient vector and evidence list share `parents`, intercept first: {okf}")
    if not okf:
        rc.fail(ft, ft.node, "fit must regress the node on its parents, store [intercept, coefficients...] and list the parents in the same order", construct="fit pairing")
    # Gaussian reduce / marginalize blocks
    g = repo.func(GD, "GaussianDistribution.reduce")
    dg = _defs(g)
    want = {"sig_i_j": "self.covariance[np.ix_(index_to_reduce, index_to_keep)]", "sig_j_i": "self.covariance[np.ix_(index_to_keep, index_to_reduce)]",
            "sig_i_i_inv": "np.linalg.inv(self.covariance[np.ix_(index_to_reduce, index_to_reduce)])", "sig_j_j": "self.covariance[np.ix_(index_to_keep, index_to_keep)]",
            "mu_j": "self.mean[index_to_keep]", "mu_i": "self.mean[index_to_reduce]"}
    for k, w in want.items():
        if k not in dg:
            raise AnalysisError(f"GaussianDistribution.reduce: local `{k}` not found (restructured; cannot decide)")
        got = norm(dg.get(k, [ast.Constant(value=None)])[0])
        if got != w:
            rc.fail(g, g.node, f"GaussianDistribution.reduce: `{k}` must be `{w}`; found `{got}`", construct=f"reduce {k}")
    tg = norm(g.node, 100000)
    if "phi.mean = mu_j + np.linalg.multi_dot([sig_j_i, sig_i_i_inv, x_i - mu_i])" not in tg or \
            "phi.covariance = sig_j_j - np.linalg.multi_dot([sig_j_i, sig_i_i_inv, sig_i_j])" not in tg:
        rc.fail(g, g.node, "GaussianDistribution.reduce: conditional mean/covariance formulas", construct="reduce formulas")
    rc.ob("GaussianDistribution.reduce: blocks and conditional formulas paired")
    m = repo.func(GD, "GaussianDistribution.marginalize")
    tm = norm(m.node, 100000)
    if "phi.covariance = phi.covariance[np.ix_(index_to_keep, index_to_keep)]" not in tm or "phi.mean = phi.mean[index_to_keep]" not in tm or \
            "phi.variables = [phi.variables[index] for index in index_to_keep]" not in tm:
        rc.fail(m, m.node, "GaussianDistribution.marginalize must keep the same index list for variables, mean and covariance block", construct="marginalize blocks")
    rc.ob("GaussianDistribution.marginalize: one index list for variables, mean, covariance")


def _parents(n):
    p = getattr(n, "_parent", None)
    while p is not None:
        yield p
        p = getattr(p, "_parent", None)


@rule("C20.inplace", "inplace=True stores the computed result into self; inplace=False leaves self untouched (Gaussian modules)", floor=8)
def inplace(rc):
    repo = rc.repo
    summ = shared.summaries(repo)
    for rel in (GD, CD):
        for ci in repo.module(rel).classes.values():
            for f in ci.methods.values():
                if "inplace" not in f.params:
                    continue
                # out-of-place: operand untouched
                fl = analyse(summ, f, fold={"inplace": False})
                for m in fl.mutations:
                    rc.fail(f, m.node, f"{f.qual}(inplace=False) modifies `{m.root}`: {norm(m.node, 60)}", construct=f"{f.qual} False: {norm(m.node, 80)}")
                # in place: the value handed back when not inplace must be self itself, or be stored into self, or the work is delegated with the flag
                res_names = set()
                for s in sites(f.node, lambda n: isinstance(n, ast.Return) and n.value is not None):
                    if any((dotted(t) == "inplace" and not pol) or (isinstance(t, ast.UnaryOp) and dotted(t.operand) == "inplace" and pol) for t, pol in s.conds):
                        if isinstance(s.node.value, ast.Name):
                            res_names.add(s.node.value.id)
                delegates = [r for r in returns_of(f) if isinstance(r.value, ast.Call) and (dotted(kwarg(r.value, "inplace")) == "inplace" or any(dotted(a) == "inplace" for a in r.value.args))]
                flt = Flow(summ, f, fold={"inplace": True})
                flt.run()
                stores = [m for m in flt.mutations if m.root == "self"]
                verdict = "delegates" if delegates else None
                for nm in res_names:
                    p = flt.state.get(nm)
                    aliases_self = p is not None and "self" in p.roots
                    if aliases_self:
                        verdict = verdict or "works on self"
                    elif stores:
                        verdict = verdict or "stores result into self"
                    else:
                        verdict = verdict or "DROPPED"
                if verdict is None:
                    verdict = "no result variable" if not res_names else verdict
                rc.ob(f"{f.qual}: inplace=True -> {verdict}; inplace=False -> {len(fl.mutations)} operand mutation(s)")
                if verdict == "DROPPED":
                    rc.fail(f, f.node, f"{f.qual}(inplace=True) computes `{sorted(res_names)[0]}` but never stores it into self: the default in-place call does nothing",
                            construct=f"{f.qual} inplace result dropped")



@rule("C20.defuse", "anchored files: no parameter is accepted and ignored (generic def-use detector, triaged exemptions)", floor=2)
def defuse(rc):
    from . import shared as _sh
    _sh.defuse_rule(rc, _sh.anchor_files("C20"))

MUTANTS = [
    dict(kind="break", name="predict-paired-index", file=LG, expect="C20.submatrix",
         old="cov_aa = cov[np.ix_(missing_indexes, missing_indexes)]", new="cov_aa = cov[missing_indexes, missing_indexes]"),
    dict(kind="break", name="gaussian-marginalize-paired-index", file=GD, expect="C20.submatrix",
         old="phi.covariance = phi.covariance[np.ix_(index_to_keep, index_to_keep)]", new="phi.covariance = phi.covariance[index_to_keep, index_to_keep]"),
    dict(kind="break", name="cov-wrong-side-transposed", file=LG, expect="C20.order",
         old="implied_cov = inv.T @ omega @ inv", new="implied_cov = inv @ omega @ inv.T"),
    dict(kind="break", name="b-orientation-flipped", file=LG, expect="C20.order",
         old="B[var_to_index[evidence_var], var_to_index[var]] = cpd.mean[i + 1]", new="B[var_to_index[var], var_to_index[evidence_var]] = cpd.mean[i + 1]"),
    dict(kind="break", name="b-coefficient-off-by-one", file=LG, expect="C20.order",
         old="B[var_to_index[evidence_var], var_to_index[var]] = cpd.mean[i + 1]", new="B[var_to_index[evidence_var], var_to_index[var]] = cpd.mean[i]"),
    dict(kind="break", name="predict-order-from-nodes", file=LG, expect="C20.order",
         old="        variable_order = list(nx.topological_sort(self))\n        missing_indexes", new="        variable_order = list(self.nodes())\n        missing_indexes"),
    dict(kind="break", name="predict-cov-ab-not-transposed", file=LG, expect="C20.order",
         old="cov_cond = cov_aa - cov_ab @ cov_bb_inv @ cov_ab.T", new="cov_cond = cov_aa - cov_ab @ cov_bb_inv @ cov_ab"),
    dict(kind="break", name="predict-names-sorted", file=LG, expect="C20.order",
         old="return ([variable_order[i] for i in missing_indexes], mu_cond, cov_cond)", new="return (sorted(missing_vars), mu_cond, cov_cond)"),
    dict(kind="break", name="fit-intercept-last", file=LG, expect="C20.order",
         old="evidence_mean=np.append([lm.intercept_], lm.coef_),", new="evidence_mean=np.append(lm.coef_, [lm.intercept_]),"),
    dict(kind="break", name="gaussian-reduce-swapped-blocks", file=GD, expect="C20.order",
         old="sig_i_j = self.covariance[np.ix_(index_to_reduce, index_to_keep)]", new="sig_i_j = self.covariance[np.ix_(index_to_keep, index_to_keep)]"),
    dict(kind="break", name="gaussian-operate-drops-inplace", file=GD, expect="C20.inplace",
         old="        else:\n            self.variables = phi.variables\n            self.mean = phi.mean\n            self.covariance = phi.covariance\n            self._precision_matrix = phi._precision_matrix\n", new=""),
    dict(kind="break", name="gaussian-reduce-writes-self", file=GD, expect="C20.inplace",
         old="        phi.variables = [self.variables[index] for index in index_to_keep]\n        phi.mean = mu_j", new="        self.variables = [self.variables[index] for index in index_to_keep]\n        phi.mean = mu_j"),
    dict(kind="twin", name="predict-chained-index", file=LG,
         old="cov_aa = cov[np.ix_(missing_indexes, missing_indexes)]", new="cov_aa = cov[missing_indexes][:, missing_indexes]"),
]
