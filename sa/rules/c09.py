"""C09 — writing a model to a file and reading it back returns the same model."""
from __future__ import annotations

import ast
import re

from ..core import AnalysisError, call_name, dotted, kwarg, norm, walk_no_nested
from ..guards import sites
from ..layout import Env, MiniArray, eval_expr, prod
from ..registry import describe, rule
from .. import tmatch as tm
from ..util import deep_resolve, calls_named, const_str, peel, returns_of

BIF = "pgmpy/readwrite/BIF.py"
XML = "pgmpy/readwrite/XMLBIF.py"
UAI = "pgmpy/readwrite/UAI.py"
NET = "pgmpy/readwrite/NET.py"
BN = "pgmpy/models/BayesianNetwork.py"

describe(
    "C09",
    "per format, the writer's chain from the CPD tensor to the emitted number sequence composed with the reader's chain from the "
    "parsed sequence to the `values` of the rebuilt CPD is the identity on a symbolic index tensor (XMLBIF: Fortran ravel/reshape; "
    "UAI: C ravel + scope reversal; NET: moveaxis + reshape/transpose; BIF: rows keyed and enumerated by the same product of parent "
    "states); readers take the parent order of every table from the parsed per-table list, never from a graph query or a set; the "
    "readers' numeric tokens accept the alphabet of str(float) including exponents; block delimiters are not bare words that may occur "
    "inside names; writers serialise element-wise (no summarising str(ndarray)); variable numbering in UAI uses one sort key at all "
    "sites; names that are or contain format keywords (variable, probability, table1, lymph_node) do not change how BIF/NET files are split "
    "into declarations; the UAI reader wraps single-token repetitions (one-entry tables, one-variable files) and declares every variable of "
    "the preamble for both network types; save/load support the same formats and pair each writer with the reader of the same format.",
    ["exactness of decimal printing/parsing of floats", "XML escaping", "properties/metadata round trip"],
)


def _defs(f):
    d = {}
    for n in walk_no_nested(f.node):
        if isinstance(n, ast.Assign) and len(n.targets) == 1 and isinstance(n.targets[0], ast.Name):
            d.setdefault(n.targets[0].id, []).append(n.value)
    return d


R, Q1, Q2 = 2, 3, 4


def _tensor():
    return MiniArray.indexed((R, Q1, Q2))


def _two_d(t):
    return t.reshape((R, Q1 * Q2))


def _check_identity(rc, fi, node, two, what):
    ref = _two_d(_tensor())
    rc.report.rows += len(ref.flat)
    if tuple(two.shape) != tuple(ref.shape) or two.flat != ref.flat:
        bad = None
        if tuple(two.shape) == tuple(ref.shape):
            for k, (a, b) in enumerate(zip(two.flat, ref.flat)):
                if a != b:
                    bad = f"2-D cell {divmod(k, Q1 * Q2)} receives the value of assignment {a} instead of {b}"
                    break
        else:
            bad = f"shape {two.shape} instead of {ref.shape}"
        rc.fail(fi, node, f"{what}: writer followed by reader does not reproduce the CPD table ({bad})", construct=f"{what} layout")


@rule("C09.layout", "writer chain ∘ reader chain is the identity on a symbolic index tensor (XMLBIF, UAI, NET); BIF rows keyed consistently", floor=5)
def layout(rc):
    repo = rc.repo
    T = _tensor()

    def get_values(arr):
        return arr.reshape((arr.shape[0], prod(arr.shape[1:])))

    # ---------------- XMLBIF
    def enclosing_for(fn, node):
        best = None
        for n in ast.walk(fn):
            if isinstance(n, ast.For) and n is not node and any(x is node for x in ast.walk(n)):
                if best is None or (n.end_lineno - n.lineno) < (best.end_lineno - best.lineno):
                    best = n
        return best

    w = repo.func(XML, "XMLBIFWriter.get_values")
    loop = [n for n in walk_no_nested(w.node) if isinstance(n, ast.For) and isinstance(n.iter, ast.Call) and "get_values" in norm(n.iter)]
    if not loop:
        raise AnalysisError("XMLBIFWriter.get_values: value loop not found")
    it = loop[0].iter
    outer = enclosing_for(w.node, loop[0])
    if outer is None or not isinstance(outer.target, ast.Name):
        raise AnalysisError("XMLBIFWriter.get_values: CPD loop not found")
    env = Env(**{outer.target.id: T})
    env["__get_values__"] = get_values
    fn = call_name(it)
    if fn == "ravel_f":
        seq = eval_expr(it.args[0], env).ravel("F")
    else:
        seq = eval_expr(it, env)
    r = repo.func(XML, "XMLBIFReader.get_values")
    resh = [n for n in walk_no_nested(r.node) if isinstance(n, ast.Assign) and isinstance(n.value, ast.Call) and call_name(n.value) == "reshape"]
    if not resh:
        raise AnalysisError("XMLBIFReader.get_values: reshape not found")
    rl = enclosing_for(r.node, resh[-1])
    recv = dotted(resh[-1].value.func.value) if isinstance(resh[-1].value.func, ast.Attribute) else None
    if rl is None or not isinstance(rl.target, ast.Name) or recv is None:
        raise AnalysisError("XMLBIFReader.get_values: per-variable loop not found")
    renv = Env(**{recv: seq.ravel("C"), rl.target.id: "V", "self.variable_states": {"V": list(range(R))}})
    two = eval_expr(resh[-1].value, renv)
    rc.ob(f"XMLBIF: writer {norm(it)} -> reader {norm(resh[-1].value, 120)}")
    _check_identity(rc, r, resh[-1], two, "XMLBIF")
    # GIVEN order = cpd.variables[1:] ; reader keeps document order
    wd = repo.func(XML, "XMLBIFWriter.get_definition")
    giv = sorted([n for n in walk_no_nested(wd.node) if isinstance(n, ast.For) and "GIVEN" in norm(n, 4000)], key=lambda n: n.end_lineno - n.lineno)
    og = enclosing_for(wd.node, giv[0]) if giv else None
    if not giv or og is None or tm.is_(giv[0].iter, "_c.variables[1:]", {"_c": dotted(og.target)}) is None:
        rc.fail(wd, wd.node, "XMLBIF: GIVEN elements must list the CPD's own evidence order", construct="XMLBIF given order")
    # ---------------- UAI
    wt = repo.func(UAI, "UAIWriter.get_tables")
    wf = repo.func(UAI, "UAIWriter.get_functions")
    rm = repo.func(UAI, "UAIReader.get_model")
    rt = repo.func(UAI, "UAIReader.get_tables")
    # writer table chain (BAYES branch = first occurrence)
    tab = None
    cname_ = None
    for n in sorted([x for x in walk_no_nested(wt.node) if isinstance(x, ast.Call)], key=lambda x: (x.lineno, x.col_offset)):
        if call_name(n) in ("ravel", "flatten", "ravel_f") and tab is None:
            lp_ = enclosing_for(wt.node, n)
            if lp_ is not None and isinstance(lp_.target, ast.Name) and f"{lp_.target.id}.values" in norm(n):
                tab, cname_ = n, lp_.target.id
    if tab is None:
        raise AnalysisError("UAIWriter.get_tables: table expression not found")
    seq = eval_expr(tab, Env(**{f"{cname_}.values": T}))
    # writer scope: the list comprehension that numbers the parents iterates the evidence order
    ev = None
    child_last = False
    for lp_ in [n for n in walk_no_nested(wf.node) if isinstance(n, ast.For) and isinstance(n.target, ast.Name)]:
        cn = lp_.target.id
        for n_, b_ in tm.find_all(lp_, "_F = [str(_VS.index((_v, self.domain[_v]))) for _v in __EV]"):
            evx = b_["__EV"]
            from ..util import deep_resolve as _dr
            loc = {x.targets[0].id: x.value for x in lp_.body if isinstance(x, ast.Assign) and isinstance(x.targets[0], ast.Name)}
            evr = _dr(evx, {k: v for k, v in loc.items() if k != b_["_F"]})
            if f"{cn}.variables" in norm(evr) and ev is None:
                ev = (evr, cn)
                _, bc = tm.find(lp_, "_CH = _c.variable", {"_c": cn})
                child_last = (bc is not None and tm.has(lp_, "_F.append(str(_VS.index((_CH, self.domain[_CH]))))", dict(b_, **bc))) or \
                    tm.has(lp_, "_F.append(str(_VS.index((_c.variable, self.domain[_c.variable]))))", dict(b_, _c=cn))
    if ev is None:
        raise AnalysisError("UAIWriter.get_functions: evidence order not found")
    variables = ["V", "A", "B"]
    scope = list(eval_expr(ev[0], Env(**{f"{ev[1]}.variables": variables}))) + ["V"]
    if not child_last:
        rc.fail(wf, wf.node, "UAI (BAYES): the child must be the last variable of the function scope", construct="UAI child last")
    # reader: parents from the scope
    par_assign = [n for n in walk_no_nested(rt.node) if isinstance(n, ast.Assign) and "self.parents[" in norm(n.targets[0])]
    rparents = None
    if par_assign:
        pe = _strip_prefix(par_assign[0].value)
        locs = {x.targets[0].id for x in walk_no_nested(rt.node) if isinstance(x, ast.Assign) and isinstance(x.targets[0], ast.Name)}
        penv = Env(**{x.id: scope for x in ast.walk(pe) if isinstance(x, ast.Name) and x.id in locs})
        rparents = list(eval_expr(pe, penv))
    rc.ob(f"UAI: writer scope {scope} for CPD variables {variables}; reader parents {rparents}")
    if rparents is None:
        rc.fail(rm, rm.node, "UAI: the reader does not derive the parent order of a table from its function scope", construct="UAI parents from scope")
    else:
        # reader values chain
        vres = [n for n in walk_no_nested(rm.node) if isinstance(n, ast.Assign) and isinstance(n.value, ast.Call) and call_name(n.value) == "reshape"]
        rdefs = {}
        for x in walk_no_nested(rm.node):
            if isinstance(x, ast.Assign) and isinstance(x.targets[0], ast.Name):
                rdefs.setdefault(x.targets[0].id, x.value)
        renv = Env()
        rv = dotted(vres[0].value.func.value)
        renv[rv] = seq
        for x in ast.walk(vres[0].value):
            if isinstance(x, ast.Name) and x.id != rv and x.id in rdefs and isinstance(rdefs[x.id], ast.Call) and call_name(rdefs[x.id]) == "int":
                renv[x.id] = R
        two = eval_expr(vres[0].value, renv)
        # the 2-D table is interpreted with evidence = rparents: permute to canonical (A, B) order
        if rparents != variables[1:]:
            if sorted(rparents) == sorted(variables[1:]):
                # columns enumerate rparents row-major; re-express in the canonical order
                cards = {"A": Q1, "B": Q2}
                t3 = two.reshape([R] + [cards[x] for x in rparents])
                perm = [0] + [1 + rparents.index(x) for x in variables[1:]]
                # cell (v, a, b) of the rebuilt CPD
                ok = all(t3.transpose(perm).at((v, a, b)) == (v, a, b) for v in range(R) for a in range(Q1) for b in range(Q2))
                if not ok:
                    rc.fail(rm, vres[0], f"UAI: the table is laid out over parents {variables[1:]} but read back as if over {rparents}", construct="UAI parent order")
            else:
                rc.fail(rm, vres[0], f"UAI: reader parents {rparents} are not the table's parents {variables[1:]}", construct="UAI parent set")
        else:
            _check_identity(rc, rm, vres[0], two, "UAI")
    # ---------------- NET
    wn = repo.func(NET, "NETWriter.net_cpd")
    d = _defs(wn)
    a2s = [c for c in repo.calls_in(wn) if call_name(c) in ("array2string", "str", "repr", "array_str", "array_repr") and c.args
           and any(isinstance(x, ast.Call) and call_name(x) in ("moveaxis", "transpose", "to_numpy", "swapaxes") for x in ast.walk(deep_resolve(c.args[0], {k: v[0] for k, v in d.items() if len(v) == 1})))]
    arr = d.get(dotted(a2s[0].args[0]), [None])[0] if a2s and isinstance(a2s[0].args[0], ast.Name) else (a2s[0].args[0] if a2s else None)
    if arr is None:
        raise AnalysisError("NETWriter.net_cpd: printed array not found")
    nenv = Env()
    for k, v in d.items():
        if tm.is_(v[0], "self.tables[_v]") is not None:
            nenv[k] = T
    nenv["__by_text__"] = {norm(x): T for x in ast.walk(arr) if isinstance(x, ast.Subscript) and tm.is_(x, "self.tables[_v]") is not None}
    seqn = eval_expr(arr, nenv).ravel("C")
    rn = repo.func(NET, "NETReader.get_values")
    d2 = _defs(rn)
    st2 = [n for n in ast.walk(rn.node) if isinstance(n, ast.Assign) and isinstance(n.targets[0], ast.Subscript)
           and any(dotted(r_.value) == dotted(n.targets[0].value) for r_ in returns_of(rn))]
    c2 = (d2.get(st2[0].value.id, [None])[0] if isinstance(st2[0].value, ast.Name) else st2[0].value) if st2 else None
    if c2 is None:
        raise AnalysisError("NETReader.get_values: stored table not found")
    e2 = Env()
    for x in ast.walk(c2):
        if isinstance(x, ast.Name) and x.id in d2:
            dv = d2[x.id][0]
            if isinstance(dv, ast.Call) and call_name(dv) == "array":
                e2[x.id] = seqn
            elif isinstance(dv, ast.Call) and call_name(dv) == "prod":
                e2[x.id] = Q1 * Q2
            elif isinstance(dv, ast.Call) and call_name(dv) == "len":
                e2[x.id] = R
    bt = {}
    for x in ast.walk(c2):
        if isinstance(x, ast.Call) and call_name(x) == "array" and dotted(x.func.value if isinstance(x.func, ast.Attribute) else x.func) in ("np", "numpy", "array"):
            bt[norm(x)] = seqn
        elif isinstance(x, ast.Call) and call_name(x) == "prod":
            bt[norm(x)] = Q1 * Q2
        elif isinstance(x, ast.Call) and call_name(x) == "len":
            bt[norm(x)] = R
    e2["__by_text__"] = bt
    two = eval_expr(c2, e2)
    rc.ob(f"NET: writer {norm(arr)} -> reader {norm(c2)}")
    _check_identity(rc, rn, c2, two, "NET")
    # ---------------- BIF
    wb = repo.func(BIF, "BIFWriter.__str__")
    okb = False
    for lp_ in [n for n in ast.walk(wb.node) if isinstance(n, ast.For)]:
        b0 = tm.is_(lp_.iter, "enumerate(_PS)")
        if b0 is None or not (isinstance(lp_.target, ast.Tuple) and len(lp_.target.elts) == 2):
            continue
        ix, stv = dotted(lp_.target.elts[0]), dotted(lp_.target.elts[1])
        _, b1 = tm.find(wb.node, "_PS = product(*[_c.state_names[_v] for _v in _c.variables[1:]])", b0)
        if b1 is None:
            continue
        _, b2 = tm.find(wb.node, "_TR = _c.get_values().T", b1)
        if b2 is None:
            continue
        row = tm.find_all(lp_, "_TR[_ix, :]", dict(b2, _ix=ix), nested=True)
        lab = tm.find_all(lp_, "', '.join(map(str, _st))", {"_st": stv}, nested=True)
        if row and lab and tm.has(wb.node, "_c = self.model.get_cpds(__N)", b2):
            okb = True
    rc.ob(f"BIF writer: row i = column i of get_values, labelled with the i-th element of the product of the states of cpd.variables[1:]: {okb}")
    if not okb:
        rc.fail(wb, wb.node, "BIF: the i-th conditional row must be column i of the 2-D table, labelled with the i-th element of the row-major product of the parents' states "
                "in the CPD's own evidence order", construct="BIF writer rows")
    for rel_, q_, fmt_ in ((BIF, "BIFWriter.get_parents", "BIF"), (NET, "NETWriter.get_parents", "NET")):
        pw = repo.func(rel_, q_)
        own = any(tm.is_(n_, "_R[_c.variable] = _c.variables[1:]") is not None or tm.is_(n_, "_R[_c.variable] = _c.get_evidence()[::-1]") is not None
                  or tm.is_(n_, "_R[_c.variable] = list(_c.variables[1:])") is not None for n_ in ast.walk(pw.node) if isinstance(n_, ast.Assign))
        graph = [c_ for c_ in repo.calls_in(pw) if call_name(c_) in ("get_parents", "predecessors", "in_edges", "edges")]
        rc.ob(f"{q_}: header parents = the CPD's own evidence order: {own}; graph queries: {[norm(g_) for g_ in graph]}")
        if not own or graph:
            rc.fail(pw, graph[0] if graph else pw.node, f"{fmt_}: the parents printed in the header must be the CPD's own evidence order (the table that follows is laid out over it); "
                    "the graph lists the same parents in edge-insertion order", construct=f"{fmt_} header order")
    rb = repo.func(BIF, "BIFReader._get_values_from_block")
    _, bn = tm.find(rb.node, "_VN, _PA = (_NM[0][0], _NM[0][1:])")
    ok_r = ok_split = False
    if bn is not None:
        for lp_ in [n for n in ast.walk(rb.node) if isinstance(n, ast.For)]:
            b1 = tm.is_(lp_, "for _ix, _cb in enumerate(product(*[self.variable_states[_v] for _v in _PA])):\n    _A[:, _ix] = _VD[_cb]", bn)
            if b1 is not None:
                for l2 in [n for n in ast.walk(rb.node) if isinstance(n, ast.For)]:
                    b2 = tm.is_(l2, "for _pl in _CP:\n    _ST = _pl[:len(_PA)]\n    _VL = [float(_i) for _i in _pl[len(_PA):]]\n    _VD[tuple(_ST)] = _VL", b1)
                    if b2 is None:
                        b2 = tm.is_(l2, "for _pl in _CP:\n    _VD[tuple(_pl[:len(_PA)])] = [float(_i) for _i in _pl[len(_PA):]]", b1)
                    if b2 is not None:
                        ok_r = ok_split = True
    rc.ob(f"BIF reader: rows keyed by state tuples and placed by the product over the header's parents ({ok_r}); split at len(parents) ({ok_split})")
    if not (ok_r and ok_split):
        rc.fail(rb, rb.node, "BIF: conditional rows must be keyed by their state tuple and placed at the index of that tuple in the product of the header's parent states",
                construct="BIF reader rows")
    rc.report.exhaustive = True


def _strip_prefix(e):
    """["var_" + str(var) for var in X] -> X   (names are positional; only the order matters)"""
    if isinstance(e, ast.ListComp) and len(e.generators) == 1:
        return e.generators[0].iter
    return e


@rule("C09.evidence", "every reader takes the parent order of a table from the parsed per-table list, never from a graph query or a set", floor=4)
def evidence(rc):
    repo = rc.repo
    for rel, q in ((BIF, "BIFReader.get_model"), (XML, "XMLBIFReader.get_model"), (NET, "NETReader.get_model"), (UAI, "UAIReader.get_model")):
        f = repo.func(rel, q)
        d = _defs(f)
        for c in [c for c in repo.calls_in(f) if call_name(c) == "TabularCPD"]:
            ev = kwarg(c, "evidence")
            if ev is None:
                continue
            src = ev
            if isinstance(ev, ast.Name) and ev.id in d:
                src = d[ev.id][0]
            t = norm(src)
            rc.ob(f"{q}: evidence = {t}")
            if any(k in t for k in ("predecessors(", "get_parents(", ".edges", "successors(", "set(")):
                rc.fail(f, c, f"{q}: the parent order of the table is taken from `{t}` (graph/set order), not from the order in which the file lists the parents: "
                        "tables with two or more parents can be assigned to permuted parents", construct=f"{q} evidence from graph")
            elif not re.match(r"self\.(variable_parents|parents)\[", t):
                rc.fail(f, c, f"{q}: evidence order `{t}` is not the parsed per-table parent list", construct=f"{q} evidence source")
            # evidence_card follows the same list
            ec = kwarg(c, "evidence_card")
            ecs = d.get(dotted(ec), [ec])[0] if ec is not None else None
            if ecs is not None and isinstance(ecs, ast.ListComp):
                it = norm(ecs.generators[0].iter)
                it = norm(d[it][0]) if it in d else it
                if it != t:
                    rc.fail(f, c, f"{q}: evidence_card iterates `{it}` but evidence is `{t}`", construct=f"{q} evidence_card order")
            elif ec is not None:
                rc.fail(f, c, f"{q}: evidence_card `{norm(ec, 60)}` is not computed from the evidence list `{t}` itself (a list built elsewhere can be in another order: "
                        "parents with different cardinalities then get each other's)", construct=f"{q} evidence_card source")
    # the parsed lists preserve file order
    for rel, q, pat in ((BIF, "BIFReader.get_parents", None), (NET, "NETReader.get_parents", None), (XML, "XMLBIFReader.get_parents", 'findall("GIVEN")')):
        f = repo.func(rel, q)
        t = norm(f.node, 10000).replace("'", '"')
        if pat is None:
            okp = any(tm.is_(n_, "_R[_X[0]] = _X[1:]") is not None and any(dotted(r_.value) == tm.is_(n_, "_R[_X[0]] = _X[1:]")["_R"] for r_ in returns_of(f))
                      for n_ in ast.walk(f.node) if isinstance(n_, ast.Assign))
        else:
            okp = pat in t
        rc.ob(f"{q} keeps file order: {okp}")
        if not okp or "sorted(" in t or "set(" in t:
            rc.fail(f, f.node, f"{q} must keep the parents in the order the file lists them", construct=f"{q} file order")


def _word_chars(e, consts):
    """constant-fold the character set given to pyparsing.Word"""
    if isinstance(e, ast.Constant) and isinstance(e.value, str):
        return e.value
    if isinstance(e, ast.Name) and e.id in consts:
        return consts[e.id]
    if isinstance(e, ast.Attribute) and e.attr in consts:
        return consts[e.attr]
    if isinstance(e, ast.BinOp) and isinstance(e.op, ast.Add):
        l, r = _word_chars(e.left, consts), _word_chars(e.right, consts)
        return None if l is None or r is None else l + r
    return None


PP = {"nums": "0123456789", "alphas": "abcdefghijklmnopqrstuvwxyzABCDEFGHIJKLMNOPQRSTUVWXYZ",
      "alphanums": "abcdefghijklmnopqrstuvwxyzABCDEFGHIJKLMNOPQRSTUVWXYZ0123456789"}
NEED = set("0123456789.eE+-")
SAMPLES = ["0.5", "1", "1.0", "1e-12", "2.5E+3", "9.999999999999999e-13", "0.30000000000000004"]


@rule("C09.numbers", "numeric tokens of the readers accept the alphabet of str(float) (digits, point, exponent, signs)", floor=3)
def numbers(rc):
    repo = rc.repo
    for rel, q, name in ((BIF, "BIFReader.get_probability_grammar", "num_expr"), (NET, "NETReader.get_probability_grammar", "num_expr")):
        f = repo.func(rel, q)
        d = _defs(f)
        # the numeric token: a Word whose alphabet contains the digits but not the letters (i.e. not a name token)
        words = [c for c in ast.walk(f.node) if isinstance(c, ast.Call) and call_name(c) == "Word" and c.args]
        chars, e = None, None
        for wd in words:
            cs = _word_chars(wd.args[0], PP)
            if cs and set("0123456789") <= set(cs) and not set("abcdxyz") <= set(cs):
                chars, e = cs, wd
        rc.ob(f"{q}: numeric token alphabet {''.join(sorted(set(chars))) if chars else None}")
        if chars is None or not NEED <= set(chars):
            rc.fail(f, e if e is not None else f.node, f"{q}: the number token does not accept {sorted(NEED - set(chars or ''))}: values such as 1e-12 (what str(float) prints) cannot be read back",
                    construct=f"{q} number alphabet")
    f = repo.func(UAI, "UAIReader.get_grammar")
    d = _defs(f)
    e = None
    for n_, b_ in tm.find_all(f.node, "(_FN * int(__NV)).setResultsName('fun_values_' + str(_fu))", nested=True):
        e = d.get(b_["_FN"], [None])[0]
    ok = False
    if isinstance(e, ast.Call) and call_name(e) == "Regex" and e.args and isinstance(e.args[0], ast.Constant):
        pat = e.args[0].value
        try:
            cre = re.compile(pat)
            bad = [s for s in SAMPLES if not cre.fullmatch(s)]
            ok = not bad
            rc.ob(f"UAI number token /{pat}/ rejects {bad}")
        except re.error:
            bad = SAMPLES
    else:
        # a pyparsing combination: fold what can be folded and require an exponent part
        t = norm(e, 500) if e is not None else ""
        ok = ("e" in t or "E" in t) and "nums" in t and ("'.'" in t or '"."' in t)
        rc.ob(f"UAI number token {t[:100]}")
    if not ok:
        rc.fail(f, e if e is not None else f.node, "UAI: the number token has no exponent part: a table entry such as 1e-12 makes the whole file unreadable", construct="UAI number token")
    # XMLBIF parses with float()
    x = repo.func(XML, "XMLBIFReader.get_values")
    if not tm.find_all(x.node, "list(map(float, _t.text.split()))", nested=True) and not tm.find_all(x.node, "[float(_x) for _x in _t.text.split()]", nested=True):
        rc.fail(x, x.node, "XMLBIF: table entries must be parsed with float()", construct="XMLBIF float")
    rc.ob("XMLBIF parses table entries with float()")


@rule("C09.delims", "block delimiters are syntactic patterns, not bare words that may occur inside names; writers serialise element-wise", floor=3)
def delims(rc):
    repo = rc.repo
    for q in ("BIFReader.variable_block", "BIFReader.probability_block"):
        f = repo.func(BIF, q)
        for c in [c for c in repo.calls_in(f) if call_name(c) in ("finditer", "split", "findall", "search")]:
            pat = const_str(c.args[0]) if c.args else None
            rc.ob(f"{q}: block pattern {pat!r}")
            if pat is None:
                raise AnalysisError(f"{q}: non-constant block pattern")
            if re.fullmatch(r"[\w ]+", pat):
                rc.fail(f, c, f"{q}: the file is split at every occurrence of the bare word {pat!r}; a variable or state name containing it (the writer emits user names "
                        f"verbatim) corrupts the block structure", construct=f"{q} bare-word delimiter")
    # the table-vs-conditional test of a probability block must not be fooled by state names (evaluated on sample blocks)
    vb = repo.func(BIF, "BIFReader._get_values_from_block")
    pats = [c for c in repo.calls_in(vb) if call_name(c) in ("search", "match", "findall", "fullmatch") and dotted(c.func.value) == "re" and c.args and const_str(c.args[0]) is not None]
    cond_block = "probability ( a | b ) {\n    ( default ) 0.2, 0.8;\n    ( table ) 0.5, 0.5;\n}"
    cond_block2 = "probability ( a | b, c ) {\n    ( low, default ) 0.2, 0.8;\n    ( high, table ) 0.5, 0.5;\n}"
    table_block = "probability ( a ) {\n    table 0.2, 0.8 ;\n}"
    for c in pats:
        pat = const_str(c.args[0])
        fn = getattr(re, call_name(c))
        try:
            hit_cond = [bool(fn(pat, b)) for b in (cond_block, cond_block2)]
            hit_table = bool(fn(pat, table_block))
        except re.error:
            raise AnalysisError(f"BIF: invalid table pattern {pat!r}")
        rc.ob(f"BIF table-block pattern {pat!r}: matches a table block {hit_table}; matches conditional rows whose states are called default/table {hit_cond}")
        if not hit_table:
            rc.fail(vb, c, f"BIF: the pattern {pat!r} no longer recognises a `table` block", construct="BIF table pattern misses table")
        if any(hit_cond):
            rc.fail(vb, c, f"BIF: the pattern {pat!r} also fires on conditional rows whose parent STATE is named `default`/`table`: such a block is then parsed as a flat table",
                    construct="BIF table pattern matches state names")
    if not pats:
        raise AnalysisError("BIF: table/conditional discrimination not found")
    # writers: no str()/repr() of a whole ndarray
    for rel in (BIF, XML, UAI, NET):
        mod = repo.module(rel)
        for ci in mod.classes.values():
            if not ci.name.endswith("Writer"):
                continue
            for f in ci.methods.values():
                d = _defs(f)
                for c in repo.calls_in(f):
                    if isinstance(c.func, ast.Name) and c.func.id in ("str", "repr") and c.args:
                        src = d.get(c.args[0].id, [None])[0] if isinstance(c.args[0], ast.Name) else (c.args[0] if isinstance(c.args[0], ast.Call) else None)
                        if src is not None and any(isinstance(x, ast.Call) and call_name(x) in ("moveaxis", "to_numpy", "array", "get_values", "reshape", "ravel", "transpose") for x in ast.walk(src)):
                            rc.fail(f, c, f"{f.qual}: str() of a whole array — numpy summarises arrays above its print threshold with '...', so large tables are truncated",
                                    construct=f"{f.qual} str(ndarray)")
                    if call_name(c) == "array2string":
                        th = kwarg(c, "threshold")
                        rc.ob(f"{f.qual}: {norm(c, 90)}")
                        if th is None:
                            rc.fail(f, c, f"{f.qual}: array2string without a lifted threshold truncates large tables", construct=f"{f.qual} array2string threshold")
    rc.ob("writers scanned for str(ndarray)")
    # UAI variable numbering: one sort key everywhere
    keys = set()
    n = 0
    for q in ("UAIWriter.__str__", "UAIWriter.get_functions"):
        f = repo.func(UAI, q)
        for c in [c for c in repo.calls_in(f) if isinstance(c.func, ast.Name) and c.func.id == "sorted" and "self.domain.items()" in norm(c)]:
            keys.add(norm(c))
            n += 1
    rc.ob(f"UAI variable numbering: {n} site(s), sort expressions {sorted(keys)}")
    if len(keys) != 1 or n < 3:
        rc.fail(repo.func(UAI, "UAIWriter.get_functions"), None, f"UAI: the domain line and the function scopes must number the variables by the same sort key; found {sorted(keys)}",
                construct="UAI numbering")



# ------------------------------------------------------------------------------------------------
_SAMPLE_BIF = (
    "network unknown {\n}\n"
    "variable b {\n    type discrete [ 2 ] { variable, probability };\n}\n"
    "variable variable {\n    type discrete [ 2 ] { s0, s1 };\n}\n"
    "variable probability {\n    type discrete [ 2 ] { s0, s1 };\n}\n"
    "variable z {\n    type discrete [ 2 ] { s0, s1 };\n}\n"
    "probability ( b ) {\n    table 0.3, 0.7 ;\n}\n"
    "probability ( variable ) {\n    table 0.3, 0.7 ;\n}\n"
    "probability ( probability ) {\n    table 0.3, 0.7 ;\n}\n"
    "probability ( z | b, variable ) {\n    ( variable, s0 ) 0.1, 0.9;\n    ( variable, s1 ) 0.1, 0.9;\n    ( probability, s0 ) 0.1, 0.9;\n    ( probability, s1 ) 0.1, 0.9;\n}\n"
)
_SAMPLE_BIF_BLOCKS = {"BIFReader.variable_block": 4, "BIFReader.probability_block": 4}


def _re_flags(c):
    fl = 0
    e = kwarg(c, "flags") or (c.args[2] if len(c.args) > 2 else None)
    if e is None:
        return 0
    for n in ast.walk(e):
        if isinstance(n, ast.Attribute) and dotted(n.value) == "re":
            fl |= int(getattr(re, n.attr, 0))
    return fl


@rule("C09.keywords", "names that contain (or are) format keywords do not change how a file is split into declarations: BIF block patterns on a sample file, "
      "BIF values searched in the block body only, NET node introducer a Keyword", floor=4)
def keywords(rc):
    """The writers emit user names verbatim, and `variable`, `probability`, `table1`, `lymph_node` are identifiers.  (a) the BIF block patterns are constants:
    they are applied to a sample file whose names and states are the keywords themselves and must find exactly the declarations; (b) pyparsing literals match
    prefixes of longer words, so the value grammar (`table`/`default` + numbers) may only be searched in the body of a probability block — the header holds
    names — unless those keywords are `Keyword`s; (c) an expression scanned over the whole NET file that consists of a literal followed by a free word matches
    inside any name ending in the literal, unless the literal is a `Keyword`."""
    repo = rc.repo
    for q, want in _SAMPLE_BIF_BLOCKS.items():
        f = repo.func(BIF, q)
        cs = [c for c in repo.calls_in(f) if call_name(c) in ("finditer", "findall") and dotted(c.func.value) == "re"]
        if len(cs) != 1 or const_str(cs[0].args[0]) is None:
            raise AnalysisError(f"{q}: block pattern not found")
        pat = const_str(cs[0].args[0])
        try:
            got = len(list(re.finditer(pat, _SAMPLE_BIF, _re_flags(cs[0]))))
        except re.error:
            raise AnalysisError(f"{q}: invalid pattern {pat!r}")
        rc.ob(f"{q}: pattern {pat!r} finds {got} block(s) in the sample file of {want} declarations whose names/states are `variable`/`probability`")
        if got != want:
            rc.fail(f, cs[0], f"{q}: the pattern {pat!r} finds {got} blocks in a file with {want} declarations when a parent, variable or state is called "
                    f"`variable`/`probability` (e.g. `| b, variable ) {{` at the end of a probability header)", construct=f"{q} keyword-named variable")
    # (b)
    vb = repo.func(BIF, "BIFReader._get_values_from_block")
    gg = repo.func(BIF, "BIFReader.get_probability_grammar")
    cs = [c for c in repo.calls_in(vb) if call_name(c) in ("searchString", "scanString") and norm(c.func.value) == "self.cpd_expr"]
    if len(cs) != 1 or not cs[0].args:
        raise AnalysisError("BIF: value search not found")
    params = set(vb.params)
    arg = cs[0].args[0]
    whole = isinstance(arg, ast.Name) and arg.id in params
    kw_lits = [c for c in repo.calls_in(gg) if call_name(c) in ("Suppress", "Literal", "CaselessLiteral") and c.args and const_str(c.args[0]) in ("table", "default")]
    rc.ob(f"BIF values searched in `{norm(arg, 60)}`; bare table/default literals in the grammar: {len(kw_lits)}")
    if whole and kw_lits:
        rc.fail(vb, cs[0], "BIF: the value grammar (`table`/`default` literal + numbers) is searched over the whole probability block including its header; "
                "pyparsing literals match prefixes, so the header `probability ( table1 ) {` of a root variable called table1/default2 yields a bogus value",
                construct="BIF values searched in header")
    # (c)
    g = repo.func(NET, "NETReader.get_variable_grammar")
    n = 0
    for c in repo.calls_in(g):
        if call_name(c) in ("Suppress", "Literal") and c.args and (const_str(c.args[0]) or "").strip() == "node":
            n += 1
            rc.fail(g, c, f"NET: `{norm(c)}` followed by a free word is scanned over the whole file and also matches inside `potential (z | lymph_node b)`: "
                    "the node introducer must be a Keyword", construct="NET node introducer literal")
    kws = [c for c in repo.calls_in(g) if call_name(c) in ("Keyword", "CaselessKeyword") and c.args and const_str(c.args[0]) == "node"]
    rc.ob(f"NET node introducer: {len(kws)} Keyword(s), {n} bare literal(s)")
    if not kws and not n:
        raise AnalysisError("NET: node introducer not found")


def _blocks(root):
    for n in ast.walk(root):
        for fld in ("body", "orelse", "finalbody"):
            b = getattr(n, fld, None)
            if isinstance(b, list) and b and isinstance(b[0], ast.stmt):
                yield b


@rule("C09.single", "UAI reader: a named repetition `(token * n)` is a bare token when n == 1 and is wrapped before it is used as a sequence; "
      "both network types declare every variable of the preamble", floor=4)
def single(rc):
    """pyparsing returns the value of a results name that matched ONE token as the token itself (a str, or an int after the parse action), not as a list.  The
    reader's repetitions are sized by the file (number of variables, scope size, table size), so every read of such a name is followed by an isinstance guard
    that wraps the single token — otherwise `list("1.0")` becomes ['1', '.', '0'] for a one-entry table (a single-state root variable)."""
    repo = rc.repo
    g = repo.func(UAI, "UAIReader.get_grammar")
    d = _defs(g)
    reps = {}
    for _n, m in tm.find_all(g.node, "(__E * __N).setResultsName(__K)", nested=True):
        k = m["__K"]
        pref = const_str(k) if const_str(k) is not None else (const_str(k.left) if isinstance(k, ast.BinOp) else None)
        if pref is None:
            raise AnalysisError(f"UAI grammar: results name {norm(k)} not understood")
        e = m["__E"]
        while isinstance(e, ast.Name) and e.id in d:
            e = d[e.id][0]
        tok = "int" if any(call_name(c) == "setParseAction" and "int(" in norm(c) for c in ast.walk(e) if isinstance(c, ast.Call)) else "str"
        reps[pref] = tok
    rc.ob(f"UAI grammar: repetitions read by name: {reps}")
    if len(reps) < 3:
        raise AnalysisError(f"UAI grammar: expected the domain, scope and table repetitions, found {sorted(reps)}")
    cls = repo.module(UAI).classes["UAIReader"]
    nreads = 0
    for f in cls.methods.values():
        reads = []
        for n in ast.walk(f.node):
            if isinstance(n, ast.Subscript) and any(isinstance(c, ast.Call) and call_name(c) == "parseString" for c in ast.walk(n.value)):
                k = n.slice
                pref = const_str(k) if const_str(k) is not None else (const_str(k.left) if isinstance(k, ast.BinOp) else None)
                if pref in reps:
                    reads.append((n, pref))
        for n, pref in reads:
            nreads += 1
            # the read must be bound to a name, and the NEXT statement of the same block wraps the single token: isinstance(name, <token type>) -> [name]
            ok = False
            for blk in _blocks(f.node):
                for i, st in enumerate(blk[:-1]):
                    if not (isinstance(st, ast.Assign) and st.value is n and len(st.targets) == 1 and isinstance(st.targets[0], ast.Name)):
                        continue
                    holder, nxt = st.targets[0].id, blk[i + 1]
                    if isinstance(nxt, ast.If) and not nxt.orelse:
                        t = tm.is_(nxt.test, "isinstance(_V, __T)")
                        if t and t["_V"] == holder and reps[pref] in [x.id for x in ast.walk(t["__T"]) if isinstance(x, ast.Name)] and len(nxt.body) == 1 \
                                and isinstance(nxt.body[0], ast.Assign) and norm(nxt.body[0].targets[0]) == holder and isinstance(nxt.body[0].value, (ast.List, ast.Tuple)):
                            ok = True
                    if isinstance(nxt, ast.Assign) and norm(nxt.targets[0]) == holder and isinstance(nxt.value, ast.IfExp):
                        t = nxt.value.test
                        neg = isinstance(t, ast.UnaryOp) and isinstance(t.op, ast.Not)
                        mm = tm.is_(t.operand if neg else t, "isinstance(_V, __T)")
                        wrapped = nxt.value.orelse if neg else nxt.value.body
                        if mm and mm["_V"] == holder and reps[pref] in [x.id for x in ast.walk(mm["__T"]) if isinstance(x, ast.Name)] and isinstance(wrapped, (ast.List, ast.Tuple)):
                            ok = True
            rc.ob(f"{f.qual}: read of `{pref}…` ({reps[pref]} tokens) {'wrapped when single' if ok else 'NOT wrapped'}")
            if not ok:
                rc.fail(f, n, f"{f.qual}: the parse result `{pref}…` is a bare {reps[pref]} when the repetition has one element (one variable / one-entry table of a "
                        f"single-state root variable) but is used as a sequence without an isinstance guard", construct=f"{f.qual} single-token {pref}")
    if nreads < 4:
        raise AnalysisError(f"UAI reader: expected at least 4 reads of repetition results, found {nreads}")
    # both network types declare all variables
    gm = repo.func(UAI, "UAIReader.get_model")
    branches = [st for st in ast.walk(gm.node) if isinstance(st, ast.If) and "self.network_type" in norm(st.test)]
    if not branches:
        raise AnalysisError("UAIReader.get_model: network type dispatch not found")
    seen = 0
    todo = [branches[0]]
    while todo:
        br = todo.pop()
        seen += 1
        body = ast.Module(body=br.body, type_ignores=[])
        decl = [c for c in ast.walk(body) if isinstance(c, ast.Call) and call_name(c) in ("add_nodes_from", "add_node") and "self.variables" in norm(c)]
        decl += [c for c in ast.walk(body) if isinstance(c, ast.Call) and isinstance(c.func, ast.Name) and any(norm(a) == "self.variables" for a in c.args)]
        rc.ob(f"UAIReader.get_model [{norm(br.test, 50)}]: variables of the preamble declared: {bool(decl)}")
        if not decl:
            rc.fail(gm, br, f"UAIReader.get_model [{norm(br.test, 50)}]: the model is built from the edges only; a variable that occurs in unary factors only is not a node "
                    "and add_factors rejects its factor", construct=f"UAIReader.get_model {norm(br.test, 50)} nodes")
        if len(br.orelse) == 1 and isinstance(br.orelse[0], ast.If):
            todo.append(br.orelse[0])
    if seen < 2:
        raise AnalysisError("UAIReader.get_model: expected a BAYES and a MARKOV branch")


@rule("C09.dispatch", "save/load support the same formats and pair writer and reader of the same format", floor=2)
def dispatch(rc):
    repo = rc.repo
    tables = {}
    for q in ("BayesianNetwork.save", "BayesianNetwork.load"):
        f = repo.func(BN, q)
        fmts = None
        for n in walk_no_nested(f.node):
            if isinstance(n, ast.Assign) and isinstance(n.targets[0], ast.Name) and isinstance(n.value, ast.Set) and all(const_str(e) is not None for e in n.value.elts) \
                    and tm.has(f.node, "filename.split('.')[-1].lower() in _SF", {"_SF": n.targets[0].id}, nested=True):
                fmts = {const_str(e) for e in n.value.elts}
        for n_, b_ in tm.find_all(f.node, "filename.split('.')[-1].lower() in __SF", nested=True):
            if isinstance(b_["__SF"], ast.Set) and all(const_str(e) is not None for e in b_["__SF"].elts):
                fmts = {const_str(e) for e in b_["__SF"].elts}
        tbl = {}
        for s in sites(f.node, lambda n: isinstance(n, ast.Call) and isinstance(n.func, ast.Name) and re.fullmatch(r"\w+(Writer|Reader)", n.func.id or "")):
            tag = None
            for t, pol in s.conds:
                if pol and isinstance(t, ast.Compare) and dotted(t.left) == "filetype" and isinstance(t.comparators[0], ast.Constant):
                    tag = t.comparators[0].value
            tbl[tag] = s.node.func.id
        rc.ob(f"{q}: formats {sorted(fmts or [])}, dispatch {tbl}")
        tables[q] = (fmts, tbl, f)
    (f1, t1, fs), (f2, t2, fl) = tables["BayesianNetwork.save"], tables["BayesianNetwork.load"]
    if f1 != f2 or set(t1) != set(t2) or set(t1) != (f1 or set()):
        rc.fail(fs, fs.node, f"save and load must support the same formats (save {sorted(t1)}, load {sorted(t2)}, declared {sorted(f1 or [])}/{sorted(f2 or [])})", construct="format sets")
    want = {"bif": "BIF", "uai": "UAI", "xmlbif": "XMLBIF", "net": "NET"}
    for tag in set(t1) | set(t2):
        w, r = t1.get(tag), t2.get(tag)
        pre = want.get(tag)
        if w != f"{pre}Writer" or r != f"{pre}Reader":
            rc.fail(fs, fs.node, f"format {tag!r} must be written by {pre}Writer and read by {pre}Reader (found {w} / {r})", construct=f"dispatch {tag}")
    # extension override applies identically
    for q in ("BayesianNetwork.save", "BayesianNetwork.load"):
        f = tables[q][2]
        if 'filename.split(".")[-1].lower()' not in norm(f.node, 100000).replace("'", '"'):
            rc.fail(f, f.node, f"{q}: the file extension must select the format the same way in save and load", construct=f"{q} extension")



@rule("C09.defuse", "anchored files: no parameter is accepted and ignored (generic def-use detector, triaged exemptions)", floor=2)
def defuse(rc):
    from . import shared as _sh
    _sh.defuse_rule(rc, _sh.anchor_files("C09"))

MUTANTS = [
    dict(kind="break", name="net-writer-parents-from-graph", file=NET, expect="C09.layout",
         old="        cpds = self.model.get_cpds()\n        variable_parents = {}\n        for cpd in cpds:\n            variable_parents[cpd.variable] = cpd.variables[1:]\n        return variable_parents\n\n    def write_net",
         new="        variable_parents = {}\n        for variable in self.variables:\n            variable_parents[variable] = self.model.get_parents(variable)\n        return variable_parents\n\n    def write_net"),
    dict(kind="break", name="xmlbif-writer-c-order", file=XML, expect="C09.layout",
         old="for val in compat_fns.ravel_f(cpd.get_values()):", new="for val in cpd.get_values().ravel():"),
    dict(kind="break", name="xmlbif-reader-c-order", file=XML, expect="C09.layout",
         old="                ),\n                order=\"F\",\n            )", new="                ),\n            )"),
    dict(kind="break", name="uai-reader-scope-order", file=UAI, expect="C09.layout",
         old="\"var_\" + str(var) for var in list(function_variables)[-2::-1]", new="\"var_\" + str(var) for var in list(function_variables)[:-1]"),
    dict(kind="break", name="uai-writer-forward-scope", file=UAI, expect="C09.layout",
         old="                evidence = cpd.variables[:0:-1]", new="                evidence = cpd.variables[1:]"),
    dict(kind="break", name="uai-writer-fortran", file=UAI, expect="C09.layout",
         old="                        compat_fns.to_numpy(\n                            cpd.values.ravel(), decimals=self.round_values\n                        ),",
         new="                        compat_fns.to_numpy(\n                            cpd.values.ravel(\"F\"), decimals=self.round_values\n                        ),"),
    dict(kind="break", name="net-reader-no-transpose", file=NET, expect="C09.layout",
         old="cpd_2d = cpd_flat.reshape(par_states_prod, var_state_num).T", new="cpd_2d = cpd_flat.reshape(var_state_num, par_states_prod)"),
    dict(kind="break", name="net-writer-no-moveaxis", file=NET, expect="C09.layout",
         old="cpt_array = np.moveaxis(compat_fns.to_numpy(cpt, decimals=4), 0, -1)", new="cpt_array = compat_fns.to_numpy(cpt, decimals=4)"),
    dict(kind="break", name="bif-writer-sorted-parents-in-rows", file=BIF, expect="C09.layout",
         old="                    *[cpd.state_names[var] for var in cpd.variables[1:]]", new="                    *[cpd.state_names[var] for var in sorted(cpd.variables[1:])]"),
    dict(kind="break", name="uai-reader-parents-from-graph", file=UAI, expect="C09.evidence",
         old="                parents = self.parents[child_var]", new="                parents = list(model.predecessors(child_var))"),
    dict(kind="break", name="bif-reader-sorted-parents", file=BIF, expect="C09.evidence",
         old="            variable_parents[names[0]] = names[1:]", new="            variable_parents[names[0]] = sorted(names[1:])"),
    dict(kind="break", name="uai-no-exponent", file=UAI, expect="C09.numbers",
         old='floatnumber = Regex(r"[+-]?[0-9]+(\\.[0-9]*)?([eE][+-]?[0-9]+)?")', new='floatnumber = Regex(r"[0-9]+(\\.[0-9]*)?")'),
    dict(kind="break", name="bif-number-no-exponent", file=BIF, expect="C09.numbers",
         old='num_expr = Word(nums + "-" + "+" + "e" + "E" + ".") + Suppress(Optional(","))', new='num_expr = Word(nums + "-" + "+" + ".") + Suppress(Optional(","))'),
    dict(kind="break", name="bif-bare-word-delimiter", file=BIF, expect="C09.delims",
         old='start = re.finditer(r"\\bprobability\\s*\\(", self.network)', new='start = re.finditer("probability", self.network)'),
    dict(kind="break", name="bif-table-test-unanchored", file=BIF, expect="C09.delims",
         old='if bool(re.search(".*\\n[ ]*(table|default) .*\\n.*", block)):', new='if re.search(r"\\s(table|default)\\s", block):'),
    dict(kind="break", name="net-str-ndarray", file=NET, expect="C09.delims",
         old="cpt_string = np.array2string(cpt_array, threshold=cpt_array.size + 1)", new="cpt_string = str(cpt_array)"),
    dict(kind="break", name="load-uai-with-bif-reader", file=BN, expect="C09.dispatch",
         old="            reader = UAIReader(path=filename)\n            return reader.get_model()", new="            reader = BIFReader(path=filename)\n            return reader.get_model()"),
    dict(kind="break", name="bif-values-searched-in-header", file=BIF, expect="C09.keywords",
         old='cpds = self.cpd_expr.searchString(block[block.index("{") + 1 :])', new="cpds = self.cpd_expr.searchString(block)"),
    dict(kind="break", name="bif-variable-pattern-unanchored", file=BIF, expect="C09.keywords",
         old='start = re.finditer(r"(?m)^[ \\t]*variable\\s+[^\\s{]+\\s*\\{", self.network)', new='start = re.finditer(r"\\bvariable\\s+[^\\s{]+\\s*\\{", self.network)'),
    dict(kind="break", name="net-node-literal", file=NET, expect="C09.keywords",
         old='name_expr = Suppress(Keyword("node")) + word_expr + Optional(Suppress("{"))', new='name_expr = Suppress("node ") + word_expr + Optional(Suppress("{"))'),
    dict(kind="break", name="uai-values-single-token-unwrapped", file=UAI, expect="C09.single",
         old="                if isinstance(values, str):\n                    values = [values]\n                tables.append((child_var, list(values)))",
         new="                tables.append((child_var, list(values)))"),
    dict(kind="break", name="uai-domain-single-token-unwrapped", file=UAI, expect="C09.single",
         old="        if isinstance(var_domain, str):\n            var_domain = [var_domain]\n", new=""),
    dict(kind="break", name="uai-scope-single-token-unwrapped", file=UAI, expect="C09.single",
         old="            if isinstance(function_variables, int):\n                function_variables = [function_variables]\n            if self.network_type == \"BAYES\":\n                child_var = \"var_\" + str(function_variables[-1])\n                values",
         new="            if self.network_type == \"BAYES\":\n                child_var = \"var_\" + str(function_variables[-1])\n                values"),
    dict(kind="break", name="uai-markov-nodes-from-edges-only", file=UAI, expect="C09.single",
         old="            model.add_nodes_from([var for var in self.variables if var not in model])\n", new=""),
    dict(kind="twin", name="uai-single-token-ifexp", file=UAI,
         old="        if isinstance(var_domain, str):\n            var_domain = [var_domain]\n", new="        var_domain = [var_domain] if isinstance(var_domain, str) else var_domain\n"),
    dict(kind="twin", name="bif-values-body-by-split", file=BIF,
         old='cpds = self.cpd_expr.searchString(block[block.index("{") + 1 :])', new='cpds = self.cpd_expr.searchString(block.split("{", 1)[1])'),
    dict(kind="twin", name="xmlbif-both-c-order-consistently", file=XML,
         old="for val in compat_fns.ravel_f(cpd.get_values()):", new="for val in cpd.get_values().T.ravel():"),
    dict(kind="twin", name="net-reader-fortran-reshape", file=NET,
         old="cpd_2d = cpd_flat.reshape(par_states_prod, var_state_num).T", new="cpd_2d = cpd_flat.reshape(var_state_num, par_states_prod, order=\"F\")"),
]
