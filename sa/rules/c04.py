"""C04 — factor algebra is pointwise, order-independent and side-effect free."""
from __future__ import annotations

import ast

from ..core import AnalysisError, call_name, dotted, kwarg, norm, walk_no_nested
from ..effects import Summaries, analyse
from ..registry import describe, rule
from .. import tmatch as tm
from ..guards import sites
from ..util import calls_named, peel, returns_of
from . import shared

DF = "pgmpy/factors/discrete/DiscreteFactor.py"
FS = "pgmpy/factors/FactorSet.py"
SN = "pgmpy/utils/state_name.py"

describe(
    "C04",
    "out-of-place operations never mutate an operand: for EVERY method in the package that has an `inplace` parameter, the "
    "alias/provenance analysis specialised to inplace=False finds no mutation site (attribute/item store, in-place operator, "
    "container mutator, inplace-defaulting pgmpy call) whose target may alias `self` or an argument; operator dunders call the "
    "matching operation out of place and return its value; copy() produces fresh containers for every field that some method "
    "mutates in place; scope-changing operations keep variables, cardinality, values and state names coupled (one index list "
    "selects kept variables and cardinalities, it is sorted, the state-name maintenance call is present) ; equality/hash work on a copy.",
    ["that einsum subscripts compute the pointwise product", "0/0 handling and the numeric tolerance of equality", "torch/numpy agreement"],
)

OPS = {"__mul__": "product", "__rmul__": "product", "__add__": "sum", "__radd__": "sum", "__truediv__": "divide", "__sub__": None}


@rule("C04.inplace", "inplace=False specialisation of every method with an `inplace` flag mutates neither self nor any argument", floor=30)
def inplace(rc):
    repo = rc.repo
    summ = shared.summaries(repo)
    for f in repo.all_functions():
        if "inplace" not in f.params:
            continue
        if f.file.startswith(("pgmpy/models/SEM", "pgmpy/estimators/SEM")):
            continue
        fl = analyse(summ, f, fold={"inplace": False})
        rc.ob(f"{f.file}:{f.qual} [inplace=False]: {len(fl.mutations)} mutation site(s) on borrowed objects")
        for m in fl.mutations:
            if m.order_only:
                continue
            rc.fail(f, m.node, f"with inplace=False, `{norm(m.node, 70)}` still modifies `{m.root}` ({m.how}); out-of-place operations must work on a copy",
                    construct=f"{m.root}: {norm(m.node, 110)}")
        # the out-of-place result must not share storage with an operand (a view of the operand's table is corrupted by —
        # and corrupts — later in-place edits of either object)
        for st, roots in fl.alias_stores:
            v = st.value
            viewish = isinstance(v, (ast.Subscript, ast.Attribute, ast.Name)) or (isinstance(v, ast.Call) and call_name(v) in
                      ("reshape", "ravel", "swapaxes", "transpose", "squeeze", "view", "asarray"))
            if isinstance(v, ast.Name):
                # follow one local definition: K = self.K[np.ix_(...)] is a copy, X = self.values[tuple(slice_)] may be a view
                defs = [n.value for n in walk_no_nested(f.node) if isinstance(n, ast.Assign) and dotted(n.targets[0]) == v.id]
                v = defs[-1] if defs else v
            if isinstance(v, ast.Subscript) and not _basic_index(v.slice):
                viewish = False  # advanced (index-array) indexing copies
            if viewish:
                rc.fail(f, st, f"with inplace=False, `{norm(st, 70)}` stores a reference/view into `{sorted(roots)[0]}`'s own storage in the result: the returned object is not "
                        f"independent of the operand", construct=f"result aliases {sorted(roots)[0]}: {norm(st, 100)}")
        # both modes must compute the same thing: a read of self.F after the working object's F was re-bound/extended sees the
        # new value in place and the old value out of place
        work = shared.working_alias(f)
        if work and work != "self":
            written = {}
            for n in sorted([n for n in walk_no_nested(f.node) if hasattr(n, "lineno")], key=lambda n: (n.lineno, n.col_offset)):
                if isinstance(n, ast.Assign):
                    for t in n.targets:
                        for x in ([t] if not isinstance(t, (ast.Tuple, ast.List)) else t.elts):
                            if isinstance(x, ast.Attribute) and dotted(x.value) == work:
                                written.setdefault(x.attr, n.lineno)
                if isinstance(n, ast.Call) and isinstance(n.func, ast.Attribute) and n.func.attr in ("extend", "append", "update", "insert", "remove") \
                        and isinstance(n.func.value, ast.Attribute) and dotted(n.func.value.value) == work:
                    written.setdefault(n.func.value.attr, n.lineno)
                if isinstance(n, ast.Attribute) and isinstance(n.ctx, ast.Load) and dotted(n.value) == "self" and n.attr in written and n.lineno > written[n.attr] \
                        and n.attr in ("variables", "cardinality", "values"):
                    rc.fail(f, n, f"`self.{n.attr}` is read after `{work}.{n.attr}` was changed: in place it sees the new value, out of place the old one — "
                            f"the two modes no longer compute the same result", construct=f"stale self.{n.attr} after {work}.{n.attr} changed")
        # the out-of-place path must hand the result back
        if f.name not in ("__init__",):
            fl2 = fl
            rets = [r for r in returns_of(f) if r.value is not None and not (isinstance(r.value, ast.Constant) and r.value.value is None)]
            if not rets:
                rc.fail(f, f.node, "with inplace=False the result must be returned", construct="no return value")


@rule("C04.dunder", "operator dunders call the matching operation out of place and return the result", floor=10)
def dunder(rc):
    repo = rc.repo
    summ = shared.summaries(repo)
    for ci_list in repo.classes.values():
        for ci in ci_list:
            if not ci.module.rel.startswith("pgmpy/factors/"):
                continue
            for name, op in OPS.items():
                f = ci.methods.get(name)
                if f is None:
                    continue
                rets = returns_of(f)
                rc.ob(f"{ci.name}.{name}: {[norm(r.value) for r in rets]}")
                if not rets:
                    rc.fail(f, f.node, f"{ci.name}.{name} must return the result of the underlying operation", construct=f"{name} return")
                    continue
                if len(rets) != 1 or not isinstance(rets[0].value, ast.Call):
                    for m in analyse(summ, f).mutations:
                        rc.fail(f, m.node, f"{ci.name}.{name} modifies its operand `{m.root}` ({m.how})", construct=f"{name}: {norm(m.node, 90)}")
                    continue
                c = rets[0].value
                callee = call_name(c)
                if callee in OPS and dotted(c.func.value) == "self":
                    continue  # __rmul__ -> __mul__
                opm = repo.resolve_method(ci, op) if op else None
                if opm is None or len(opm.params) < 2:
                    # a class without the named operation (FactorDict builds a new object directly): only purity is required
                    for m in analyse(summ, f).mutations:
                        rc.fail(f, m.node, f"{ci.name}.{name} modifies its operand `{m.root}` ({m.how})", construct=f"{name}: {norm(m.node, 90)}")
                    continue
                if op is not None and callee != op:
                    rc.fail(f, c, f"{ci.name}.{name} must delegate to `{op}`, it calls `{callee}`", construct=f"{name} -> {callee}")
                    continue
                target = repo.resolve_method(ci, callee)
                if target is not None and "inplace" in target.params:
                    ip = kwarg(c, "inplace")
                    if ip is None:
                        idx = target.params.index("inplace") - 1
                        ip = c.args[idx] if idx < len(c.args) else None
                    if not (isinstance(ip, ast.Constant) and ip.value is False):
                        dflt = target.param_default("inplace")
                        if ip is not None or (isinstance(dflt, ast.Constant) and dflt.value is True):
                            rc.fail(f, c, f"`a {name.strip('_')} b` must not modify `a`: {ci.name}.{name} calls {callee}() in place "
                                    f"(default inplace=True), which also returns None", construct=f"{name} in place")


@rule("C04.copydepth", "copy() of factor classes gives every in-place-mutated field a fresh container", floor=4)
def copydepth(rc):
    repo = rc.repo
    shared.copy_rule(rc, [c for lst in repo.classes.values() for c in lst if c.module.rel.startswith("pgmpy/factors/") and "copy" in c.methods])


def _basic_index(sl):
    """can this index expression produce a VIEW (basic indexing: ints, slices, tuple(...) of them)?"""
    if isinstance(sl, (ast.Slice, ast.Constant)):
        return True
    if isinstance(sl, ast.Tuple):
        return all(_basic_index(e) for e in sl.elts)
    if isinstance(sl, ast.Call) and isinstance(sl.func, ast.Name) and sl.func.id == "tuple":
        return True  # tuple(slice_) of ints / slice objects
    if isinstance(sl, ast.UnaryOp):
        return True
    return False  # np.ix_(...), index lists, masks, names of index arrays: advanced indexing copies


def _assigned_fields(f, base):
    out = {}
    for n in walk_no_nested(f.node):
        if isinstance(n, ast.Assign):
            for t in n.targets:
                if isinstance(t, ast.Attribute) and dotted(t.value) == base:
                    out.setdefault(t.attr, []).append(n)
    return out


@rule("C04.coupled", "scope-changing operations keep variables, cardinality, values and state names coupled", floor=5)
def coupled(rc):
    repo = rc.repo
    cls = repo.cls(DF, "DiscreteFactor")
    # --- removing operations
    for name in ("marginalize", "maximize", "reduce"):
        f = cls.methods.get(name)
        if f is None:
            raise AnalysisError(f"DiscreteFactor.{name} vanished")
        work = shared.working_alias(f)
        if work is None:
            raise AnalysisError(f"DiscreteFactor.{name}: no `phi = self if inplace else self.copy()`")
        fields = _assigned_fields(f, work)
        rc.ob(f"{name}: assigns {sorted(fields)} of `{work}`")
        for need in ("variables", "cardinality", "values"):
            if need not in fields:
                rc.fail(f, f.node, f"{name} changes the scope but does not update `{need}`", construct=f"{name} missing {need}")
        if "variables" in fields and "cardinality" in fields:
            v = fields["variables"][-1].value
            c = fields["cardinality"][-1].value
            kv = None
            if isinstance(v, ast.ListComp) and len(v.generators) == 1:
                kv = dotted(v.generators[0].iter)
            kc = dotted(c.slice) if isinstance(c, ast.Subscript) else None
            if kv is None or kv != kc:
                rc.fail(f, fields["cardinality"][-1], f"{name}: kept variables are selected by `{kv}` but kept cardinalities by `{kc}` — one index list must select both",
                        construct=f"{name} index agreement")
            else:
                src = [n.value for n in walk_no_nested(f.node) if isinstance(n, ast.Assign) and dotted(n.targets[0]) == kv]
                if not src or not (isinstance(src[-1], ast.Call) and call_name(src[-1]) == "sorted"):
                    rc.fail(f, f.node, f"{name}: the kept-index list `{kv}` comes from a set difference and must be sorted to preserve the axis order", construct=f"{name} sorted")
        dels = [c for c in calls_named(f, "del_state_names") if dotted(c.func.value) == work]
        if not dels:
            rc.fail(f, f.node, f"{name} must drop the state names of the removed variables", construct=f"{name} del_state_names")
    # --- growing operations
    f = cls.methods["product"]
    work = shared.working_alias(f)
    fields = _assigned_fields(f, work)
    rc.ob(f"product: assigns {sorted(fields)} of `{work}`")
    for need in ("variables", "cardinality", "values"):
        if need not in fields:
            rc.fail(f, f.node, f"product does not update `{need}`", construct=f"product missing {need}")
    if "variables" in fields and "cardinality" in fields:
        nv = dotted(fields["variables"][-1].value)
        card = fields["cardinality"][-1].value
        it = None
        for n in ast.walk(card):
            if isinstance(n, ast.ListComp):
                it = dotted(n.generators[0].iter)
        ein = [c for c in calls_named(f, "einsum")]
        out_ok = bool(ein) and nv is not None and f"range(len({nv}))" in norm(ein[0], 1000)
        if nv is None or it != nv or not out_ok:
            rc.fail(f, fields["cardinality"][-1], "product: result variables, cardinalities and the einsum output axes must all follow the same variable list",
                    construct="product order agreement")
    if not [c for c in calls_named(f, "add_state_names") if dotted(c.func.value) == work]:
        rc.fail(f, f.node, "product must merge the state names of the other factor", construct="product add_state_names")
    f = cls.methods["sum"]
    work = shared.working_alias(f)
    ext = [c for c in calls_named(f, "extend") if norm(c.func.value) == f"{work}.variables"]
    adds = [c for c in calls_named(f, "add_state_names") if dotted(c.func.value) == work]
    cards = [n for n in walk_no_nested(f.node) if isinstance(n, ast.Assign) and norm(n.targets[0]) == f"{work}.cardinality"]
    rc.ob(f"sum: extends variables {len(ext)}x, cardinality stores {len(cards)}, add_state_names {len(adds)}")
    if not (ext and adds and cards):
        rc.fail(f, f.node, "sum: new variables need variables, cardinality and state names extended together", construct="sum coupled")
    else:
        src = dotted(ext[0].args[0])
        it = None
        for n in ast.walk(cards[0].value):
            if isinstance(n, ast.ListComp):
                it = dotted(n.generators[0].iter)
        if src != it:
            rc.fail(f, cards[0], "sum: appended cardinalities must follow the same iteration order as the appended variables", construct="sum order agreement")
    # --- sum / divide: the other operand's axes are aligned with the result's ALWAYS (not only when variables had to be added)
    for name in ("sum", "divide"):
        g = cls.methods[name]
        sw = sites(g.node, lambda n: isinstance(n, ast.Call) and call_name(n) == "swapaxes")
        if not sw:
            rc.fail(g, g.node, f"{name}: the second operand's axes are never permuted to the result's order", construct=f"{name} no alignment")
        for s_ in sw:
            bad = [norm(t) for t, pol in s_.conds if "extra_vars" in norm(t)]
            loopsrc = [norm(it) for t, it in s_.loops]
            rc.ob(f"{name}: axis alignment {norm(s_.node, 60)} in loop over {loopsrc}, under {[norm(t) for t, p in s_.conds]}")
            if bad:
                rc.fail(g, s_.node, f"{name}: axes are aligned only when {bad[0]}: two factors over the same variables in a different order are combined cell by cell "
                        f"without alignment", construct=f"{name} alignment conditional on extra_vars")
    # --- state-name maintenance keeps its three maps together
    mix = repo.cls(SN, "StateNameMixin")
    for name, verb in (("del_state_names", "del"), ("add_state_names", "update")):
        m = mix.methods.get(name)
        if m is None:
            raise AnalysisError(f"StateNameMixin.{name} vanished")
        txt = norm(m.node, 10000)
        got = [x for x in ("state_names", "name_to_no", "no_to_name") if f"self.{x}" in txt]
        rc.ob(f"{name} maintains {got}")
        if len(got) != 3:
            rc.fail(m, m.node, f"{name} must maintain state_names, name_to_no and no_to_name together", construct=f"{name} three maps")
    # the two lookup maps are the enumeration of the declared state list and its inverse; the accessors read the right one
    st = mix.methods.get("store_state_names")
    if st is None:
        raise AnalysisError("StateNameMixin.store_state_names vanished")
    def _enum_map(attr, key_is_name):
        """the per-variable map stored into self.<attr>[k]: -> 'ok' | reason (wrong) ; raises when the shape is unknown (cannot decide)"""
        asg = [n for n in ast.walk(st.node) if isinstance(n, ast.Assign) and isinstance(n.targets[0], ast.Subscript) and norm(n.targets[0].value) == f"self.{attr}"]
        if len(asg) != 1:
            raise AnalysisError(f"store_state_names: expected one store into self.{attr}[…], found {len(asg)}")
        v = asg[0].value
        if not (isinstance(v, ast.DictComp) and len(v.generators) == 1 and isinstance(v.generators[0].iter, ast.Call) and call_name(v.generators[0].iter) == "enumerate"
                and isinstance(v.generators[0].target, ast.Tuple) and len(v.generators[0].target.elts) == 2):
            raise AnalysisError(f"store_state_names: self.{attr}[…] is not a comprehension over enumerate(…): `{norm(v, 80)}`")
        en = v.generators[0].iter
        no, name = (norm(x) for x in v.generators[0].target.elts)
        if len(en.args) != 1 or en.keywords:
            return asg[0], "the enumeration does not start at 0"
        src = norm(en.args[0])
        if not (src.startswith("self.state_names[") or src in {norm(t) for lp in ast.walk(st.node) if isinstance(lp, ast.For) for t in ([lp.target.elts[1]] if isinstance(lp.target, ast.Tuple) and len(lp.target.elts) == 2 else [])}):
            return asg[0], f"it enumerates `{src}`, not the declared state list of the variable"
        want = (name, no) if key_is_name else (no, name)
        if (norm(v.key), norm(v.value)) != want:
            return asg[0], f"it maps {norm(v.key)} -> {norm(v.value)}"
        return asg[0], "ok"
    for attr, kin in (("name_to_no", True), ("no_to_name", False)):
        node_, verdict = _enum_map(attr, kin)
        rc.ob(f"store_state_names: self.{attr}[k] = {norm(node_.value, 70)}: {verdict}")
        if verdict != "ok":
            rc.fail(st, node_, f"store_state_names: self.{attr} must map each declared state {'to its position' if kin else 'position to its state'} in the declared list ({verdict}); "
                    "every lookup of evidence, reduce, assignment and sampling goes through these maps", construct=f"state map {attr}")
    dflt = tm.find_all(st.node, "self.state_names = {_v: list(range(int(cardinality[_i]))) for _i, _v in enumerate(variables)}", nested=True)
    dmap = tm.find_all(st.node, "self.name_to_no = {_v: {_j: _j for _j in range(int(cardinality[_i]))} for _i, _v in enumerate(variables)}", nested=True)
    dinv = tm.find_all(st.node, "self.no_to_name = self.name_to_no.copy()", nested=True) or \
        tm.find_all(st.node, "self.no_to_name = {_v: {_j: _j for _j in range(int(cardinality[_i]))} for _i, _v in enumerate(variables)}", nested=True)
    rc.ob(f"store_state_names: defaults 0..card-1 per variable {bool(dflt)}/{bool(dmap)}/{bool(dinv)}")
    if not (dflt and dmap and dinv):
        # a recognisably wrong pairing (the cardinality is not indexed by the variable's own position) is a finding; any other shape cannot be decided
        whole = [n for n in ast.walk(st.node) if isinstance(n, ast.Assign) and norm(n.targets[0]) in ("self.state_names", "self.name_to_no") and isinstance(n.value, ast.DictComp)
                 and isinstance(n.value.generators[0].iter, ast.Call) and call_name(n.value.generators[0].iter) == "enumerate"]
        wrong = []
        for n in whole:
            tgt = n.value.generators[0].target
            idx = norm(tgt.elts[0]) if isinstance(tgt, ast.Tuple) else None
            subs = [norm(x.slice) for x in ast.walk(n.value.value) if isinstance(x, ast.Subscript) and norm(x.value) == "cardinality"]
            if subs and any(sl != idx for sl in subs):
                wrong.append(n)
        if wrong:
            rc.fail(st, wrong[0], "store_state_names: without declared names every variable gets the states 0..card-1 of ITS OWN cardinality (paired by position): "
                    f"`{norm(wrong[0].value, 70)}`", construct="default state names per variable")
        else:
            raise AnalysisError("store_state_names: default state names have an unknown shape")
    for name, mp, arg in (("get_state_names", "no_to_name", "state_no"), ("get_state_no", "name_to_no", "state_name")):
        m = mix.methods.get(name)
        if m is None:
            raise AnalysisError(f"StateNameMixin.{name} vanished")
        okr = any(tm.is_(r.value, f"self.{mp}[var][{arg}]") is not None for r in ast.walk(m.node) if isinstance(r, ast.Return) and r.value is not None)
        rc.ob(f"{name} reads self.{mp}[var][{arg}]: {okr}")
        if not okr:
            rc.fail(m, m.node, f"{name} must answer from self.{mp}[var][{arg}]", construct=f"{name} map")
    # equality / hash permute a copy, never an operand
    summ = shared.summaries(repo)
    for name in ("__eq__", "__hash__"):
        f = cls.methods[name]
        fl = analyse(summ, f)
        rc.ob(f"{name}: {len(fl.mutations)} mutation(s) of operands")
        for m in fl.mutations:
            rc.fail(f, m.node, f"{name} modifies its operand `{m.root}` ({m.how})", construct=f"{name}: {norm(m.node, 100)}")



@rule("C04.zerodiv", "division defines 0/0 := 0 on the quotient table (x/0 stays inf), after the pointwise division", floor=1)
def zerodiv(rc):
    """The quantifier of the property names `0/0 and x/0 in division`: the documented convention is 0/0 = 0 and x/0 = inf.  numpy gives nan for 0/0;
    the divide method must overwrite exactly the nan cells of the quotient with 0, after the division (belief-update message passing relies on it)."""
    repo = rc.repo
    f = repo.func(DF, "DiscreteFactor.divide")
    divs = [n for n in walk_no_nested(f.node) if isinstance(n, ast.Assign) and len(n.targets) == 1 and isinstance(n.value, ast.BinOp) and isinstance(n.value.op, ast.Div)
            and norm(n.value.left).endswith(".values") and norm(n.value.right).endswith(".values")]
    if len(divs) != 1:
        raise AnalysisError(f"DiscreteFactor.divide: expected one pointwise division of two value tables, found {len(divs)}")
    q = norm(divs[0].targets[0])          # where the quotient lives: `phi.values` or a local
    fixes = []
    for n in walk_no_nested(f.node):
        if isinstance(n, ast.Assign) and isinstance(n.targets[0], ast.Subscript) and isinstance(n.value, ast.Constant) and n.value.value == 0:
            sl = n.targets[0].slice
            if isinstance(sl, ast.Call) and call_name(sl) == "isnan" and sl.args:
                fixes.append((n, norm(n.targets[0].value), norm(sl.args[0])))
    rc.ob(f"divide: quotient stored in `{q}` (line {divs[0].lineno}); 0/0 := 0 fix-ups {[(t, m) for _, t, m in fixes]}")
    good = [n for n, tgt, mask in fixes if tgt == q and mask == q and n.lineno > divs[0].lineno]
    if not good:
        why = "no fix-up of the nan cells follows the division"
        for n, tgt, mask in fixes:
            if n.lineno < divs[0].lineno:
                why = "the fix-up runs before the division"
            elif mask != q:
                why = f"the nan mask is computed on `{mask}`, not on the quotient `{q}` (the operands hold no nan, so nothing is fixed)"
            elif tgt != q:
                why = f"the fix-up writes into `{tgt}`, not into the quotient `{q}`"
        rc.fail(f, divs[0], f"after `values / values` the 0/0 cells are nan: the documented convention 0/0 := 0 must be applied to the quotient — {why} (marginals computed "
                "through divide, e.g. belief updates with exact zeros, come back as nan)", construct="divide 0/0 convention")
    elif q.split(".")[0] not in ((shared.working_alias(f) or "phi"),) and not any(isinstance(n, ast.Assign) and norm(n.value) == q and norm(n.targets[0]).endswith(".values") and n.lineno > good[-1].lineno
                                                                                    for n in walk_no_nested(f.node)):
        rc.fail(f, divs[0], f"the fixed quotient `{q}` is never stored into the result's values", construct="divide quotient stored")


@rule("C04.axes", "backend helpers tell `axis=None` (reduce over everything) from an empty axis tuple (reduce over nothing) by identity, never by truthiness", floor=1)
def axes(rc):
    """maximize([]) / marginalize([]) are identities (an empty scope difference in max-product message passing produces exactly that); the backend
    reductions receive `axis=()` then.  `if axis:` would turn the empty tuple into None = all axes: scope and cardinalities stay, the table collapses."""
    repo = rc.repo
    mod = repo.module("pgmpy/utils/compat_fns.py")
    n = 0
    for f in mod.functions.values():
        for prm in f.params:
            d = f.param_default(prm)
            if not (isinstance(d, ast.Constant) and d.value is None) or prm not in ("axis", "axes", "dim", "dims"):
                continue
            n += 1
            bad = []
            for x in walk_no_nested(f.node):
                tests = [x.test] if isinstance(x, (ast.If, ast.IfExp, ast.While)) else ([x] if isinstance(x, ast.BoolOp) else [])
                for t in tests:
                    stack = [t]
                    while stack:
                        y = stack.pop()
                        if isinstance(y, ast.BoolOp):
                            stack.extend(y.values)
                        elif isinstance(y, ast.UnaryOp) and isinstance(y.op, ast.Not):
                            stack.append(y.operand)
                        elif isinstance(y, ast.Name) and y.id == prm:
                            bad.append(x)
            rc.ob(f"compat_fns.{f.name}({prm}=None): truthiness tests of `{prm}`: {len(bad)}")
            for x in bad:
                rc.fail(f, x, f"compat_fns.{f.name}: `{prm}` is tested by truthiness: an EMPTY axis tuple (reduce over no axis — e.g. maximize([])) is treated like None (reduce over all axes), "
                        "so the table collapses to a scalar while scope and cardinalities stay", construct=f"{f.name} truthiness of {prm}")
    if n == 0:
        raise AnalysisError("compat_fns: no reduction helper with an optional axis parameter found")


@rule("C04.defuse", "anchored files: no parameter is accepted and ignored (generic def-use detector, triaged exemptions)", floor=2)
def defuse(rc):
    from . import shared as _sh
    _sh.defuse_rule(rc, _sh.anchor_files("C04"))


@rule("C04.namefirst", "a caller's state is read as a NAME first; the raw value serves as a number only in the KeyError fallback of that lookup", floor=3)
def namefirst(rc):
    shared.name_first_rule(rc, (DF, "pgmpy/factors/discrete/CPD.py", SN, "pgmpy/factors/discrete/JointProbabilityDistribution.py"))


MUTANTS = [
    dict(kind="break", name="factor-product-dedup-by-value", file="pgmpy/factors/base.py", expect="C04.valuekey",
         old="    if len(args) == 1:\n        return args[0].copy()", new="    args = tuple(dict.fromkeys(args))\n    if len(args) == 1:\n        return args[0].copy()"),
    dict(kind="break", name="set-value-name-only-if-str", file=DF, expect="C04.namefirst",
         old="            else:\n                try:\n                    index.append(self.name_to_no[var][kwargs[var]])\n                except (KeyError, TypeError):\n                    logger.info(f\"Using {var} state as number instead of name.\")\n                    index.append(kwargs[var])\n\n        self.values[tuple(index)] = value",
         new="            elif isinstance(kwargs[var], str):\n                index.append(self.name_to_no[var][kwargs[var]])\n            else:\n                index.append(kwargs[var])\n\n        self.values[tuple(index)] = value"),
    dict(kind="break", name="get-state-no-number-first", file=SN, expect="C04.namefirst",
         old="        if self.state_names:\n            return self.name_to_no[var][state_name]", new="        if self.state_names:\n            if isinstance(state_name, int) and 0 <= state_name < len(self.state_names[var]):\n                return state_name\n            return self.name_to_no[var][state_name]"),
    dict(kind="break", name="state-maps-one-based", file=SN, expect="C04.coupled",
         old="                        name: no for no, name in enumerate(self.state_names[key])", new="                        name: no for no, name in enumerate(self.state_names[key], 1)"),
    dict(kind="break", name="default-states-from-first-cardinality", file=SN, expect="C04.coupled",
         old="                var: list(range(int(cardinality[index])))\n", new="                var: list(range(int(cardinality[0])))\n"),
    dict(kind="break", name="get-state-no-reads-inverse-map", file=SN, expect="C04.coupled",
         old="            return self.name_to_no[var][state_name]", new="            return self.no_to_name[var][state_name]"),
    dict(kind="break", name="divide-keeps-nan-for-zero-over-zero", file=DF, expect="C04.zerodiv",
         old="        phi.values[config.get_compute_backend().isnan(phi.values)] = 0\n", new=""),
    dict(kind="break", name="max-empty-axis-means-all", file="pgmpy/utils/compat_fns.py", expect="C04.axes",
         old="def max(arr, axis=None):\n    if axis is not None:\n        axis = tuple(axis)\n", new="def max(arr, axis=None):\n    axis = tuple(axis) if axis else None\n"),
    dict(kind="break", name="reduce-result-views-operand", file=DF, expect="C04.inplace",
         old="        phi.values = phi.values[tuple(slice_)]\n\n        if not inplace:", new="        phi.values = self.values[tuple(slice_)]\n\n        if not inplace:"),
    dict(kind="break", name="sum-align-by-stale-self-variables", file=DF, expect="C04.inplace",
         old="            # rearranging the axes of phi1 to match phi\n            for axis in range(phi.values.ndim):", new="            # rearranging the axes of phi1 to match phi\n            for axis in range(len(self.variables)):"),
    dict(kind="break", name="factor-sum-product-set", file="pgmpy/factors/base.py", expect="C04.valuekey",
         old="    state_names = {}\n    for phi in factors:", new="    factors = set(factors)\n    state_names = {}\n    for phi in factors:"),
    dict(kind="break", name="marginalize-works-on-self", file=DF, expect="C04.inplace",
         old="        phi = self if inplace else self.copy()\n\n        for var in variables:\n            if var not in phi.variables:\n                raise ValueError(f\"{var} not in scope.\")\n\n        var_indexes = [phi.variables.index(var) for var in variables]\n\n        index_to_keep = sorted(set(range(len(self.variables))) - set(var_indexes))\n        n_variables",
         new="        phi = self\n\n        for var in variables:\n            if var not in phi.variables:\n                raise ValueError(f\"{var} not in scope.\")\n\n        var_indexes = [phi.variables.index(var) for var in variables]\n\n        index_to_keep = sorted(set(range(len(self.variables))) - set(var_indexes))\n        n_variables"),
    dict(kind="break", name="divide-mutates-divisor", file=DF, expect="C04.inplace",
         old="        phi = self if inplace else self.copy()\n        phi1 = phi1.copy()\n\n        if set(phi1.variables) - set(phi.variables):", new="        phi = self if inplace else self.copy()\n\n        if set(phi1.variables) - set(phi.variables):"),
    dict(kind="break", name="sum-mutates-operand", file=DF, expect="C04.inplace",
         old="        else:\n            phi1 = phi1.copy()\n\n            # modifying phi to add new variables", new="        else:\n            # modifying phi to add new variables"),
    dict(kind="break", name="normalize-inplace-self-values", file=DF, expect="C04.inplace",
         old="        phi.values = phi.values / (phi.values.sum())\n", new="        self.values /= self.values.sum()\n        phi.values = phi.values / (phi.values.sum())\n"),
    dict(kind="break", name="mul-in-place", file=DF, expect="C04.dunder",
         old="    def __mul__(self, other):\n        return self.product(other, inplace=False)", new="    def __mul__(self, other):\n        return self.product(other)"),
    dict(kind="break", name="copy-shares-values", file=DF, expect="C04.copydepth",
         old="copy.values = compat_fns.copy(self.values)", new="copy.values = self.values"),
    dict(kind="break", name="copy-shares-state-name-map", file=DF, expect="C04.copydepth",
         old="copy.name_to_no = self.name_to_no.copy()", new="copy.name_to_no = self.name_to_no"),
    dict(kind="break", name="copy-shares-variable-list", file=DF, expect="C04.copydepth",
         old="copy.variables = [*self.variables]", new="copy.variables = self.variables"),
    dict(kind="break", name="marginalize-cardinality-by-removed-index", file=DF, expect="C04.coupled",
         old="        phi.cardinality = phi.cardinality[index_to_keep]\n        phi.del_state_names(variables)\n\n        phi.values = compat_fns.einsum", new="        phi.cardinality = phi.cardinality[var_indexes]\n        phi.del_state_names(variables)\n\n        phi.values = compat_fns.einsum"),
    dict(kind="break", name="reduce-unsorted-keep", file=DF, expect="C04.coupled",
         old="        var_index_to_keep = sorted(\n            set(range(len(phi.variables))) - set(var_index_to_del)\n        )", new="        var_index_to_keep = list(\n            set(range(len(phi.variables))) - set(var_index_to_del)\n        )"),
    dict(kind="break", name="maximize-keeps-state-names", file=DF, expect="C04.coupled",
         old="        phi.del_state_names(variables)\n        phi.values = compat_fns.max(phi.values, axis=tuple(var_indexes))", new="        phi.values = compat_fns.max(phi.values, axis=tuple(var_indexes))"),
    dict(kind="break", name="divide-aligns-only-with-extra-vars", file=DF, expect="C04.coupled",
         old="            phi1.variables.extend(extra_vars)\n\n        # Rearranging the axes of phi1 to match phi\n        for axis in range(phi.values.ndim):\n            exchange_index = phi1.variables.index(phi.variables[axis])\n            phi1.variables[axis], phi1.variables[exchange_index] = (\n                phi1.variables[exchange_index],\n                phi1.variables[axis],\n            )\n            phi1.values = phi1.values.swapaxes(axis, exchange_index)\n\n        phi.values = phi.values / phi1.values",
         new="            phi1.variables.extend(extra_vars)\n\n            # Rearranging the axes of phi1 to match phi\n            for axis in range(phi.values.ndim):\n                exchange_index = phi1.variables.index(phi.variables[axis])\n                phi1.variables[axis], phi1.variables[exchange_index] = (\n                    phi1.variables[exchange_index],\n                    phi1.variables[axis],\n                )\n                phi1.values = phi1.values.swapaxes(axis, exchange_index)\n\n        phi.values = phi.values / phi1.values"),
    dict(kind="break", name="eq-permutes-other-in-place", file=DF, expect="C04.coupled",
         old="            phi = other.copy()\n            if self.variables != phi.variables:", new="            phi = other\n            if self.variables != phi.variables:"),
    dict(kind="twin", name="marginalize-explicit-branch", file=DF,
         old="        phi = self if inplace else self.copy()\n\n        for var in variables:\n            if var not in phi.variables:\n                raise ValueError(f\"{var} not in scope.\")\n\n        var_indexes = [phi.variables.index(var) for var in variables]\n\n        index_to_keep = sorted(set(range(len(self.variables))) - set(var_indexes))\n        n_variables",
         new="        if inplace:\n            phi = self\n        else:\n            phi = self.copy()\n\n        for var in variables:\n            if var not in phi.variables:\n                raise ValueError(f\"{var} not in scope.\")\n\n        var_indexes = [phi.variables.index(var) for var in variables]\n\n        index_to_keep = sorted(set(range(len(self.variables))) - set(var_indexes))\n        n_variables"),
    dict(kind="twin", name="copy-list-constructor", file=DF,
         old="copy.variables = [*self.variables]", new="copy.variables = list(self.variables)"),
]


@rule("C04.valuekey", "factor-algebra helpers keep the multiplicity of their operands (no value-keyed container of factors)", floor=2)
def valuekey(rc):
    repo = rc.repo
    mod = repo.module("pgmpy/factors/base.py")
    for name, h in mod.functions.items():
        if not name.startswith("factor_"):
            continue
        n_sets = 0
        for n in walk_no_nested(h.node):
            if isinstance(n, ast.Call) and isinstance(n.func, ast.Name) and n.func.id in ("set", "frozenset") and n.args and dotted(n.args[0]) in ("args", "factors"):
                n_sets += 1
                rc.fail(h, n, f"{name}: `{norm(n)}` merges operands that compare equal (DiscreteFactor hashes/compares by value): f*g*g becomes f*g", construct=f"{name} set of factors")
            if isinstance(n, ast.Call) and call_name(n) in ("fromkeys", "Counter", "unique") and n.args and dotted(n.args[0]) in ("args", "factors"):
                n_sets += 1
                rc.fail(h, n, f"{name}: `{norm(n)}` keys a mapping by the operands: equal factors (DiscreteFactor hashes/compares by value) are de-duplicated, f*g*g becomes f*g",
                        construct=f"{name} operands de-duplicated by value")
            if isinstance(n, (ast.SetComp, ast.DictComp)) and any(dotted(g.iter) in ("args", "factors") for g in n.generators):
                key = n.key if isinstance(n, ast.DictComp) else n.elt
                if dotted(key) == dotted(n.generators[0].target):
                    n_sets += 1
                    rc.fail(h, n, f"{name}: `{norm(n, 70)}` is keyed by the factors themselves", construct=f"{name} factors as keys")
        rc.ob(f"{name}: {n_sets} value-keyed container(s) of operands")
