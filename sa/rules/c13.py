"""C13 — interventions follow the truncated factorisation."""
from __future__ import annotations

import ast

from ..core import AnalysisError, call_name, dotted, kwarg, norm, walk_no_nested
from ..effects import analyse
from ..guards import A, And, Not, Or, T, implies, path_formula, show_formula, sites
from ..registry import describe, rule
from .. import tmatch as tm
from ..util import calls_named, neighbour_kind, peel, resolve, returns_of
from . import shared

BN = "pgmpy/models/BayesianNetwork.py"
DAGF = "pgmpy/base/DAG.py"
CI = "pgmpy/inference/CausalInference.py"

describe(
    "C13",
    "graph surgery removes exactly the edges (parent, node) for parent in predecessors(node), node in the intervened set, on a copy "
    "unless inplace; CPD surgery marginalises exactly the parents (variables[1:]) of exactly the intervened nodes' CPDs on that copy "
    "and nothing of the original; adjustment-set enumerators only emit sets for which the corresponding validator answered yes and "
    "their candidates exclude X, Y, latent variables and (back-door) descendants of X; validators answer through d-connection tests "
    "with the treatment added to the conditioning set; the proper back-door graph removes the FIRST edge of every causal path; the "
    "default adjustment set of a query is the set of parents of the intervened variables and latent parents are rejected.",
    ["that the adjustment formula's sums equal the truncated factorisation numerically", "completeness of the enumerated adjustment sets"],
)


@rule("C13.surgery", "do(): exactly the incoming edges / parent axes of exactly the intervened nodes, on the copy", floor=3)
def surgery(rc):
    repo = rc.repo
    f = repo.func(DAGF, "DAG.do")
    nodes_p = f.params[1]
    work = shared.working_alias(f)
    if work is None:
        raise AnalysisError("DAG.do: no `dag = self if inplace else self.copy()`")
    rem = sites(f.node, lambda n: isinstance(n, ast.Call) and call_name(n) in ("remove_edge", "remove_edges_from", "remove_node", "add_edge"))
    good = 0
    for s in rem:
        c = s.node
        rc.ob(f"DAG.do edit {norm(c)} for {[(norm(t), norm(i, 50)) for t, i in s.loops]}")
        if call_name(c) != "remove_edge" or dotted(c.func.value) != work:
            rc.fail(f, c, f"do() may only remove edges, on the working graph `{work}`")
            continue
        a, b = (dotted(x) for x in c.args[:2])
        node_loop = [t for t, it in s.loops if dotted(peel(it)) == nodes_p]
        if not node_loop or dotted(node_loop[0]) != b:
            rc.fail(f, c, "do() must remove edges INTO each intervened node (second endpoint = the node from `nodes`)")
            continue
        src = None
        for t, it in s.loops:
            if dotted(t) == a:
                src = neighbour_kind(it, _defs(f), of=b)
        if src != "parents":
            rc.fail(f, c, f"do() must remove exactly the edges from the node's PARENTS; the first endpoint ranges over {src or 'something else'}")
            continue
        good += 1
    if not good:
        rc.fail(f, f.node, "do() does not remove the incoming edges of the intervened nodes", construct="no surgery")
    if not any(dotted(r.value) == work for r in returns_of(f)):
        rc.fail(f, f.node, "do() must return the operated graph", construct="return")
    # nodes validated
    if not [s for s in sites(f.node, lambda n: isinstance(n, ast.Raise))]:
        rc.fail(f, f.node, "do() must reject nodes that are not in the model", construct="validation")

    g = repo.func(BN, "BayesianNetwork.do")
    nodes_p = g.params[1]
    work = shared.working_alias(g)
    delegate = [c for c in repo.calls_in(g) if norm(c.func) in ("DAG.do", "super().do", "super(BayesianNetwork, self).do")]
    rc.ob(f"BayesianNetwork.do delegates graph surgery: {[norm(c) for c in delegate]}")
    if not delegate:
        rc.fail(g, g.node, "BayesianNetwork.do must perform the graph surgery of DAG.do", construct="delegate")
    else:
        c = delegate[0]
        args = [dotted(a) for a in c.args]
        ip = kwarg(c, "inplace")
        target = args[0] if norm(c.func) == "DAG.do" else "self"
        # either operate on the already made copy in place, or pass the flag through
        if not (nodes_p in args):
            rc.fail(g, c, "graph surgery must be applied to the same intervened nodes")
    marg = sites(g.node, lambda n: isinstance(n, ast.Call) and call_name(n) == "marginalize")
    okm = False
    res_names = {dotted(r.value) for r in returns_of(g)}
    for s in marg:
        c = s.node
        recv = dotted(c.func.value)
        arg = c.args[0] if c.args else kwarg(c, "variables")
        d = _defs(g)
        src = resolve(ast.Name(id=recv), d) if recv else None
        from_res = isinstance(src, ast.Call) and call_name(src) == "get_cpds" and dotted(src.func.value) in res_names
        node_arg = None
        if isinstance(src, ast.Call):
            na = kwarg(src, "node") or (src.args[0] if src.args else None)
            node_arg = dotted(na)
        loop_ok = any(dotted(t) == node_arg and dotted(peel(it)) == nodes_p for t, it in s.loops)
        parents_only = isinstance(arg, ast.Subscript) and norm(arg) == f"{recv}.variables[1:]"
        ip = kwarg(c, "inplace")
        inpl = ip is None or (isinstance(ip, ast.Constant) and ip.value is True)
        rc.ob(f"BayesianNetwork.do CPD surgery {norm(c)}: cpd of result model {from_res}, intervened nodes only {loop_ok}, parents only {parents_only}")
        if from_res and loop_ok and parents_only and inpl:
            okm = True
        else:
            rc.fail(g, c, "CPD surgery must marginalise (in place, on the returned model's CPD) exactly the parent axes `variables[1:]` of each intervened node's CPD")
    if not okm and not rc.report.findings:
        rc.fail(g, g.node, "the intervened nodes' CPDs must be replaced by parent-free ones", construct="no cpd surgery")


class _Defs(dict):
    params = ()


def _defs(f):
    d = _Defs()
    d.params = tuple(f.params)
    for n in walk_no_nested(f.node):
        if isinstance(n, ast.Assign) and len(n.targets) == 1 and isinstance(n.targets[0], ast.Name):
            d[n.targets[0].id] = n.value
    return d


def _deep(e, d, depth=0):
    """inline single-definition local names recursively (text only)"""
    import copy as _copy
    if e is None or depth > 6:
        return e

    class R(ast.NodeTransformer):
        def visit_Name(self, n):
            if n.id in d and n.id not in getattr(d, "params", ()) and isinstance(n.ctx, ast.Load) and not any(isinstance(x, ast.Name) and x.id == n.id for x in ast.walk(d[n.id])):
                return _deep(d[n.id], d, depth + 1)
            return n
    return R().visit(_copy.deepcopy(e))


@rule("C13.emit", "adjustment-set enumerators emit only validated sets; candidates exclude X, Y, latents and descendants of X", floor=4)
def emit(rc):
    repo = rc.repo
    f = repo.func(CI, "CausalInference.get_all_backdoor_adjustment_sets")
    X, Y = f.params[1], f.params[2]
    outs = {b["_V"] for r in returns_of(f) if r.value is not None for b in [tm.is_(r.value, "frozenset(_V)")] if b}
    app = sites(f.node, lambda n: isinstance(n, ast.Call) and call_name(n) == "append" and dotted(n.func.value) in outs)
    ok = False
    for s in app:
        elem = s.node.args[0]
        cand = {x.id for x in ast.walk(elem) if isinstance(x, ast.Name)} - {"frozenset", "set"}
        validated = False
        for t, pol in s.conds:
            if pol and isinstance(t, ast.Call) and call_name(t) == "is_valid_backdoor_adjustment_set":
                args = [dotted(a) for a in t.args] + [dotted(k.value) for k in t.keywords]
                if args[:2] == [X, Y] and set(args[2:]) & cand:
                    validated = True
        rc.ob(f"back-door emit {norm(s.node)} validated: {validated}")
        if validated:
            ok = True
        else:
            rc.fail(f, s.node, "a set is emitted as a valid back-door adjustment set without a positive answer of the validator for that very set")
    if not ok and not rc.report.findings:
        rc.fail(f, f.node, "no validated emission found", construct="backdoor emit")
    d = _defs(f)
    pw = [c for c in repo.calls_in(f) if call_name(c) == "_powerset" and c.args]
    cands = _deep(pw[0].args[0], d) if pw else None
    txt = norm(cands, 400) if cands is not None else ""
    rc.ob(f"back-door candidates {txt}")
    need = {"observed_variables": "latent variables must not be candidates", f"{{{X}}}": "X must not be a candidate", f"{{{Y}}}": "Y must not be a candidate",
            f"descendants(self.model, {X})": "descendants of X must not be candidates"}
    for k, why in need.items():
        if k not in txt:
            rc.fail(f, cands if cands is not None else f.node, f"back-door candidates: {why}", construct=f"backdoor candidates {k}")
    # the empty-set shortcut is validated as well
    for s in sites(f.node, lambda n: isinstance(n, ast.Return) and norm(n.value) == "frozenset()"):
        if not any(pol and isinstance(t, ast.Call) and call_name(t) == "is_valid_backdoor_adjustment_set" for t, pol in s.conds):
            rc.fail(f, s.node, "the empty adjustment set is returned without validation")

    f = repo.func(CI, "CausalInference.get_all_frontdoor_adjustment_sets")
    X, Y = f.params[1], f.params[2]
    comps = [n for n in walk_no_nested(f.node) if isinstance(n, (ast.ListComp, ast.SetComp, ast.GeneratorExp))]
    ok = False
    for c in comps:
        g = c.generators[0]
        var = dotted(g.target)
        val = any(isinstance(i, ast.Call) and call_name(i) == "is_valid_frontdoor_adjustment_set" and [dotted(a) for a in i.args] == [X, Y, var] for i in g.ifs)
        rc.ob(f"front-door emit {norm(c, 120)} validated: {val}")
        if val and var in {x.id for x in ast.walk(c.elt) if isinstance(x, ast.Name)}:
            ok = True
    if not ok:
        rc.fail(f, f.node, "front-door sets must be filtered by the front-door validator applied to that very set", construct="frontdoor emit")
    d = _defs(f)
    pw = [c for c in ast.walk(f.node) if isinstance(c, ast.Call) and call_name(c) == "_powerset" and c.args]
    txt = norm(_deep(pw[0].args[0], d), 400) if pw else ""
    for k in ("observed_variables", f"{{{X}}}", f"{{{Y}}}"):
        if k not in txt:
            rc.fail(f, f.node, f"front-door candidates must exclude X, Y and latent variables (missing {k})", construct=f"frontdoor candidates {k}")
    # observed_variables = nodes - latents
    init = repo.func(CI, "CausalInference.__init__")
    t = norm(init.node, 5000)
    if "latents" not in t or "difference(" not in t and " - " not in t:
        rc.fail(init, init.node, "observed_variables must be the model's nodes minus its latent variables", construct="observed variables")
    rc.ob("observed_variables = nodes - latents")
    # the minimal set: a separator of the proper back-door graph that contains no descendant of X
    f = repo.func(CI, "CausalInference.get_minimal_adjustment_set")
    X = f.params[1]
    sd = _defs(f)
    desc = [c for c in ast.walk(f.node) if isinstance(c, ast.Call) and call_name(c) in ("descendants", "get_descendants", "_get_descendants")
            and any(dotted(a) == X or (isinstance(a, (ast.List, ast.Set, ast.Tuple)) and [dotted(e) for e in a.elts] == [X]) for a in c.args)]
    searched = {dotted(c.func.value) for c in ast.walk(f.node) if isinstance(c, ast.Call) and call_name(c) == "minimal_dseparator" and isinstance(c.func, ast.Attribute)}
    rc.ob(f"get_minimal_adjustment_set: separator searched on {sorted(searched)}; descendant sets of {X}: {[norm(c, 60) for c in desc]}")
    if not searched:
        raise AnalysisError("get_minimal_adjustment_set: minimal_dseparator call not found")
    good = False
    for c in desc:
        g0 = norm(_deep(c.args[0], sd), 80) if len(c.args) == 2 else "self.model"
        if isinstance(c.func, ast.Attribute) and len(c.args) == 1:
            g0 = norm(_deep(c.func.value, sd), 80)
        if g0 not in ("self.model", "self.dag"):
            rc.fail(f, c, f"the descendants of {X} are taken in `{g0}`: in the proper back-door graph the first edge of every causal path is removed, so mediators are no "
                    "descendants there", construct="descendants taken in the back-door graph")
            continue
        # (a) excluded from the search: stored into the searched graph's latent set before the search; (b) subtracted from / tested against the result
        for n in walk_no_nested(f.node):
            if isinstance(n, (ast.Assign, ast.AugAssign)):
                tg = n.targets[0] if isinstance(n, ast.Assign) else n.target
                if isinstance(tg, ast.Attribute) and tg.attr == "latents" and dotted(tg.value) in searched and any(x is c or norm(x) == norm(c) for x in ast.walk(_deep(n.value, sd))):
                    union = isinstance(n, ast.AugAssign) and isinstance(n.op, ast.BitOr) or any(isinstance(x, ast.Attribute) and x.attr == "latents" for x in ast.walk(n.value)) \
                        or any(isinstance(x, ast.Call) and call_name(x) == "union" for x in ast.walk(n.value))
                    if union:
                        good = True
                    else:
                        rc.fail(f, n, "the latent set of the searched graph is REPLACED by the descendants: unobserved variables become candidates", construct="latents replaced")
            if isinstance(n, ast.Return) and n.value is not None and any(norm(x) == norm(c) for x in ast.walk(_deep(n.value, sd))) and isinstance(_deep(n.value, sd), ast.BinOp):
                rc.fail(f, n, "descendants are subtracted from the separator afterwards: what remains need not separate", construct="descendants removed after the search")
    if not good and not any(x.func.endswith("get_minimal_adjustment_set") for x in rc.report.findings):
        rc.fail(f, f.node, f"the minimal adjustment set is the minimal d-separator of the proper back-door graph with NO restriction to non-descendants of {X}: for X<-U->M->Y, X->M "
                "it returns the mediator {M} for half of the node orders (the back-door criterion forbids descendants of X; adjusting for M does not give P(Y|do(X)))",
                construct="minimal set may contain descendants of X")


@rule("C13.route", "validators answer by d-connection tests on the right graph with the right conditioning set", floor=5)
def route(rc):
    repo = rc.repo
    f = repo.func(CI, "CausalInference.is_valid_backdoor_adjustment_set")
    X, Y, Z = f.params[1:4]
    cs = sites(f.node, lambda n: isinstance(n, ast.Call) and call_name(n) == "is_dconnected")
    ok = False
    d = _defs(f)
    for s in cs:
        c = s.node
        a0 = dotted(c.args[0]) if c.args else None
        a1 = dotted(c.args[1]) if len(c.args) > 1 else None
        ob = kwarg(c, "observed") or (c.args[2] if len(c.args) > 2 else None)
        obr = _deep(ob, d) if ob is not None else None
        obt = norm(obr) if obr is not None else ""
        par_loop = any(dotted(t) == a0 and neighbour_kind(it, d, of=X) == "parents" for t, it in s.loops)
        negated = isinstance(getattr(c, "_parent", None), ast.UnaryOp)
        rc.ob(f"back-door validator: {norm(c)} with observed = {obt}; over parents of X: {par_loop}; negated: {negated}")
        if par_loop and a1 == Y and f"[{X}]" in obt and any(isinstance(x_, ast.Name) and x_.id == Z for x_ in ast.walk(obr)) and negated:
            ok = True
    if not ok:
        rc.fail(f, f.node, "back-door validity = every parent of X is d-separated from Y given {X} ∪ Z", construct="backdoor validator")
    r = returns_of(f)
    if not any(isinstance(x.value, ast.Call) and call_name(x.value) == "all" for x in r):
        rc.fail(f, f.node, "all parents must be separated (conjunction)", construct="backdoor all")

    fd = repo.func(CI, "CausalInference.is_valid_frontdoor_adjustment_set")
    bd_calls = [c for c in repo.calls_in(fd) if call_name(c) == "is_valid_backdoor_adjustment_set"]
    Xf, Yf, Zf = fd.params[1], fd.params[2], fd.params[3]
    over_z = set()
    for n_ in ast.walk(fd.node):
        if isinstance(n_, ast.comprehension) and dotted(n_.iter) == Zf and isinstance(n_.target, ast.Name):
            over_z.add(n_.target.id)
        if isinstance(n_, ast.For) and dotted(n_.iter) == Zf and isinstance(n_.target, ast.Name):
            over_z.add(n_.target.id)
    sigs = sorted(tuple("·" if dotted(a) in over_z else dotted(a) for a in c.args) for c in bd_calls)
    rc.ob(f"front-door validator uses the back-door validator with {sigs} (· = each mediator in {Zf})")
    if (Xf, "·") not in sigs or ("·", Yf, Xf) not in sigs:
        rc.fail(fd, fd.node, "front-door validity: (2) no unblocked back-door path from X to each mediator and (3) X blocks every back-door path from each mediator to Y — "
                "both decided by the back-door validator", construct="frontdoor via backdoor validator")
    for fn_ in repo.module(CI).classes["CausalInference"].methods.values():
        for c in repo.calls_in(fn_):
            if call_name(c) in ("all_simple_paths", "all_simple_edge_paths", "has_path", "shortest_path") and (kwarg(c, "cutoff") is not None or (call_name(c).startswith("all_simple") and len(c.args) > 3)):
                rc.fail(fn_, c, f"{fn_.qual}: `{norm(c, 70)}` bounds the path search: the graphical criteria quantify over ALL directed paths (with latent variables a path can be longer "
                        "than the number of observed variables)", construct=f"{fn_.qual} bounded path search")
            if call_name(c) == "active_trail_nodes":
                il = kwarg(c, "include_latents")
                if not (isinstance(il, ast.Constant) and il.value is True):
                    rc.fail(fn_, c, f"{fn_.qual}: active trails are asked for WITHOUT latent nodes; a latent confounder (latent parent of X) is then invisible to the criterion",
                            construct=f"{fn_.qual} active trails without latents")
    g = repo.func(CI, "CausalInference.get_proper_backdoor_graph")
    work = None
    for n in walk_no_nested(g.node):
        if isinstance(n, ast.Assign) and isinstance(n.value, ast.IfExp) and dotted(n.value.test) == "inplace":
            work = dotted(n.targets[0])
            if norm(n.value.orelse) != "self.model.copy()":
                rc.fail(g, n, "the proper back-door graph must be built on a copy unless inplace")
    app = [c for c in calls_named(g, "append")]
    first = any(isinstance(c.args[0], ast.Subscript) and isinstance(c.args[0].slice, ast.Constant) and c.args[0].slice.value == 0 for c in app)
    rc.ob(f"proper back-door graph removes the first edge of each causal path: {first}")
    if not first:
        rc.fail(g, g.node, "the proper back-door graph removes the FIRST edge (out of X) of every causal path from X to Y", construct="first edge")
    if not any(call_name(c) == "remove_edges_from" and dotted(c.func.value) == work for c in repo.calls_in(g)):
        rc.fail(g, g.node, "edges must be removed from the working graph", construct="remove edges")
    paths = [c for c in repo.calls_in(g) if call_name(c) in ("all_simple_edge_paths", "all_simple_paths")]
    if not paths or dotted(paths[0].args[0]) != work:
        rc.fail(g, g.node, "causal paths must be enumerated on the working graph", construct="paths")

    h = repo.func(CI, "CausalInference.is_valid_adjustment_set")
    cs = calls_named(h, "is_dconnected")
    okh = False
    for c in cs:
        ob = kwarg(c, "observed") or (c.args[2] if len(c.args) > 2 else None)
        recv = dotted(c.func.value)
        src = _defs(h).get(recv)
        rc.ob(f"adjustment validator: {norm(c)} on {norm(src) if src is not None else recv}")
        if dotted(ob) == h.params[3] and isinstance(src, ast.Call) and call_name(src) == "get_proper_backdoor_graph":
            okh = True
    if not okh:
        rc.fail(h, h.node, "adjustment validity = X and Y d-separated by the set in the proper back-door graph", construct="adjustment validator")
    # every (x, y) pair of X x Y must be separated — zip(X, Y) only pairs the i-th x with the i-th y
    for lp_ in [n for n in walk_no_nested(h.node) if isinstance(n, ast.For) and any(isinstance(c_, ast.Call) and call_name(c_) == "is_dconnected" for c_ in ast.walk(n))]:
        it = lp_.iter
        pairs_all = isinstance(it, ast.Call) and call_name(it) == "product" and [dotted(a) for a in it.args] == h.params[1:3]
        rc.ob(f"adjustment validator iterates {norm(it, 60)} (all pairs of X x Y: {pairs_all})")
        if not pairs_all:
            rc.fail(h, lp_, f"is_valid_adjustment_set tests `{norm(it, 50)}`: with several treatment / outcome variables only the i-th x is paired with the i-th y, so a set that leaves "
                    "another (x, y) pair d-connected in the proper back-door graph is accepted", construct="adjustment validator pairs")
    for s in sites(h.node, lambda n: isinstance(n, ast.Return) and isinstance(n.value, ast.Constant)):
        conn = [pol for t, pol in s.conds if isinstance(t, ast.Call) and call_name(t) == "is_dconnected"]
        if s.node.value.value is False and conn != [True]:
            rc.fail(h, s.node, "invalid exactly when some pair stays d-connected")
        if s.node.value.value is True and any(conn):
            rc.fail(h, s.node, "valid only if no pair is d-connected")

    m = repo.func(CI, "CausalInference.get_minimal_adjustment_set")
    ok = any(isinstance(r.value, ast.Call) and call_name(r.value) == "minimal_dseparator" and [dotted(a) for a in r.value.args] == m.params[1:3] for r in returns_of(m))
    rc.ob(f"minimal adjustment set = minimal_dseparator on the proper back-door graph: {ok}")
    if not ok or not calls_named(m, "get_proper_backdoor_graph"):
        rc.fail(m, m.node, "the minimal adjustment set must be the minimal d-separator of X and Y in the proper back-door graph", construct="minimal adjustment")

    q = repo.func(CI, "CausalInference.query")
    d = _defs(q)
    adj = [n for n in walk_no_nested(q.node) if isinstance(n, ast.Assign) and dotted(n.targets[0]) == "adjustment_set"]
    okq = False
    for n in adj:
        b_ = tm.is_(n.value, "set(chain(*[self.model.predecessors(_v) for _v in __DV]))")
        if b_ is None:
            continue
        dv = _deep(b_["__DV"], d)
        okq = okq or any(tm.is_(dv, t_) is not None for t_ in ("[_a for _a, _b in do.items()]", "list(do)", "list(do.keys())", "do.keys()", "do", "[_a for _a in do]"))
    rc.ob(f"default adjustment set = parents of the do-variables: {okq}")
    if not okq:
        rc.fail(q, q.node, "without an explicit adjustment set the parents of the intervened variables are used", construct="default adjustment")
    lat = [s for s in sites(q.node, lambda n: isinstance(n, ast.Raise)) if any("latents" in norm(t) for t, pol in s.conds)]
    if not lat:
        rc.fail(q, q.node, "latent parents of intervened variables must be rejected (no valid default adjustment)", construct="latent parents")
    # P(z) must be the JOINT over the adjustment set (a product of marginals is wrong for dependent adjustment variables)
    _inf = [b["_I"] for _, b in tm.find_all(q.node, "_I = inference_algo(self.model)")]
    infer_v = _inf[0] if _inf else None
    _pzn = [b["_PZ"] for _, b in tm.find_all(q.node, "_PZ.get_value(**_AE)", nested=True)]
    pz_name = _pzn[0] if _pzn else None
    pz = sorted([n for n in walk_no_nested(q.node) if isinstance(n, ast.Assign) and pz_name is not None and dotted(n.targets[0]) == pz_name], key=lambda n: n.lineno)
    for n in pz:
        v = n.value
        calls_q = [c for c in ast.walk(v) if isinstance(c, ast.Call) and call_name(c) == "query" and dotted(c.func.value) == infer_v]
        if isinstance(v, ast.Call) and call_name(v) == "DiscreteFactor":
            continue
        rc.ob(f"p_z = {norm(v, 110)}")
        okp = len(calls_q) == 1 and dotted(calls_q[0].args[0]) == "adjustment_set" and not (isinstance(kwarg(calls_q[0], "joint"), ast.Constant) and kwarg(calls_q[0], "joint").value is False) \
            and not any(isinstance(c, ast.Call) and call_name(c) == "factor_product" for c in ast.walk(v))
        if not okp:
            rc.fail(q, n, "P(z) must come from ONE joint query over the whole adjustment set (per-variable marginals multiplied together lose the dependence between adjustment variables)",
                    construct="p_z joint")
    if not pz:
        raise AnalysisError("CausalInference.query: p_z not found")
    # the do-variables always reach the inner queries as evidence
    inner = [c for c in calls_named(q, "query") if dotted(c.func.value) == infer_v]
    uses_do = 0
    for s in sites(q.node, lambda n: n in inner):
        ev = s.node.args[1] if len(s.node.args) > 1 else kwarg(s.node, "evidence")
        evr = None
        if ev is not None and isinstance(ev, ast.Name):
            # nearest preceding definition
            cands = sorted([n for n in walk_no_nested(q.node) if isinstance(n, ast.Assign) and dotted(n.targets[0]) == ev.id and n.lineno < s.node.lineno], key=lambda n: n.lineno)
            evr = cands[-1].value if cands else None
        t = norm(evr) if evr is not None else ""
        in_do_branch = not any(norm(tt) == "do == {}" and pol for tt, pol in s.conds)
        first_arg = dotted(s.node.args[0]) if s.node.args else None
        if in_do_branch and first_arg == "variables":
            rc.ob(f"interventional inner query {norm(s.node, 80)} with evidence {t}")
            if "**do" not in t:
                rc.fail(q, s.node, "the intervened values must be part of the evidence of every inner query for the query variables", construct="do as evidence")
            else:
                uses_do += 1
    # the caller's evidence must reach every inner query of the adjustment sum (it is a parameter: re-binding it inside the loop to a dictionary that does not
    # contain it drops every observation outside the adjustment set)
    for lp_ in [n for n in walk_no_nested(q.node) if isinstance(n, ast.For)]:
        for n in ast.walk(lp_):
            if isinstance(n, ast.Assign) and any(dotted(t) == "evidence" for t in n.targets) and isinstance(n.value, ast.Dict):
                keeps = any(k is None and dotted(v) == "evidence" for k, v in zip(n.value.keys, n.value.values))
                rc.ob(f"adjustment loop re-binds evidence: {norm(n, 60)} (keeps the caller's evidence: {keeps})")
                if not keeps:
                    rc.fail(q, n, "inside the adjustment sum the parameter `evidence` is re-bound to {do, adjustment states}: observations on variables outside the adjustment set are "
                            "dropped, so query(variables, do, evidence) equals the answer without that evidence", construct="adjustment loop drops evidence")
    if uses_do < 2:
        rc.fail(q, q.node, "interventional branches must query with the do-values as evidence", construct="do branches")



@rule("C13.defuse", "anchored files: no parameter is accepted and ignored (generic def-use detector, triaged exemptions)", floor=2)
def defuse(rc):
    from . import shared as _sh
    _sh.defuse_rule(rc, _sh.anchor_files("C13"))

MUTANTS = [
    dict(kind="break", name="minimal-set-without-descendant-exclusion", file=CI, expect="C13.emit",
         old="        backdoor_graph.latents = set(backdoor_graph.latents) | nx.descendants(\n            self.model, X\n        )\n", new=""),
    dict(kind="break", name="minimal-set-descendants-in-backdoor-graph", file=CI, expect="C13.emit",
         old="nx.descendants(\n            self.model, X\n        )", new="nx.descendants(\n            backdoor_graph, X\n        )"),
    dict(kind="break", name="minimal-set-latents-replaced", file=CI, expect="C13.emit",
         old="        backdoor_graph.latents = set(backdoor_graph.latents) | nx.descendants(", new="        backdoor_graph.latents = nx.descendants("),
    dict(kind="twin", name="minimal-set-union-call", file=CI,
         old="        backdoor_graph.latents = set(backdoor_graph.latents) | nx.descendants(\n            self.model, X\n        )\n",
         new="        forbidden = nx.descendants(self.model, X)\n        backdoor_graph.latents = set(backdoor_graph.latents).union(forbidden)\n"),
    dict(kind="repair", name="adjustment-loop-keeps-evidence", file=CI, gone="C13.route", construct="adjustment loop drops evidence",
         old="            evidence = {**do, **adj_evidence}\n", new="            evidence = {**evidence, **do, **adj_evidence}\n"),
    dict(kind="repair", name="adjustment-validator-all-pairs", file=CI, gone="C13.route", construct="adjustment validator pairs",
         old="        for x, y in zip(X, Y):", new="        for x, y in product(X, Y):"),
    dict(kind="break", name="do-removes-outgoing", file=DAGF, expect="C13.surgery",
         old="            parents = list(dag.predecessors(node))\n            for parent in parents:\n                dag.remove_edge(parent, node)",
         new="            parents = list(dag.successors(node))\n            for parent in parents:\n                dag.remove_edge(node, parent)"),
    dict(kind="break", name="do-edits-self-graph", file=DAGF, expect="C13.surgery",
         old="                dag.remove_edge(parent, node)", new="                self.remove_edge(parent, node)"),
    dict(kind="break", name="bn-do-marginalises-all-but-last", file=BN, expect="C13.surgery",
         old="cpd.marginalize(cpd.variables[1:], inplace=True)", new="cpd.marginalize(cpd.variables[2:], inplace=True)"),
    dict(kind="break", name="bn-do-marginalise-out-of-place", file=BN, expect="C13.surgery",
         old="cpd.marginalize(cpd.variables[1:], inplace=True)", new="cpd.marginalize(cpd.variables[1:], inplace=False)"),
    dict(kind="break", name="bn-do-cpd-of-original", file=BN, expect="C13.surgery",
         old="                cpd = adj_model.get_cpds(node=node)\n                cpd.marginalize", new="                cpd = self.get_cpds(node=node)\n                cpd.marginalize"),
    dict(kind="break", name="backdoor-candidates-include-descendants", file=CI, expect="C13.emit",
         old="            - {Y}\n            - set(nx.descendants(self.model, X))\n        )", new="            - {Y}\n        )"),
    dict(kind="break", name="backdoor-emits-unvalidated", file=CI, expect="C13.emit",
         old="            if self.is_valid_backdoor_adjustment_set(X, Y, s):\n                valid_adjustment_sets.append(frozenset(s))", new="            if self.is_valid_backdoor_adjustment_set(Y, X, s):\n                valid_adjustment_sets.append(frozenset(s))"),
    dict(kind="break", name="backdoor-validator-forgets-x", file=CI, expect="C13.route",
         old="        observed = [X] + list(Z_)", new="        observed = list(Z_)"),
    dict(kind="break", name="proper-backdoor-last-edge", file=CI, expect="C13.route",
         old="                edges_to_remove.append(path[0])", new="                edges_to_remove.append(path[-1])"),
    dict(kind="break", name="query-drops-do-from-evidence", file=CI, expect="C13.route",
         old="            evidence = {**do, **adj_evidence}", new="            evidence = {**adj_evidence}"),
    dict(kind="break", name="pz-product-of-marginals", file=CI, expect="C13.route",
         old="            p_z = infer.query(adjustment_set, evidence=evidence, show_progress=False)", new="            p_z = factor_product(*infer.query(adjustment_set, evidence=evidence, joint=False, show_progress=False).values())"),
    dict(kind="break", name="frontdoor-step2-via-trails-without-latents", file=CI, expect="C13.route",
         old="        unblocked_backdoor_paths_X_Z = [\n            zz for zz in Z if not self.is_valid_backdoor_adjustment_set(X, zz)\n        ]\n",
         new="        parents_X = set(self.model.predecessors(X))\n        unblocked_backdoor_paths_X_Z = [\n            zz for zz in Z if parents_X & self.model.active_trail_nodes(zz, observed=[X])[zz]\n        ]\n"),
    dict(kind="twin", name="do-loop-inline", file=DAGF,
         old="            parents = list(dag.predecessors(node))\n            for parent in parents:\n                dag.remove_edge(parent, node)",
         new="            for parent in list(dag.get_parents(node)):\n                dag.remove_edge(parent, node)"),
]
