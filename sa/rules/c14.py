"""C14 — model conversions preserve the distribution and produce valid targets."""
from __future__ import annotations

import ast

from ..core import AnalysisError, call_name, dotted, kwarg, norm, walk_no_nested
from ..guards import A, And, Not, Or, implies, path_formula, show_formula, sites
from ..registry import describe, rule
from .. import tmatch as tm
from ..util import deep_resolve, single_defs, calls_named, peel, returns_of

BN = "pgmpy/models/BayesianNetwork.py"
MN = "pgmpy/models/MarkovNetwork.py"
FG = "pgmpy/models/FactorGraph.py"
JT = "pgmpy/models/JunctionTree.py"
CG = "pgmpy/models/ClusterGraph.py"
FB = "pgmpy/factors/base.py"

describe(
    "C14",
    "each source factor is handed to the target exactly once, by position/identity and never through a value-keyed container "
    "(DiscreteFactor hashes and compares by value, so equal factors would merge); usage bookkeeping in the junction-tree "
    "construction is indexed by position; clique potentials are unit factors labelled with the model's state names multiplied "
    "by the product of the factors assigned to the clique; the clique tree is a maximum-sepset-weight spanning tree (sign of the "
    "weight x min/max of the spanning-tree call) built behind the cycle and sepset guards; BN -> MN uses the moral graph with all "
    "nodes and one to_factor() per CPD; triangulation returns early only when already chordal and otherwise connects all "
    "neighbours of each eliminated node.",
    ["equality of the normalised joint / partition function as numbers", "chordality and running-intersection as graph-theoretic facts of the output"],
)


def _factor_loops(f, coll_pred):
    out = []
    for n in walk_no_nested(f.node):
        if isinstance(n, ast.For) and coll_pred(norm(n.iter)):
            out.append(n)
    return out


@rule("C14.once", "every source factor reaches the target exactly once; no value-keyed bookkeeping", floor=6)
def once(rc):
    repo = rc.repo
    # (a) BN -> MN
    f = repo.func(BN, "BayesianNetwork.to_markov_model")
    adds = calls_named(f, "add_factors")
    ok = False
    for c in adds:
        a = c.args[0] if c.args else None
        inner = a.value if isinstance(a, ast.Starred) else a
        rc.ob(f"BN.to_markov_model: {norm(c, 90)}")
        if isinstance(inner, ast.ListComp) and norm(inner.elt) == f"{dotted(inner.generators[0].target)}.to_factor()" and norm(inner.generators[0].iter) in ("self.cpds", "self.get_cpds()") \
                and not inner.generators[0].ifs:
            ok = True
        elif inner is not None and ("set(" in norm(inner) or isinstance(inner, (ast.SetComp, ast.Set))):
            rc.fail(f, c, "CPDs are collected in a set before conversion: factors that compare equal merge", construct="BN->MN set of factors")
    if not ok and not rc.report.findings:
        rc.fail(f, f.node, "BN -> MN must add exactly one factor (cpd.to_factor()) per CPD of the network", construct="BN->MN one factor per cpd")
    # (b)/(c) MN -> FG, FG -> MN: one add_factors(factor) per loop iteration, unconditional
    for rel, q in ((MN, "MarkovNetwork.to_factor_graph"), (FG, "FactorGraph.to_markov_model")):
        g = repo.func(rel, q)
        ss = sites(g.node, lambda n: isinstance(n, ast.Call) and call_name(n) == "add_factors")
        good = False
        for s in ss:
            loopv = [dotted(t) for t, it in s.loops if norm(it) in ("self.factors", "self.get_factors()")]
            arg = s.node.args[0] if s.node.args else None
            inner = arg.value if isinstance(arg, ast.Starred) else arg
            rc.ob(f"{q}: {norm(s.node)} in loop over {loopv} under {[norm(t) for t, p in s.conds if id(t) not in s.validation]}")
            conds = [t for t, p in s.conds if id(t) not in s.validation]
            if loopv and dotted(inner) == loopv[-1] and not conds:
                good = True
            elif inner is not None and norm(inner) in ("self.factors", "self.get_factors()") and isinstance(arg, ast.Starred):
                good = True
            elif inner is not None and "set(" in norm(inner):
                rc.fail(g, s.node, f"{q}: factors pass through a set: equal factors merge", construct=f"{q} set of factors")
        if not good and not any(x.func == q for x in rc.report.findings):
            rc.fail(g, g.node, f"{q} must hand every factor of the source to the target exactly once, unconditionally", construct=f"{q} one per factor")
    # (d) junction tree: bookkeeping by position
    j = repo.func(MN, "MarkovNetwork.to_junction_tree")
    floops = _factor_loops(j, lambda t: "self.factors" in t)
    if not floops:
        raise AnalysisError("to_junction_tree: loop over the model's factors not found")
    lp = floops[0]
    fvars = {x.id for x in ast.walk(lp.target) if isinstance(x, ast.Name)}
    enumerated = isinstance(lp.iter, ast.Call) and call_name(lp.iter) == "enumerate"
    factor_var = None
    if enumerated and isinstance(lp.target, ast.Tuple):
        factor_var = dotted(lp.target.elts[1])
    elif isinstance(lp.target, ast.Name):
        factor_var = lp.target.id
    n_sub = 0
    for n in ast.walk(j.node):
        if isinstance(n, ast.Subscript) and dotted(n.slice) == factor_var and factor_var is not None:
            n_sub += 1
            rc.fail(j, n, f"`{norm(n)}`: bookkeeping keyed by the factor itself — DiscreteFactor hashes/compares by VALUE, so of several equal factors only one is "
                    f"assigned to a clique and the partition function changes", construct="junction tree bookkeeping keyed by factor value")
        if isinstance(n, ast.DictComp) and dotted(n.key) == factor_var and factor_var is not None and any("self.factors" in norm(g.iter) for g in n.generators):
            n_sub += 1
            rc.fail(j, n, f"`{norm(n, 80)}`: a dict keyed by factors merges equal factors", construct="junction tree dict keyed by factor value")
        if isinstance(n, ast.Compare) and isinstance(n.ops[0], (ast.In, ast.NotIn)) and dotted(n.left) == factor_var and factor_var is not None and "scope" not in norm(n):
            n_sub += 1
            rc.fail(j, n, f"`{norm(n)}`: membership of a factor in a container is decided by value", construct="junction tree membership by value")
    rc.ob(f"to_junction_tree: factor loop `{norm(lp.target)} in {norm(lp.iter)}`; value-keyed uses of the factor variable: {n_sub}")
    # assignment under (not used ∧ scope ⊆ clique), mark in the same block
    app = sites(j.node, lambda n: isinstance(n, ast.Call) and call_name(n) == "append" and n.args and dotted(n.args[0]) == factor_var)
    if len(app) != 1:
        rc.fail(j, j.node, "each factor must be appended to exactly one clique's factor list at one site", construct="assignment site")
    else:
        s = app[0]
        # the used-marks container: a list of False per factor (by position) or whatever the mutant built in its place
        used_names = {b["_U"] for pat in ("_U = [False] * len(self.factors)", "_U = {__K: False for _f in self.factors}", "_U = [False for _f in self.factors]", "_U = set()", "_U = []", "_U = {}")
                      for _, b in tm.find_all(j.node, pat)}

        def _is_used_ref(e):
            return isinstance(e, ast.Subscript) and dotted(e.value) in used_names

        def atomize(e):
            t = norm(e)
            if _is_used_ref(e):
                return A("used")
            if "issubset(" in t and "scope()" in t:
                return A("fits")
            return None

        fm = path_formula(s, atomize)
        rc.ob(f"to_junction_tree: factor assigned under {show_formula(fm)}")
        ok1, _, r1 = implies(fm, And(Not(A("used")), A("fits")), extra_atoms=("used", "fits"))
        ok2, _, r2 = implies(And(Not(A("used")), A("fits")), fm, extra_atoms=("used", "fits"))
        rc.report.rows += r1 + r2
        if not (ok1 and ok2):
            rc.fail(j, s.node, "a factor must be assigned to a clique exactly when it is still unused and its scope fits the clique", construct="assignment condition")
        blk = getattr(s.stmt, "_parent", None)
        marks = [n for n in (blk.body if isinstance(blk, ast.If) else []) if isinstance(n, ast.Assign) and _is_used_ref(n.targets[0]) and norm(n.value) == "True"]
        if not marks:
            rc.fail(j, s.node, "the factor must be marked used where it is assigned (else it is multiplied into several cliques)", construct="mark used")
    _un = {b["_U"] for pat in ("_U = [False] * len(self.factors)", "_U = {__K: False for _f in self.factors}", "_U = [False for _f in self.factors]") for _, b in tm.find_all(j.node, pat)}
    rs = [s for s in sites(j.node, lambda n: isinstance(n, ast.Raise)) if any(any(isinstance(x, ast.Name) and x.id in _un for x in ast.walk(t)) for t, p in s.conds)]
    if not rs:
        rc.fail(j, j.node, "unused factors must be an error (every factor is used)", construct="all used check")
    # (e) potential = unit * product(list)
    prod_sites = [c for c in repo.calls_in(j) if call_name(c) == "factor_product"]
    for c in prod_sites:
        a = c.args[0] if c.args else None
        inner = a.value if isinstance(a, ast.Starred) else a
        rc.ob(f"to_junction_tree: clique potential multiplies {norm(c)}")
        if inner is not None and ("set(" in norm(inner)):
            rc.fail(j, c, "the clique's factors pass through a set before multiplication", construct="junction tree product of a set")
    if not prod_sites:
        rc.fail(j, j.node, "the clique potential must be the product of the factors assigned to the clique", construct="clique product")
    # factor algebra helpers keep multiplicity
    for name in ("factor_product", "factor_sum_product", "factor_divide"):
        h = repo.module(FB).functions.get(name)
        if h is None:
            continue
        for n in walk_no_nested(h.node):
            if isinstance(n, ast.Call) and isinstance(n.func, ast.Name) and n.func.id in ("set", "frozenset") and n.args and dotted(n.args[0]) in ("args", "factors"):
                rc.fail(h, n, f"{name}: `{norm(n)}` merges equal factors (value-based hash/equality)", construct=f"{name} set of factors")
        rc.ob(f"{name}: no value-keyed container of its operands")
    # generic: no value-keyed container of bare factors in any conversion / factor-bookkeeping method of the model classes
    from . import shared as _sh
    targets = []
    for rel in (MN, FG, JT, CG):
        for ci in repo.module(rel).classes.values():
            for m in ci.methods.values():
                if m.name in ("copy", "__init__"):
                    continue
                targets.append((rel, m.qual))
    targets += [(BN, "BayesianNetwork.to_markov_model"), (BN, "BayesianNetwork.to_junction_tree")]
    targets += [(FB, q) for q in ("factor_product", "factor_divide", "factor_sum_product") if q in repo.module(FB).functions]
    _sh.value_keyed_factor_rule(rc, targets)
    # conversions never rebuild a graph from its edge list alone (isolated variables / cliques would vanish)
    _sh.rebuilt_from_edges_rule(rc, (MN, FG, JT, CG, BN), only=lambda f: f.name != "copy")
    # delegations
    for rel, q in ((BN, "BayesianNetwork.to_junction_tree"), (FG, "FactorGraph.to_junction_tree")):
        d = repo.func(rel, q)
        t = norm(d.node, 5000)
        if "self.to_markov_model()" not in t or ".to_junction_tree()" not in t:
            rc.fail(d, d.node, f"{q} must go through the Markov model", construct=f"{q} delegate")
        rc.ob(f"{q} -> to_markov_model().to_junction_tree()")


def _names_from_model(j, sn):
    """the state_names expression reads the model's states (self.states / a local bound to it) or a source factor's state_names"""
    t = norm(sn, 400)
    if "self.states" in t or ".state_names" in t:
        return True
    locs = {b["_S"] for pat in ("_S = self.states", "_S = dict(self.states)", "_S = self.states.copy()") for _, b in tm.find_all(j.node, pat)}
    return any(isinstance(x, ast.Name) and x.id in locs for x in ast.walk(sn))


@rule("C14.statenames", "clique potentials carry the model's state names", floor=1)
def statenames(rc):
    repo = rc.repo
    j = repo.func(MN, "MarkovNetwork.to_junction_tree")
    ctors = [c for c in repo.calls_in(j) if call_name(c) == "DiscreteFactor"]
    if not ctors:
        raise AnalysisError("to_junction_tree: clique potential construction not found")
    for c in ctors:
        sn = kwarg(c, "state_names")
        rc.ob(f"clique potential {norm(c, 120)}")
        if sn is None:
            rc.fail(j, c, "the unit clique potential is created without state names: after multiplication the result's names depend on operand order, and evidence given by "
                    "state name can fail on the clique tree", construct="clique potential without state_names")
        elif not _names_from_model(j, sn):
            rc.fail(j, c, "the clique potential's state names are not the model's", construct="clique potential foreign state_names")
        if "np.ones(" not in norm(c) and "ones(" not in norm(c):
            rc.fail(j, c, "the initial clique potential must be the unit factor", construct="unit potential")


@rule("C14.tree", "clique tree = maximum-sepset-weight spanning tree behind the cycle/sepset guards; moral graph for BN -> MN; triangulation", floor=5)
def tree(rc):
    repo = rc.repo
    j = repo.func(MN, "MarkovNetwork.to_junction_tree")
    st = [c for c in repo.calls_in(j) if call_name(c) in ("minimum_spanning_tree", "maximum_spanning_tree")]
    if len(st) != 1:
        rc.fail(j, j.node, "the clique tree must come from a spanning tree of the clique graph", construct="spanning tree")
    else:
        c = st[0]
        G = dotted(c.args[0]) if c.args else None
        neg = None
        sepw = pairs = False
        from ..util import resolved_fn
        jr = resolved_fn(j)
        for lp in [n for n in walk_no_nested(jr) if isinstance(n, ast.For)]:
            for sign, t in ((-1, "for _e, _w in zip(__E, __W):\n    _G.add_edge(*_e, weight=-_w)"), (1, "for _e, _w in zip(__E, __W):\n    _G.add_edge(*_e, weight=_w)")):
                bl = tm.is_(lp, t, {"_G": G} if G else {})
                if bl is None:
                    continue
                neg = sign == -1
                for wt in ("list(map(lambda _x: len(set(_x[0]).intersection(set(_x[1]))), __E))", "list(map(lambda _x: len(set(_x[0]) & set(_x[1])), __E))",
                           "[len(set(_x[0]).intersection(set(_x[1]))) for _x in __E]", "[len(set(_x[0]) & set(_x[1])) for _x in __E]"):
                    sepw = sepw or tm.is_(bl["__W"], wt, {"__E": bl["__E"]}) is not None
                bE = tm.is_(bl["__E"], "list(itertools.combinations(__C, 2))")
                pairs = bE is not None and tm.is_(bE["__C"], "list(map(tuple, nx.find_cliques(__T)))") is not None
        parity = (1 if call_name(c) == "maximum_spanning_tree" else -1) * (-1 if neg else 1)
        rc.ob(f"clique graph: sepset-size weights {sepw} (negated: {neg}); {call_name(c)} -> parity {parity:+d}; all clique pairs {pairs}")
        if neg is None:
            rc.fail(j, j.node, "the clique graph must get one weighted edge per clique pair", construct="clique graph edges")
        elif not sepw:
            rc.fail(j, j.node, "clique-graph edge weights must be the sepset sizes", construct="sepset weights")
        if neg is not None and parity != 1:
            rc.fail(j, c, "the clique tree must MAXIMISE total sepset size (running-intersection property)", construct="spanning tree parity")
        if neg is not None and not pairs:
            rc.fail(j, j.node, "all pairs of maximal cliques are candidate tree edges", construct="clique pairs")
    if not any(call_name(c) == "find_cliques" for c in repo.calls_in(j)) or not any(call_name(c) == "triangulate" for c in repo.calls_in(j)):
        rc.fail(j, j.node, "cliques must be the maximal cliques of the triangulated graph", construct="cliques of triangulation")
    # guards
    ja = repo.func(JT, "JunctionTree.add_edge")
    if not any(call_name(c) == "has_path" for c in repo.calls_in(ja)):
        rc.fail(ja, ja.node, "JunctionTree.add_edge must reject edges that close a cycle", construct="jt cycle guard")
    ca = repo.func(CG, "ClusterGraph.add_edge")
    if "isdisjoint" not in norm(ca.node, 5000) or not any(isinstance(n, ast.Raise) for n in walk_no_nested(ca.node)):
        rc.fail(ca, ca.node, "ClusterGraph.add_edge must reject cliques with an empty sepset", construct="sepset guard")
    rc.ob("JunctionTree.add_edge cycle guard and ClusterGraph.add_edge sepset guard present")
    jc = repo.func(JT, "JunctionTree.check_model")
    if "is_connected" not in norm(jc.node, 5000):
        rc.fail(jc, jc.node, "a junction tree must be connected", construct="connected check")
    # BN -> MN: moral graph with all nodes
    f = repo.func(BN, "BayesianNetwork.to_markov_model")
    _, bm = tm.find(f.node, "_MG = self.moralize()")
    okm = bm is not None and tm.find(f.node, "_MM = MarkovNetwork(_MG.edges())", bm)[1] is not None
    if okm:
        bm = tm.find(f.node, "_MM = MarkovNetwork(_MG.edges())", bm)[1]
        okm = tm.has(f.node, "_MM.add_nodes_from(_MG.nodes())", bm) and any(dotted(r.value) == bm["_MM"] for r in [n for n in walk_no_nested(f.node) if isinstance(n, ast.Return)])
    rc.ob(f"BN.to_markov_model builds the moral graph with all nodes: {okm}")
    if not okm:
        rc.fail(f, f.node, "BN -> MN must use the moral graph (all its edges and all its nodes)", construct="moral graph")
    # FG -> MN: the scope of every factor becomes a CLIQUE of the Markov network (all pairs), not a path through it
    fg = repo.func(FG, "FactorGraph.to_markov_model")
    adds = [c for c in repo.calls_in(fg) if call_name(c) == "add_edges_from" and c.args]
    if not adds:
        raise AnalysisError("FactorGraph.to_markov_model: edge construction not found")
    for c in adds:
        a0 = c.args[0]
        allp = isinstance(a0, ast.Call) and call_name(a0) == "combinations" and len(a0.args) == 2 and isinstance(a0.args[1], ast.Constant) and a0.args[1].value == 2
        scope_src = allp and any(isinstance(x, ast.Call) and call_name(x) == "scope" for x in ast.walk(deep_resolve(a0.args[0], single_defs(fg)))) if allp else False
        rc.ob(f"FactorGraph.to_markov_model: edges `{norm(a0, 60)}`: all pairs of the factor's scope: {bool(allp and scope_src)}")
        if allp and scope_src:
            continue
        if isinstance(a0, ast.Call) and call_name(a0) in ("pairwise", "zip"):
            rc.fail(fg, c, f"FactorGraph.to_markov_model connects consecutive variables of a scope only (`{norm(a0, 50)}`): a factor over three or more variables becomes a path, its "
                    "scope is no clique of the Markov network (check_model fails, the junction tree cannot host the factor)", construct="factor scope is a clique")
        else:
            raise AnalysisError(f"FactorGraph.to_markov_model: cannot decide whether `{norm(a0, 60)}` yields all pairs of the scope")
    # triangulate
    tr = repo.func(MN, "MarkovNetwork.triangulate")
    early = [s for s in sites(tr.node, lambda n: isinstance(n, ast.Return)) if any(norm(t) == "self.is_triangulated()" and p for t, p in s.conds)]
    other_early = [s for s in sites(tr.node, lambda n: isinstance(n, ast.Return)) if s.node.lineno < tr.node.end_lineno - 12 and not any(norm(t) == "self.is_triangulated()" and p for t, p in s.conds)]
    rc.ob(f"triangulate: early returns under is_triangulated(): {len(early)}; other early returns: {len(other_early)}")
    if other_early:
        rc.fail(tr, other_early[0].node, "triangulate may return early only when the graph is already triangulated", construct="triangulate early return")
    fill = [n for n in walk_no_nested(tr.node) if isinstance(n, ast.For) and "itertools.combinations(graph_copy.neighbors(node), 2)" in norm(n.iter)]
    okf = bool(fill) and "edge_set.add(edge)" in norm(fill[0], 3000) and "graph_copy.add_edge(edge[0], edge[1])" in norm(fill[0], 3000)
    rem = "graph_copy.remove_node(node)" in norm(tr.node, 100000)
    if not (okf and rem):
        rc.fail(tr, tr.node, "eliminating a node must connect all pairs of its remaining neighbours (and record the fill-in edges), then remove it", construct="fill-in")
    res = norm(tr.node, 100000)
    if "MarkovNetwork(self.edges())" not in res or "for edge in edge_set" not in res:
        rc.fail(tr, tr.node, "the triangulated graph must contain the original edges plus all fill-in edges", construct="triangulated edges")
    rc.ob("triangulate: fill-in over all neighbour pairs; result = original edges + fill-in")



def _string_typed(e) -> bool:
    """the expression is a text label: a string literal, an f-string, `str(..)`, `sep.join(..)`, `'..' % ..`, `'..'.format(..)` or a concatenation with one of these"""
    if isinstance(e, ast.Constant):
        return isinstance(e.value, str)
    if isinstance(e, ast.JoinedStr):
        return True
    if isinstance(e, ast.BinOp) and isinstance(e.op, (ast.Add, ast.Mod)):
        return _string_typed(e.left) or _string_typed(e.right)
    if isinstance(e, ast.Call):
        if isinstance(e.func, ast.Name) and e.func.id in ("str", "repr"):
            return True
        if isinstance(e.func, ast.Attribute) and e.func.attr in ("join", "format") and _string_typed(e.func.value):
            return True
    return False


def _fg_node_classes(repo):
    """classes FactorGraph.check_model demands of a factor node: `isinstance(<node>, K)` under an `all(..)` whose failure raises"""
    cm = repo.func(FG, "FactorGraph.check_model")
    out = []
    for s in sites(cm.node, lambda n: isinstance(n, ast.Raise)):
        for t, pol in s.conds:
            for c in ast.walk(t):
                if isinstance(c, ast.Call) and call_name(c) == "isinstance" and len(c.args) == 2:
                    ks = c.args[1].elts if isinstance(c.args[1], ast.Tuple) else [c.args[1]]
                    out.append(([dotted(k) for k in ks], t))
    return cm, out


@rule("C14.fgnodes", "the node a converter adds for a factor is one the target's own validator accepts as a factor node", floor=2)
def fgnodes(rc):
    repo = rc.repo
    cm, req = _fg_node_classes(repo)
    if not req:
        raise AnalysisError("FactorGraph.check_model: the factor-node class test was not found")
    classes = sorted({k for ks, _ in req for k in ks if k})
    rc.ob(f"FactorGraph.check_model: a non-variable node must be an instance of {classes}")
    g = repo.func(MN, "MarkovNetwork.to_factor_graph")
    defs = single_defs(g)
    n_sites = 0
    for s in sites(g.node, lambda n: isinstance(n, ast.Call) and call_name(n) in ("add_edges_from", "add_edge", "add_node", "add_nodes_from")):
        loopv = [dotted(t) for t, it in s.loops if norm(it) in ("self.factors", "self.get_factors()")]
        if not loopv:
            continue
        fv = loopv[-1]
        c = s.node
        # candidate node expressions: operands that are not the variables of the factor's scope
        cands = []
        a0 = deep_resolve(c.args[0], defs) if c.args else None
        if call_name(c) == "add_edges_from" and isinstance(a0, ast.Call) and call_name(a0) == "product" and len(a0.args) == 2:
            for side in a0.args:
                if isinstance(side, (ast.List, ast.Tuple)) and len(side.elts) == 1:
                    cands.append(side.elts[0])
        elif call_name(c) == "add_edges_from" and isinstance(a0, (ast.ListComp, ast.GeneratorExp)) and isinstance(a0.elt, ast.Tuple) and len(a0.elt.elts) == 2:
            gv = {dotted(gen.target) for gen in a0.generators}
            cands += [e for e in a0.elt.elts if dotted(e) not in gv]
        elif call_name(c) == "add_edge" and len(c.args) >= 2:
            sc = {dotted(t) for t, it in s.loops[len(s.loops) - 0:]}
            inner = {dotted(t) for t, it in s.loops if "scope" in norm(deep_resolve(it, defs))}
            cands += [deep_resolve(e, defs) for e in c.args[:2] if dotted(e) not in inner]
        elif call_name(c) == "add_node" and c.args:
            cands.append(a0)
        else:
            raise AnalysisError(f"to_factor_graph: cannot identify the factor node in `{norm(c, 80)}`")
        for e in cands:
            n_sites += 1
            rc.ob(f"to_factor_graph: factor node `{norm(e, 60)}` for `{fv}`")
            if dotted(e) == fv:
                continue
            if _string_typed(e):
                rc.fail(g, c, f"the factor node is the text label `{norm(e, 60)}`, but FactorGraph.check_model accepts only instances of {classes} as non-variable nodes: every "
                        "converted factor graph is rejected by its own validator (check_model, and get_partition_function / to_markov_model / to_junction_tree, which validate "
                        "first), and two factors over the same scope share one node", construct="factor node is a label, validator wants the factor")
            else:
                raise AnalysisError(f"to_factor_graph: cannot decide whether `{norm(e, 60)}` is the factor object")
    if not n_sites:
        raise AnalysisError("to_factor_graph: no factor-node site found in the loop over the model's factors")
    # FG's own editor agrees with the validator: add_factors(replace=True) re-attaches the factor OBJECT
    af = repo.func(FG, "FactorGraph.add_factors")
    for c in calls_named(af, "add_node"):
        loopv = {dotted(t.target) for t in walk_no_nested(af.node) if isinstance(t, ast.For)}
        rc.ob(f"FactorGraph.add_factors: `{norm(c)}`")
        if not c.args or dotted(c.args[0]) not in loopv:
            rc.fail(af, c, "the replacing factor must itself become the factor node", construct="replace: factor node")



@rule("C14.partition", "the partition function multiplies EVERY factor of the model exactly once and sums the product's table (three sibling implementations)", floor=3)
def partition(rc):
    from ..layout import Env, eval_expr
    repo = rc.repo
    for rel, q in ((MN, "MarkovNetwork.get_partition_function"), (FG, "FactorGraph.get_partition_function"), (CG, "ClusterGraph.get_partition_function")):
        f = repo.func(rel, q)
        defs = single_defs(f)
        prods = calls_named(f, "factor_product")
        if len(prods) != 1:
            raise AnalysisError(f"{q}: expected one factor_product call, found {len(prods)}")
        c = prods[0]
        # the running product may be seeded by a local that is re-bound to the product (`factor = self.factors[0]; factor = factor_product(factor, ..)`)
        seeds = {}
        for n in walk_no_nested(f.node):
            if isinstance(n, ast.Assign) and len(n.targets) == 1 and isinstance(n.targets[0], ast.Name) and n.value is not c and n.lineno < c.lineno:
                seeds[n.targets[0].id] = n.value
        bad = None
        for nfac in (1, 2, 3, 5):
            env = Env({"self.factors": list(range(nfac)), "self.get_factors()": list(range(nfac))})
            env["__by_text__"] = {"self.get_factors()": list(range(nfac))}
            got = []
            try:
                for a in c.args:
                    star = isinstance(a, ast.Starred)
                    e = a.value if star else a
                    if isinstance(e, ast.Name) and e.id in seeds:
                        e = seeds[e.id]
                    e = deep_resolve(e, {k: v for k, v in defs.items()})
                    v = eval_expr(e, env)
                    got += list(v) if star else [v]
            except AnalysisError as ex:
                raise AnalysisError(f"{q}: cannot evaluate the operands of `{norm(c, 90)}`: {ex}")
            if sorted(got) != list(range(nfac)):
                bad = (nfac, got)
                break
        rc.ob(f"{q}: `{norm(c, 100)}` multiplies each of n factors once for n in (1, 2, 3, 5): {bad is None}")
        if bad:
            rc.fail(f, c, f"with {bad[0]} factors the product takes the factors at positions {bad[1]} (each position must occur exactly once): the partition function is not "
                    "the sum of the product of all factors", construct="partition function: every factor once")
        # the value returned is the sum over the product's table
        prod_names = {t.id for n in walk_no_nested(f.node) if isinstance(n, ast.Assign) and n.value is c for t in n.targets if isinstance(t, ast.Name)}
        okr = False
        for r in returns_of(f):
            if r.value is None:
                continue
            v = deep_resolve(r.value, {k: d for k, d in defs.items() if k not in prod_names})
            if isinstance(v, ast.Call) and call_name(v) == "sum" and v.args and not kwarg(v, "axis") and len(v.args) == 1:
                a = v.args[0]
                if isinstance(a, ast.Attribute) and a.attr == "values" and (dotted(a.value) in prod_names or a.value is c or (isinstance(a.value, ast.Call) and call_name(a.value) == "factor_product")):
                    okr = True
        if not okr:
            rc.fail(f, f.node, "the partition function must be the plain sum over the table of the product of all factors", construct="partition function: sum of the product")
    it = repo.func("pgmpy/base/UndirectedGraph.py", "UndirectedGraph.is_triangulated")
    rv = [r.value for r in returns_of(it) if r.value is not None]
    okc = len(rv) == 1 and tm.is_(rv[0], "nx.is_chordal(self)") is not None
    rc.ob(f"UndirectedGraph.is_triangulated answers by chordality of the graph itself: {okc}")
    if not okc:
        rc.fail(it, it.node, "is_triangulated gates the early return of triangulate(): it must be exactly chordality of this graph", construct="is_triangulated = chordal")


_ASSIGN = "                if not is_used[index] and set(factor.scope()).issubset(node):\n                    clique_factors.append(factor)\n                    is_used[index] = True"


@rule("C14.defuse", "anchored files: no parameter is accepted and ignored (generic def-use detector, triaged exemptions)", floor=2)
def defuse(rc):
    from . import shared as _sh
    _sh.defuse_rule(rc, _sh.anchor_files("C14"))

MUTANTS = [
    dict(kind="break", name="factor-scope-path-not-clique", file=FG, expect="C14.tree",
         old="            mm.add_edges_from(itertools.combinations(scope, 2))", new="            mm.add_edges_from(zip(scope, scope[1:]))"),
    dict(kind="break", name="jt-bookkeeping-by-value", file=MN, expect="C14.once",
         old="        is_used = [False] * len(self.factors)\n", new="        is_used = {factor: False for factor in self.factors}\n"),
    dict(kind="break", name="jt-factor-reused", file=MN, expect="C14.once",
         old=_ASSIGN, new=_ASSIGN.replace("if not is_used[index] and set", "if set")),
    dict(kind="break", name="jt-not-marked-used", file=MN, expect="C14.once",
         old=_ASSIGN, new=_ASSIGN.replace("\n                    is_used[index] = True", "")),
    dict(kind="break", name="jt-product-of-set", file=MN, expect="C14.once",
         old="clique_potential *= factor_product(*clique_factors)", new="clique_potential *= factor_product(*set(clique_factors))"),
    dict(kind="break", name="bn-to-mn-set", file=BN, expect="C14.once",
         old="mm.add_factors(*[cpd.to_factor() for cpd in self.cpds])", new="mm.add_factors(*set(cpd.to_factor() for cpd in self.cpds))"),
    dict(kind="break", name="fg-to-mn-skips-duplicates", file=FG, expect="C14.once",
         old="            mm.add_edges_from(itertools.combinations(scope, 2))\n            mm.add_factors(factor)", new="            mm.add_edges_from(itertools.combinations(scope, 2))\n            if factor not in mm.factors:\n                mm.add_factors(factor)"),
    dict(kind="break", name="factor-sum-product-set", file=FB, expect="C14.once",
         old="    state_names = {}\n    for phi in factors:", new="    factors = set(factors)\n    state_names = {}\n    for phi in factors:"),
    dict(kind="break", name="jt-potential-without-names", file=MN, expect="C14.statenames",
         old="                np.ones(np.prod(var_card)),\n                state_names={\n                    var: states.get(var, list(range(card)))\n                    for var, card in zip(node, var_card)\n                },\n", new="                np.ones(np.prod(var_card)),\n"),
    dict(kind="break", name="jt-minimum-sepset-tree", file=MN, expect="C14.tree",
         old="complete_graph.add_edge(*edge, weight=-weight)", new="complete_graph.add_edge(*edge, weight=weight)"),
    dict(kind="break", name="bn-to-mn-drops-isolated", file=BN, expect="C14.tree",
         old="        mm.add_nodes_from(moral_graph.nodes())\n", new=""),
    dict(kind="break", name="partition-skips-last-factor", file=MN, expect="C14.partition",
         old="factor, *[self.factors[i] for i in range(1, len(self.factors))]\n        )\n        if set(factor.scope()) != set(self.nodes())",
         new="factor, *[self.factors[i] for i in range(1, len(self.factors) - 1)]\n        )\n        if set(factor.scope()) != set(self.nodes())"),
    dict(kind="break", name="partition-first-factor-twice", file=FG, expect="C14.partition",
         old="factor, *[self.factors[i] for i in range(1, len(self.factors))]\n        )\n        if set(factor.scope()) != set(self.get_variable_nodes())",
         new="factor, *[self.factors[i] for i in range(0, len(self.factors))]\n        )\n        if set(factor.scope()) != set(self.get_variable_nodes())"),
    dict(kind="break", name="partition-max-instead-of-sum", file=CG, expect="C14.partition",
         old="            return compat_fns.sum(factor.values)", new="            return compat_fns.max(factor.values)"),
    dict(kind="twin", name="partition-star-all", file=MN,
         old="        factor = self.factors[0]\n        factor = factor_product(\n            factor, *[self.factors[i] for i in range(1, len(self.factors))]\n        )\n        if set(factor.scope()) != set(self.nodes())",
         new="        factor = factor_product(*self.factors)\n        if set(factor.scope()) != set(self.nodes())"),
    dict(kind="twin", name="partition-slice", file=MN,
         old="factor, *[self.factors[i] for i in range(1, len(self.factors))]\n        )\n        if set(factor.scope()) != set(self.nodes())",
         new="factor, *self.factors[1:]\n        )\n        if set(factor.scope()) != set(self.nodes())"),
    dict(kind="repair", name="fg-node-is-the-factor", file=MN, gone="C14.fgnodes", construct="factor node is a label, validator wants the factor",
         old='            factor_node = "phi_" + "_".join(scope)\n', new="            factor_node = factor\n"),
    dict(kind="twin", name="jt-usage-by-id", file=MN,
         old="        is_used = [False] * len(self.factors)\n", new="        is_used = [False for _ in self.factors]\n"),
]
