"""C11 — score-based structure search honours its contract."""
from __future__ import annotations

import ast

from ..core import AnalysisError, call_name, dotted, kwarg, norm, walk_no_nested
from ..guards import A, And, F, Not, Or, T, atoms_of, equivalent, implies, path_formula, show_formula, sites, to_formula
from ..registry import describe, rule
from .. import tmatch as tm
from ..util import assigned_value, calls_named, is_method_call, peel, resolve, returns_of, const_str

HC = "pgmpy/estimators/HillClimbSearch.py"
TS = "pgmpy/estimators/TreeSearch.py"
ES = "pgmpy/estimators/ExhaustiveSearch.py"

describe(
    "C11",
    "every move HillClimbSearch._legal_operations generates is legal (path condition of each yield compared with the "
    "contract as a formula over {creates-cycle, black/white/fixed list membership, tabu, in-degree bound, edge present} by "
    "exhaustive valuation) and every legal move is generated; the score delta of a move is the difference of local scores on "
    "exactly the families it changes plus the prior ratio; estimate() forwards the option lists to the right parameters, "
    "takes the arg-max by delta, stops exactly when no move gains epsilon, applies the matching graph edit per move tag, "
    "inserts fixed edges before the loop and rejects a cyclic start; Chow-Liu uses a maximum spanning tree directed by BFS "
    "from the root; exhaustive search enumerates both orientations of every pair, filters by acyclicity and takes the max score.",
    ["that the returned graph is a local/global optimum of the numeric score", "score monotonicity along the run", "the scores' values"],
)


def _parents_desc(e, defs, model):
    """('pa', T) | ('pa+', T, S) | ('pa-', T, S) for expressions denoting parent lists of the current model."""
    e = resolve(e, defs)
    e0 = peel(e)
    if isinstance(e0, ast.Call) and call_name(e0) in ("get_parents", "predecessors") and dotted(e0.func.value) == model and len(e0.args) == 1 \
            and isinstance(e0.args[0], ast.Name):
        return ("pa", e0.args[0].id)
    if isinstance(e, ast.BinOp) and isinstance(e.op, ast.Add):
        l = _parents_desc(e.left, defs, model)
        r = e.right
        if l and l[0] == "pa" and isinstance(r, ast.List) and len(r.elts) == 1 and isinstance(r.elts[0], ast.Name):
            return ("pa+", l[1], r.elts[0].id)
        r2 = _parents_desc(e.right, defs, model)
        if r2 and r2[0] == "pa" and isinstance(e.left, ast.List) and len(e.left.elts) == 1 and isinstance(e.left.elts[0], ast.Name):
            return ("pa+", r2[1], e.left.elts[0].id)
    if isinstance(e, ast.ListComp) and len(e.generators) == 1:
        g = e.generators[0]
        src = _parents_desc(g.iter, defs, model)
        if src and src[0] == "pa" and isinstance(g.target, ast.Name) and dotted(e.elt) == g.target.id and len(g.ifs) == 1:
            c = g.ifs[0]
            if isinstance(c, ast.Compare) and isinstance(c.ops[0], ast.NotEq):
                names = {dotted(c.left), dotted(c.comparators[0])}
                if g.target.id in names:
                    other = (names - {g.target.id})
                    if len(other) == 1:
                        return ("pa-", src[1], other.pop())
    return None


def _op_of(site, defs):
    """tag, (a, b) of the yielded operation"""
    y = site.node.value
    if not (isinstance(y, ast.Tuple) and len(y.elts) == 2):
        return None
    op = resolve(y.elts[0], defs)
    if isinstance(op, ast.Tuple) and len(op.elts) == 2 and isinstance(op.elts[0], ast.Constant) and isinstance(op.elts[1], ast.Tuple) \
            and len(op.elts[1].elts) == 2 and all(isinstance(x, ast.Name) for x in op.elts[1].elts):
        return op.elts[0].value, (op.elts[1].elts[0].id, op.elts[1].elts[1].id), y.elts[0], y.elts[1]
    return None


def _linear_terms(fn, name, site_node):
    """signed leaf terms of local `name` at `site_node`, following `name = e` and `name += e` in source order
    within the statements that precede the site in its own block chain."""
    # collect the assignments that dominate the site textually within the same innermost blocks
    chain = []
    n = site_node
    while n is not fn:
        p = n._parent
        for fld in ("body", "orelse", "finalbody"):
            blk = getattr(p, fld, None)
            if isinstance(blk, list) and any(x is n for x in blk):
                idx = [i for i, x in enumerate(blk) if x is n][0]
                chain.append(blk[:idx])
        n = p
    stmts = [st for blk in reversed(chain) for st in blk]
    terms = None
    for st in stmts:
        if isinstance(st, ast.Assign) and len(st.targets) == 1 and dotted(st.targets[0]) == name:
            terms = _split(st.value, +1)
        elif isinstance(st, ast.AugAssign) and dotted(st.target) == name and terms is not None:
            if isinstance(st.op, ast.Add):
                terms += _split(st.value, +1)
            elif isinstance(st.op, ast.Sub):
                terms += _split(st.value, -1)
            else:
                return None
    return terms


def _split(e, sign):
    if isinstance(e, ast.BinOp) and isinstance(e.op, ast.Add):
        return _split(e.left, sign) + _split(e.right, sign)
    if isinstance(e, ast.BinOp) and isinstance(e.op, ast.Sub):
        return _split(e.left, sign) + _split(e.right, -sign)
    if isinstance(e, ast.UnaryOp) and isinstance(e.op, ast.USub):
        return _split(e.operand, -sign)
    return [(sign, e)]


@rule("C11.legal", "legality table and score delta of every move generated by HillClimbSearch._legal_operations", floor=3)
def legal(rc):
    fi = rc.repo.func(HC, "HillClimbSearch._legal_operations")
    fn = fi.node
    p = fi.params
    want_params = ["model", "score", "structure_score", "tabu_list", "max_indegree", "black_list", "white_list", "fixed_edges"]
    if p[1:] != want_params:
        raise AnalysisError(f"_legal_operations parameters changed: {p}")
    model, score, prior, tabu, maxin, black, white, fixed = p[1:]
    ys = sites(fn, lambda n: isinstance(n, ast.Yield))
    if not ys:
        raise AnalysisError("_legal_operations yields nothing")
    by_tag = {}
    for s in ys:
        defs = s.defs
        op = _op_of(s, defs)
        if op is None:
            raise AnalysisError("cannot read the yielded operation of " + norm(s.node))
        tag, (a, b), op_expr, delta_expr = op

        def pair_of(e):
            e = resolve(e, defs)
            if isinstance(e, ast.Tuple) and len(e.elts) == 2 and all(isinstance(x, ast.Name) for x in e.elts):
                return (e.elts[0].id, e.elts[1].id)
            return None

        def opkey(e):
            e2 = resolve(e, defs)
            if isinstance(e2, ast.Tuple) and len(e2.elts) == 2 and isinstance(e2.elts[0], ast.Constant):
                pr = pair_of(e2.elts[1])
                if pr:
                    return (e2.elts[0].value, pr)
            return None

        def atomize(e):
            if isinstance(e, ast.Call) and call_name(e) == "has_path" and len(e.args) == 3 and dotted(e.args[0]) == model:
                return A(("path", dotted(e.args[1]), dotted(e.args[2])))
            if isinstance(e, ast.Call) and call_name(e) == "any" and e.args:
                inner = e.args[0]
                # any(map(lambda path: len(path) > 2, nx.all_simple_paths(model, X, Y)))  /  any(len(p) > 2 for p in ...)
                src = test = var = None
                if isinstance(inner, ast.Call) and call_name(inner) == "map" and len(inner.args) == 2 and isinstance(inner.args[0], ast.Lambda):
                    lam = inner.args[0]
                    var = lam.args.args[0].arg
                    test, src = lam.body, inner.args[1]
                elif isinstance(inner, (ast.GeneratorExp, ast.ListComp)) and len(inner.generators) == 1 and not inner.generators[0].ifs:
                    var = dotted(inner.generators[0].target)
                    test, src = inner.elt, inner.generators[0].iter
                if src is not None and isinstance(src, ast.Call) and call_name(src) == "all_simple_paths" and (len(src.args) > 3 or kwarg(src, "cutoff") is not None):
                    # a bounded path search does not decide "there is another directed path"
                    return A(("?bounded-path-search", norm(src, 80)))
                if src is not None and isinstance(src, ast.Call) and call_name(src) == "all_simple_paths" and len(src.args) >= 3 \
                        and dotted(src.args[0]) == model and isinstance(test, ast.Compare) and len(test.ops) == 1 \
                        and isinstance(test.left, ast.Call) and call_name(test.left) == "len" and dotted(test.left.args[0]) == var \
                        and isinstance(test.comparators[0], ast.Constant):
                    k = test.comparators[0].value
                    longer = (isinstance(test.ops[0], ast.Gt) and k == 2) or (isinstance(test.ops[0], ast.GtE) and k == 3) \
                        or (isinstance(test.ops[0], ast.NotEq) and k == 2)
                    if longer:
                        return A(("otherpath", dotted(src.args[1]), dotted(src.args[2])))
                    return A(("?pathlen", norm(test)))
            if isinstance(e, ast.Compare) and len(e.ops) == 1 and isinstance(e.ops[0], ast.In):
                l, r = e.left, dotted(e.comparators[0])
                if r == tabu:
                    k = opkey(l)
                    if k:
                        return A(("tabu", k))
                pr = pair_of(l)
                if pr and r in (black, white, fixed):
                    return A(({black: "black", white: "white", fixed: "fixed"}[r], pr))
                rr = peel(e.comparators[0])
                if pr and isinstance(rr, ast.Call) and call_name(rr) == "edges" and dotted(rr.func.value) == model:
                    return A(("edge", pr))
            if isinstance(e, ast.Compare) and len(e.ops) == 1 and isinstance(e.ops[0], (ast.LtE, ast.Lt, ast.Gt, ast.GtE)):
                l, r, o = e.left, e.comparators[0], e.ops[0]
                if dotted(l) == maxin:
                    l, r = r, l
                    o = {ast.Gt: ast.Lt, ast.GtE: ast.LtE, ast.Lt: ast.Gt, ast.LtE: ast.GtE}[type(o)]()
                if dotted(r) == maxin and isinstance(o, (ast.Lt, ast.LtE)):
                    size = _size(l, defs, model)
                    if size is not None:
                        T_, S_, k = size
                        c = k + (1 if isinstance(o, ast.Lt) else 0)
                        # |pa(T)| + c <= max_indegree
                        return A(("indeg", T_, c))
            return None

        f = path_formula(s, atomize)
        # loop source of (a, b)
        src_parts = []
        for t, it in s.loops:
            if isinstance(t, ast.Tuple) and [dotted(x) for x in t.elts] == [a, b]:
                src_parts.append(_pair_membership(it, (a, b), defs, model, fi))
            elif isinstance(t, ast.Tuple) and [dotted(x) for x in t.elts] == [b, a]:
                src_parts.append(_pair_membership(it, (b, a), defs, model, fi))
        if None in src_parts or not src_parts:
            raise AnalysisError("cannot read the iteration source of the move " + norm(s.node))
        f = And(f, *src_parts)
        rc.ob(f"yield {tag!r} ({a},{b}) under {show_formula(f)}")
        by_tag.setdefault(tag, []).append((s, a, b, f))

        # ---- score delta
        dname = dotted(delta_expr)
        terms = _linear_terms(fn, dname, s.stmt) if dname else None
        if terms is None:
            rc.fail(fi, s.node, "cannot read the score delta as a sum of local-score terms", construct=f"delta {tag}")
            continue
        got = []
        bad = False
        for sign, t in terms:
            if isinstance(t, ast.Call) and dotted(t.func) == score and len(t.args) == 2:
                d = _parents_desc(t.args[1], defs, model)
                got.append((sign, "score", dotted(t.args[0]), d))
                if d is None:
                    bad = True
            elif isinstance(t, ast.Call) and dotted(t.func) == prior and len(t.args) == 1 and isinstance(t.args[0], ast.Constant):
                got.append((sign, "prior", t.args[0].value, None))
            else:
                got.append((sign, "other", norm(t), None))
                bad = True
        ref = {
            "+": [(+1, "score", b, ("pa+", b, a)), (-1, "score", b, ("pa", b)), (+1, "prior", "+", None)],
            "-": [(+1, "score", b, ("pa-", b, a)), (-1, "score", b, ("pa", b)), (+1, "prior", "-", None)],
            "flip": [(+1, "score", a, ("pa+", a, b)), (+1, "score", b, ("pa-", b, a)), (-1, "score", a, ("pa", a)),
                     (-1, "score", b, ("pa", b)), (+1, "prior", "flip", None)],
        }.get(tag)
        rc.ob(f"delta of {tag!r}: {got}")
        if ref is None:
            rc.fail(fi, s.node, f"unknown move tag {tag!r}")
        elif bad or sorted(map(repr, got)) != sorted(map(repr, ref)):
            rc.fail(fi, s.node, f"score delta of move {tag!r} ({a},{b}) must be the local-score difference on exactly the changed families plus "
                    f"the structure prior ratio: expected {ref}, found {got}", construct=f"delta {tag}")

    # ---- legality tables
    for tag in ("+", "-", "flip"):
        if tag not in by_tag:
            rc.fail(fi, fn, f"moves of kind {tag!r} are never generated", construct=f"missing {tag}")
    for tag, lst in by_tag.items():
        for s, a, b, f in lst:
            opq = [x for x in atoms_of(f) if (isinstance(x, str) and x.startswith("?")) or (isinstance(x, tuple) and str(x[0]).startswith("?"))]
            if tag == "+":
                req = And(Not(A(("path", b, a))), Not(A(("tabu", ("+", (a, b))))), Not(A(("black", (a, b)))), A(("white", (a, b))), A(("indeg", b, 1)))
                opt = And(Not(A(("edge", (a, b)))), Not(A(("edge", (b, a)))))
            elif tag == "-":
                req = And(A(("edge", (a, b))), Not(A(("fixed", (a, b)))), Not(A(("tabu", ("-", (a, b))))))
                opt = T
            elif tag == "flip":
                req = And(A(("edge", (a, b))), Not(A(("otherpath", a, b))), Not(A(("fixed", (a, b)))), Not(A(("black", (b, a)))),
                          A(("white", (b, a))), A(("indeg", a, 1)), Not(A(("tabu", ("flip", (a, b))))))
                opt = Not(A(("tabu", ("flip", (b, a)))))
            else:
                continue
            if opq:
                rc.fail(fi, s.node, f"move {tag!r} depends on a condition outside the contract: {opq}", construct=f"legality {tag}")
                continue
            ok1, cx1, r1 = implies(f, req)
            ok2, cx2, r2 = implies(And(req, opt), f)
            rc.report.rows += r1 + r2
            if not ok1:
                conj = req[1]
                missing = [show_formula(c) for c in conj if not implies(f, c)[0]]
                rc.fail(fi, s.node, f"an illegal move {tag!r} ({a},{b}) can be generated: missing side condition(s) {missing}",
                        construct=f"legality {tag}", condition=show_formula(f))
            elif not ok2:
                rc.fail(fi, s.node, f"some legal moves {tag!r} are never generated (condition {show_formula(f)} is stricter than the contract "
                        f"{show_formula(And(req, opt))}; e.g. {cx2})", construct=f"completeness {tag}")
    rc.report.exhaustive = True


def _all_defs(fn):
    d = {}
    for n in walk_no_nested(fn):
        if isinstance(n, ast.Assign) and len(n.targets) == 1 and isinstance(n.targets[0], ast.Name):
            d.setdefault(n.targets[0].id, []).append(n.value)
    return {k: v[0] for k, v in d.items() if len({norm(x) for x in v}) == 1}


def _size(e, defs, model):
    """len(parents(T) + [S]) -> (T, S, 1);  len(parents(T)) -> (T, None, 0);  len(x) + k"""
    k = 0
    if isinstance(e, ast.BinOp) and isinstance(e.op, ast.Add) and isinstance(e.right, ast.Constant) and isinstance(e.right.value, int):
        k = e.right.value
        e = e.left
    if isinstance(e, ast.Call) and call_name(e) == "len" and len(e.args) == 1:
        d = _parents_desc(e.args[0], defs, model)
        if d is None:
            return None
        if d[0] == "pa":
            return (d[1], None, k)
        if d[0] == "pa+":
            return (d[1], d[2], k + 1)
    return None


def _pair_membership(it, pair, defs, model, fi, depth=0):
    """formula for (a, b) ∈ it   over atoms edge((a,b))"""
    a, b = pair
    e = it
    if isinstance(e, ast.Name):
        if e.id in defs:
            return _pair_membership(defs[e.id], pair, defs, model, fi, depth + 1)
        vals = assigned_value(fi, e.id)
        if len(vals) == 1:
            return _pair_membership(vals[0], pair, defs, model, fi, depth + 1)
        return None
    if isinstance(e, ast.Call) and isinstance(e.func, ast.Name) and e.func.id in ("set", "list", "tuple") and len(e.args) == 1:
        return _pair_membership(e.args[0], pair, defs, model, fi, depth + 1)
    if isinstance(e, ast.BinOp) and isinstance(e.op, (ast.Sub, ast.BitAnd, ast.BitOr)):
        l = _pair_membership(e.left, pair, defs, model, fi, depth + 1)
        r = _pair_membership(e.right, pair, defs, model, fi, depth + 1)
        if l is None or r is None:
            return None
        return And(l, Not(r)) if isinstance(e.op, ast.Sub) else (And(l, r) if isinstance(e.op, ast.BitAnd) else Or(l, r))
    if isinstance(e, ast.Call) and call_name(e) == "edges" and dotted(e.func.value) == model:
        return A(("edge", (a, b)))
    if isinstance(e, ast.Call) and call_name(e) in ("permutations",) and len(e.args) == 2 and isinstance(e.args[1], ast.Constant) and e.args[1].value == 2:
        return T  # all ordered pairs of distinct variables
    if isinstance(e, (ast.ListComp, ast.SetComp, ast.GeneratorExp)) and len(e.generators) == 1 and not e.generators[0].ifs:
        g = e.generators[0]
        if isinstance(e.elt, ast.Tuple) and isinstance(g.target, ast.Tuple) and len(e.elt.elts) == 2 and len(g.target.elts) == 2:
            tn = [dotted(x) for x in g.target.elts]
            en = [dotted(x) for x in e.elt.elts]
            if en == tn[::-1]:
                return _pair_membership(g.iter, (b, a), defs, model, fi, depth + 1)
            if en == tn:
                return _pair_membership(g.iter, (a, b), defs, model, fi, depth + 1)
    return None


# ------------------------------------------------------------------------------------------------
def _anc(n):
    p_ = getattr(n, "_parent", None)
    while p_ is not None:
        yield p_
        p_ = getattr(p_, "_parent", None)


@rule("C11.apply", "estimate() forwards options, takes the arg-max, stops when no move gains epsilon, and applies the matching edit per tag", floor=6)
def apply(rc):
    repo = rc.repo
    fi = repo.func(HC, "HillClimbSearch.estimate")
    lo = repo.func(HC, "HillClimbSearch._legal_operations")
    fn = fi.node
    calls = calls_named(fi, "_legal_operations")
    if len(calls) != 1:
        raise AnalysisError("estimate: expected one call of _legal_operations")
    c = calls[0]
    formal = lo.params[1:]
    actual = {}
    for i, a in enumerate(c.args):
        actual[formal[i]] = a
    for k in c.keywords:
        actual[k.arg] = k.value
    for name in ("tabu_list", "max_indegree", "black_list", "white_list", "fixed_edges"):
        got = dotted(actual.get(name)) if name in actual else None
        rc.ob(f"_legal_operations({name}={got})")
        if name == "tabu_list" and name not in fi.params:
            # a local of estimate(): the bounded deque of this call
            okt = got is not None and tm.has(fn, "_T = deque(maxlen=tabu_length)", {"_T": got})
            if not okt:
                rc.fail(fi, c, f"option `{name}` of estimate() must reach the parameter `{name}` of _legal_operations (got {got})", construct=f"forward {name}")
            continue
        if got != name:
            rc.fail(fi, c, f"option `{name}` of estimate() must reach the parameter `{name}` of _legal_operations (got {got})", construct=f"forward {name}")
    # the named scores are built for the estimator's declared state names (HillClimbSearch(data, state_names=...))
    for c_ in [x for x in ast.walk(fn) if isinstance(x, ast.Call) and isinstance(x.func, ast.Subscript) and "supported_methods" in norm(x.func.value)]:
        sn_ = kwarg(c_, "state_names")
        rc.ob(f"named score built as {norm(c_, 90)}")
        if norm(kwarg(c_, "data") or ast.Constant(value=None)) != "self.data":
            rc.fail(fi, c_, "the named score must be computed on the estimator's data", construct="score data")
        if sn_ is None or norm(sn_) != "self.state_names":
            # Gaussian scores take no state names: accept a guarded call without them only under a test on the method's name
            par_if = [p_ for p_ in _anc(c_) if isinstance(p_, ast.If)]
            def _in_gauss(p_):
                t_, neg_ = p_.test, False
                while isinstance(t_, ast.UnaryOp) and isinstance(t_.op, ast.Not):
                    t_, neg_ = t_.operand, not neg_
                if "-g" not in norm(t_):
                    return False
                if isinstance(t_, ast.Compare) and isinstance(t_.ops[0], (ast.NotIn, ast.NotEq)):
                    neg_ = not neg_
                branch = p_.orelse if neg_ else p_.body
                return any(x is c_ for st_ in branch for x in ast.walk(st_))
            gauss_branch = any(_in_gauss(p_) for p_ in par_if)
            if not gauss_branch:
                rc.fail(fi, c_, "the named score is built without the estimator's declared `state_names`: states that are declared but absent from the data are not counted, "
                        "and the search result is not a local optimum for the declared state spaces", construct="score state_names")
    if "structure_score" in actual and not norm(actual["structure_score"]).endswith("structure_prior_ratio"):
        rc.fail(fi, c, "the structure prior ratio of the score must be passed as structure_score", construct="forward prior")
    model_var = dotted(actual.get("model"))
    # the local-score function must belong to the score object of THIS call (directly or through a cache built in this call)
    sname = dotted(actual.get("score"))
    score_obj = None
    pr = actual.get("structure_score")
    if pr is not None and isinstance(pr, ast.Attribute):
        score_obj = dotted(pr.value)
    defs = [n.value for n in walk_no_nested(fn) if isinstance(n, ast.Assign) and dotted(n.targets[0]) == sname]
    for d in defs:
        okd = False
        if isinstance(d, ast.Attribute) and d.attr == "local_score":
            base = d.value
            if dotted(base) == score_obj:
                okd = True
            elif isinstance(base, ast.Call) and call_name(base) == "ScoreCache" and base.args and dotted(base.args[0]) == score_obj:
                okd = True
            elif isinstance(base, ast.Name):
                cd = [n.value for n in walk_no_nested(fn) if isinstance(n, ast.Assign) and dotted(n.targets[0]) == base.id]
                okd = bool(cd) and all(isinstance(x, ast.Call) and call_name(x) == "ScoreCache" and x.args and dotted(x.args[0]) == score_obj for x in cd)
        rc.ob(f"local-score function {sname} = {norm(d)} (bound to this call's score `{score_obj}`: {okd})")
        if not okd:
            rc.fail(fi, d, f"the local-score function used by the search must come from this call's score object `{score_obj}` (or a cache built around it in this call); "
                    f"`{norm(d)}` can carry scores of an earlier call with other data/hyper-parameters", construct=f"score function {norm(d, 80)}")
    if not defs:
        rc.fail(fi, c, "cannot find where the local-score function is bound", construct="score function binding")
    # arg-max by delta
    par = getattr(c, "_parent", None)
    if not (isinstance(par, ast.Call) and call_name(par) == "max"):
        rc.fail(fi, c, "the applied move must be the max over the legal operations", construct="argmax")
    else:
        key = kwarg(par, "key")
        okk = isinstance(key, ast.Lambda) and isinstance(key.body, ast.Subscript) and isinstance(key.body.slice, ast.Constant) and key.body.slice.value == 1
        rc.ob(f"selection {norm(par.func)}(…, key={norm(key) if key is not None else None})")
        if not okk:
            rc.fail(fi, par, "moves must be compared by their score delta (element 1 of the yielded pair)", construct="argmax key")
    # names of (best_operation, best_delta)
    assign = getattr(par, "_parent", None) if isinstance(par, ast.Call) else None
    if not (isinstance(assign, ast.Assign) and isinstance(assign.targets[0], ast.Tuple)):
        raise AnalysisError("estimate: cannot find `best_operation, best_score_delta = max(...)`")
    opv, dv = (dotted(x) for x in assign.targets[0].elts)
    eps = "epsilon"

    def atomize(e):
        if isinstance(e, ast.Compare) and len(e.ops) == 1:
            l, o, r = e.left, e.ops[0], e.comparators[0]
            if isinstance(o, ast.Is) and dotted(l) == opv and isinstance(r, ast.Constant) and r.value is None:
                return A("none")
            if isinstance(o, ast.Eq) and isinstance(l, ast.Subscript) and dotted(l.value) == opv and isinstance(r, ast.Constant):
                return A(("tag", r.value))
            if {dotted(l), dotted(r)} == {dv, eps}:
                if dotted(l) == eps:
                    o = {ast.Gt: ast.Lt, ast.GtE: ast.LtE, ast.Lt: ast.Gt, ast.LtE: ast.GtE}.get(type(o), type(o))()
                if isinstance(o, ast.Lt):
                    return A("delta<eps")
                if isinstance(o, ast.GtE):
                    return Not(A("delta<eps"))
                return A(("?cmp", norm(e)))
        return None

    loop = None
    for n in walk_no_nested(fn):
        if isinstance(n, ast.For) and any(x is c for x in ast.walk(n)):
            loop = n
    if loop is None:
        raise AnalysisError("estimate: search loop not found")
    brk = [s for s in sites(fn, lambda n: False)]
    stops = []
    # collect break statements in the loop
    def collect(stmts, conds):
        from ..guards import terminates
        conds = list(conds)
        for st in stmts:
            if isinstance(st, ast.Break):
                stops.append(list(conds))
            elif isinstance(st, ast.If):
                collect(st.body, conds + [(st.test, True)])
                collect(st.orelse, conds + [(st.test, False)])
                if terminates(st.body) and not terminates(st.orelse):
                    conds.append((st.test, False))
    collect(loop.body, [])
    stopf = Or(*[And(*[(to_formula(t, atomize) if pol else Not(to_formula(t, atomize))) for t, pol in cs]) for cs in stops]) if stops else F
    rc.ob(f"search stops under {show_formula(stopf)}")
    ok, cx, rows = equivalent(stopf, Or(A("none"), A("delta<eps")))
    rc.report.rows += rows
    if not ok:
        rc.fail(fi, loop, f"the search must stop exactly when no legal move exists or the best delta is < epsilon; it stops under {show_formula(stopf)}",
                construct="stop condition")
    # handlers per tag
    edits = sites(fn, lambda n: isinstance(n, ast.Call) and call_name(n) in ("add_edge", "remove_edge") and dotted(n.func.value) == model_var
                  and any(x is n for x in ast.walk(loop)))
    handled = {}
    for s in edits:
        f = path_formula(s, atomize)
        tags = [a[1] for a in atoms_of(f) if isinstance(a, tuple) and a[0] == "tag" and implies(f, A(a))[0]]
        if len(tags) != 1:
            rc.fail(fi, s.node, "a graph edit in the search loop is not tied to exactly one move tag")
            continue
        # which edge?
        args = s.node.args
        if len(args) == 1 and isinstance(args[0], ast.Starred) and isinstance(args[0].value, ast.Subscript) and dotted(args[0].value.value) == opv \
                and isinstance(args[0].value.slice, ast.Constant) and args[0].value.slice.value == 1:
            edge = "fwd"
        elif len(args) == 2 and all(isinstance(a, ast.Name) for a in args):
            # X, Y = best_operation[1]
            names = [a.id for a in args]
            unpack = None
            for n in ast.walk(loop):
                if isinstance(n, ast.Assign) and isinstance(n.targets[0], ast.Tuple) and isinstance(n.value, ast.Subscript) and dotted(n.value.value) == opv:
                    unpack = [dotted(x) for x in n.targets[0].elts]
            edge = "fwd" if names == unpack else ("rev" if unpack and names == unpack[::-1] else "?")
        else:
            edge = "?"
        handled.setdefault(tags[0], []).append((call_name(s.node), edge))
        rc.ob(f"handler {tags[0]!r}: {call_name(s.node)} {edge}")
    want = {"+": [("add_edge", "fwd")], "-": [("remove_edge", "fwd")], "flip": [("remove_edge", "fwd"), ("add_edge", "rev")]}
    lo_tags = set()
    for s in sites(lo.node, lambda n: isinstance(n, ast.Yield)):
        op = _op_of(s, s.defs)
        if op:
            lo_tags.add(op[0])
    for tag in sorted(lo_tags | set(want)):
        if sorted(handled.get(tag, [])) != sorted(want.get(tag, [("?", "?")])):
            rc.fail(fi, loop, f"move {tag!r} must be applied as {want.get(tag)}; estimate() does {handled.get(tag)}", construct=f"handler {tag}")
    rets = returns_of(fi)
    if not rets or dotted(rets[-1].value) != model_var:
        rc.fail(fi, fn, "estimate must return the searched model", construct="return")


@rule("C11.seed", "fixed edges are inserted before the search, a cyclic start is rejected, option defaults are the neutral elements", floor=4)
def seed(rc):
    fi = rc.repo.func(HC, "HillClimbSearch.estimate")
    fn = fi.node
    adds = [s for s in sites(fn, lambda n: is_method_call(n, ("add_edges_from",)) and n.args and dotted(n.args[0]) == "fixed_edges")]
    rc.ob(f"fixed edges inserted: {[norm(s.node) for s in adds]}")
    if not adds:
        rc.fail(fi, fn, "fixed edges must be added to the start graph", construct="insert fixed edges")
    # acyclicity check with raise after insertion
    chk = [s for s in sites(fn, lambda n: isinstance(n, ast.Raise)) if any(
        isinstance(t, ast.Call) and call_name(t) == "is_directed_acyclic_graph" and not pol
        for t, pol in s.conds)]
    rc.ob(f"cyclic start rejected: {bool(chk)}")
    if not chk:
        rc.fail(fi, fn, "a start graph that is cyclic after inserting the fixed edges must be rejected", construct="acyclicity check")
    elif adds and chk[0].node.lineno < adds[0].node.lineno:
        rc.fail(fi, chk[0].node, "acyclicity must be tested after the fixed edges are inserted")
    # defaults
    d = {}
    for n in walk_no_nested(fn):
        if isinstance(n, ast.Assign) and isinstance(n.targets[0], ast.Name):
            d.setdefault(n.targets[0].id, []).append(n)
    bl = [n for n in d.get("black_list", [])]
    wl = [n for n in d.get("white_list", [])]
    rc.ob(f"black_list default: {[norm(n.value) for n in bl]}")
    rc.ob(f"white_list default: {[norm(n.value, 90) for n in wl]}")
    ok_b = any(isinstance(n.value, ast.IfExp) and norm(n.value.body) == "set()" and isinstance(n.value.test, ast.Compare) and isinstance(n.value.test.ops[0], ast.Is) for n in bl)
    if not ok_b:
        rc.fail(fi, fn, "black_list=None must mean the empty set", construct="black default")
    ok_w = False
    for n in wl:
        v = n.value
        if isinstance(v, ast.IfExp) and isinstance(v.test, ast.Compare) and isinstance(v.test.ops[0], ast.Is):
            body = peel(v.body)
            if isinstance(body, (ast.ListComp, ast.SetComp)) and len(body.generators) == 2 and not any(g.ifs for g in body.generators) \
                    and all(norm(g.iter) == "self.variables" for g in body.generators):
                ok_w = True
            if isinstance(body, ast.Call) and call_name(body) in ("permutations", "product"):
                ok_w = True
    if not ok_w:
        rc.fail(fi, fn, "white_list=None must mean all ordered pairs of variables", construct="white default")
    mi = d.get("max_indegree", [])
    if not any(isinstance(n.value, ast.Call) and norm(n.value) in ("float('inf')", "np.inf") or norm(n.value) in ("np.inf", "math.inf") for n in mi):
        rc.fail(fi, fn, "max_indegree=None must mean no bound", construct="indegree default")
    # start graph validated: same variables
    raises = [s for s in sites(fn, lambda n: isinstance(n, ast.Raise)) if any("start_dag" in norm(t) and "nodes" in norm(t) for t, pol in s.conds)]
    rc.ob(f"start graph variable check: {bool(raises)}")
    if not raises:
        rc.fail(fi, fn, "a start graph over other variables than the data's must be rejected", construct="start check")


@rule("C11.tree", "Chow-Liu: maximum spanning tree on the weight matrix, BFS orientation from the root; exhaustive: all orientations, acyclic filter, max score", floor=5)
def tree(rc):
    repo = rc.repo
    fi = repo.func(TS, "TreeSearch._create_tree_and_dag")
    p = fi.params
    st = [c for c in repo.calls_in(fi) if call_name(c) in ("maximum_spanning_tree", "minimum_spanning_tree")]
    if len(st) != 1:
        rc.fail(fi, fi.node, "the tree must come from a spanning-tree call", construct="spanning tree")
    else:
        c = st[0]
        txt = norm(c, 400)
        neg = _negated_weights(c, p[0])
        parity = (+1 if call_name(c) == "maximum_spanning_tree" else -1) * (-1 if neg else +1)
        rc.ob(f"spanning tree call {call_name(c)} on {'-' if neg else '+'}weights -> parity {parity:+d}")
        if parity != +1:
            rc.fail(fi, c, "Chow-Liu needs the MAXIMUM-weight spanning tree of the mutual-information graph", construct="spanning tree parity")
        if p[0] not in {n.id for n in ast.walk(c) if isinstance(n, ast.Name)}:
            rc.fail(fi, c, "the spanning tree must be computed on the given weight matrix", construct="spanning tree input")
        # index and columns both = columns
        for df in [x for x in ast.walk(c) if isinstance(x, ast.Call) and call_name(x) == "DataFrame"]:
            if dotted(kwarg(df, "index")) != p[1] or dotted(kwarg(df, "columns")) != p[1]:
                rc.fail(fi, df, "weight matrix rows and columns must both be labelled by the variables", construct="labels")
    bfs = [c for c in repo.calls_in(fi) if call_name(c) in ("bfs_tree", "dfs_tree")]
    rc.ob(f"orientation {[norm(c) for c in bfs]}")
    if not bfs or dotted(bfs[0].args[1] if len(bfs[0].args) > 1 else kwarg(bfs[0], "source")) != p[2]:
        rc.fail(fi, fi.node, "edges must be directed away from root_node (tree search from the root)", construct="orientation")
    est = repo.func(TS, "TreeSearch.estimate")
    # optional node-valued settings are tested with `is None`, not by truthiness (a column labelled 0 is a legitimate root)
    for n in walk_no_nested(est.node):
        if isinstance(n, (ast.If, ast.IfExp)):
            for leaf in _leaves(n.test):
                if norm(leaf) in ("self.root_node", "class_node"):
                    rc.fail(est, n.test, f"`{norm(leaf)}` is tested by truthiness: a falsy column label (0, '') chosen as root/class node is silently replaced", construct=f"truthiness of {norm(leaf)}")
    rc.ob("TreeSearch.estimate: root_node / class_node presence tests use `is None`")
    for c in calls_named(est, "_create_tree_and_dag"):
        root = c.args[2] if len(c.args) > 2 else kwarg(c, "root_node")
        rc.ob(f"estimate -> {norm(c, 100)}")
        if norm(root) != "self.root_node":
            rc.fail(est, c, "the tree must be rooted at the chosen root node", construct="root forward")
    # weights symmetric: both triangles filled with the same values
    for q in ("TreeSearch._get_weights", "TreeSearch._get_conditional_weights"):
        w = repo.func(TS, q)
        _, b1 = tm.find(w.node, "_W[_IX] = _V")
        oksym = b1 is not None and tm.has(w.node, "_W.T[_IX] = _V", b1) and tm.has(w.node, "_IX = np.triu_indices(_n, k=1)", b1) and any(dotted(r.value) == b1["_W"] for r in returns_of(w))
        rc.ob(f"{q}: both triangles of the returned matrix filled with the same values: {bool(oksym)}")
        if not oksym:
            rc.fail(w, w.node, "pairwise weights must fill both triangles (symmetric matrix)", construct="symmetric weights")
        pairs = [c for c in repo.calls_in(w) if call_name(c) == "combinations"]
        idx = [c for c in repo.calls_in(w) if call_name(c) == "triu_indices"]
        if not pairs or not idx or not (kwarg(idx[0], "k") is not None and kwarg(idx[0], "k").value == 1):
            rc.fail(w, w.node, "pair enumeration (combinations) must match the strict upper triangle (triu_indices k=1)", construct="pair order")

    # exhaustive search
    ad = repo.func(ES, "ExhaustiveSearch.all_dags")
    txt = norm(ad.node, 100000)
    comb = [c for c in repo.calls_in(ad) if call_name(c) == "combinations"]
    ext = [c for c in repo.calls_in(ad) if call_name(c) == "extend"]
    both = False
    for c in ext:
        a = c.args[0]
        if isinstance(a, (ast.ListComp, ast.GeneratorExp)) and isinstance(a.elt, ast.Tuple) and isinstance(a.generators[0].target, ast.Tuple):
            if [dotted(x) for x in a.elt.elts] == [dotted(x) for x in a.generators[0].target.elts][::-1]:
                both = True
    perm = [c for c in repo.calls_in(ad) if call_name(c) == "permutations"]
    rc.ob(f"all_dags candidate edges: combinations={bool(comb)} reversed-added={both} permutations={bool(perm)}")
    if not ((comb and both) or perm):
        rc.fail(ad, ad.node, "all_dags must consider both orientations of every pair", construct="both orientations")
    if not any(call_name(c) == "powerset" for c in repo.calls_in(ad)):
        rc.fail(ad, ad.node, "all_dags must enumerate every subset of the candidate edges", construct="powerset")
    ys = sites(ad.node, lambda n: isinstance(n, ast.Yield))
    okf = False
    for s in ys:
        for t, pol in s.conds:
            if isinstance(t, ast.Call) and call_name(t) == "is_directed_acyclic_graph" and pol:
                okf = True
    rc.ob(f"all_dags yields only acyclic graphs: {okf}")
    if not okf:
        rc.fail(ad, ad.node, "all_dags must yield exactly the acyclic graphs", construct="acyclic filter")
    if not any(call_name(c) == "add_nodes_from" for c in repo.calls_in(ad)):
        rc.fail(ad, ad.node, "every candidate graph must contain all nodes (isolated ones too)", construct="nodes")
    es = repo.func(ES, "ExhaustiveSearch.estimate")
    mx = [c for c in repo.calls_in(es) if isinstance(c.func, ast.Name) and c.func.id in ("max", "min")]
    rc.ob(f"exhaustive estimate selects by {[norm(c) for c in mx]}")
    good = False
    for c in mx:
        k = kwarg(c, "key")
        if c.func.id == "max" and k is not None and norm(k).endswith("scoring_method.score") and c.args and call_name(c.args[0]) == "all_dags":
            good = True
    if not good:
        rc.fail(es, es.node, "exhaustive search must return the max-score DAG over all_dags()", construct="argmax")
    else:
        # the returned model carries the best dag's nodes and edges
        txt = norm(es.node, 100000)
        if "add_edges_from" not in txt or "add_nodes_from" not in txt:
            rc.fail(es, es.node, "the returned model must carry the best DAG's nodes and edges", construct="copy best")


def _leaves(t):
    if isinstance(t, ast.BoolOp):
        for v in t.values:
            yield from _leaves(v)
    elif isinstance(t, ast.UnaryOp) and isinstance(t.op, ast.Not):
        yield from _leaves(t.operand)
    else:
        yield t


def _negated_weights(call, wname):
    for n in ast.walk(call):
        if isinstance(n, ast.UnaryOp) and isinstance(n.op, ast.USub) and wname in {x.id for x in ast.walk(n.operand) if isinstance(x, ast.Name)}:
            return True
    return False



@rule("C11.defuse", "anchored files: no parameter is accepted and ignored (generic def-use detector, triaged exemptions)", floor=2)
def defuse(rc):
    from . import shared as _sh
    _sh.defuse_rule(rc, _sh.anchor_files("C11"))


@rule("C11.data", "preprocess_data (run in front of every estimator, score and CI test) hands on the caller's values: copy, column-wise value-preserving casts", floor=2)
def data_(rc):
    from . import shared as _sh
    _sh.preprocess_rule(rc)


MUTANTS = [
    dict(kind="break", name="named-score-without-declared-states", file=HC, expect="C11.apply",
         old="                    data=self.data, state_names=self.state_names\n", new="                    data=self.data\n"),
    dict(kind="break", name="flip-cycle-test-bounded-path-search", file=HC, expect="C11.legal",
         old="map(lambda path: len(path) > 2, nx.all_simple_paths(model, X, Y))", new="map(lambda path: len(path) > 2, nx.all_simple_paths(model, X, Y, cutoff=2))"),
    dict(kind="break", name="add-no-cycle-check", file=HC, expect="C11.legal",
         old="if not nx.has_path(model, Y, X):", new="if not nx.has_path(model, X, Y):"),
    dict(kind="break", name="add-ignores-blacklist", file=HC, expect="C11.legal",
         old="                    and ((X, Y) not in black_list)\n                    and ((X, Y) in white_list)\n                ):\n                    old_parents",
         new="                    and ((X, Y) in white_list)\n                ):\n                    old_parents"),
    dict(kind="break", name="flip-blacklist-wrong-direction", file=HC, expect="C11.legal",
         old="and ((Y, X) not in black_list)", new="and ((X, Y) not in black_list)"),
    dict(kind="break", name="flip-indegree-off-by-one", file=HC, expect="C11.legal",
         old="if len(new_X_parents) <= max_indegree:", new="if len(old_X_parents) <= max_indegree:"),
    dict(kind="break", name="remove-ignores-fixed", file=HC, expect="C11.legal",
         old="if (operation not in tabu_list) and ((X, Y) not in fixed_edges):", new="if (operation not in tabu_list):"),
    dict(kind="break", name="flip-cycle-check-len", file=HC, expect="C11.legal",
         old="lambda path: len(path) > 2", new="lambda path: len(path) > 3"),
    dict(kind="break", name="flip-delta-forgets-y-family", file=HC, expect="C11.legal",
         old="                            + score(Y, new_Y_parents)\n", new="                            + score(Y, old_Y_parents)\n"),
    dict(kind="break", name="remove-delta-sign", file=HC, expect="C11.legal",
         old="                score_delta = score(Y, new_parents) - score(Y, old_parents)\n                score_delta += structure_score(\"-\")",
         new="                score_delta = score(Y, old_parents) - score(Y, new_parents)\n                score_delta += structure_score(\"-\")"),
    dict(kind="break", name="estimate-swaps-lists", file=HC, expect="C11.apply",
         old="                    black_list,\n                    white_list,\n                    fixed_edges,\n                ),", new="                    white_list,\n                    black_list,\n                    fixed_edges,\n                ),"),
    dict(kind="break", name="estimate-stop-only-none", file=HC, expect="C11.apply",
         old="if best_operation is None or best_score_delta < epsilon:", new="if best_operation is None:"),
    dict(kind="break", name="flip-handler-no-reverse", file=HC, expect="C11.apply",
         old="                current_model.add_edge(Y, X)\n", new="                current_model.add_edge(X, Y)\n"),
    dict(kind="break", name="min-by-delta", file=HC, expect="C11.apply",
         old="                key=lambda t: t[1],\n                default=(None, None),", new="                key=lambda t: t[0],\n                default=(None, None),"),
    dict(kind="break", name="score-cache-outlives-call", file=HC, expect="C11.apply",
         old="            score_fn = ScoreCache.ScoreCache(score, self.data).local_score", new="            if getattr(self, \"_score_cache\", None) is None:\n                self._score_cache = ScoreCache.ScoreCache(score, self.data)\n            score_fn = self._score_cache.local_score"),
    dict(kind="break", name="no-acyclic-check-of-start", file=HC, expect="C11.seed",
         old="            if not nx.is_directed_acyclic_graph(start_dag):\n                raise ValueError(\n                    \"fixed_edges creates a cycle in start_dag. Please modify either fixed_edges or start_dag.\"\n                )",
         new="            pass"),
    dict(kind="break", name="root-node-truthiness", file=TS, expect="C11.tree",
         old="        if self.root_node is None:\n            weights = TreeSearch._get_weights(", new="        if not self.root_node:\n            weights = TreeSearch._get_weights("),
    dict(kind="break", name="minimum-spanning-tree", file=TS, expect="C11.tree",
         old="T = nx.maximum_spanning_tree(", new="T = nx.minimum_spanning_tree("),
    dict(kind="break", name="exhaustive-min", file=ES, expect="C11.tree",
         old="best_dag = max(self.all_dags(), key=self.scoring_method.score)", new="best_dag = min(self.all_dags(), key=self.scoring_method.score)"),
    dict(kind="break", name="exhaustive-one-orientation", file=ES, expect="C11.tree",
         old="        edges.extend([(y, x) for x, y in edges])\n", new=""),
    dict(kind="twin", name="indegree-strict-on-old", file=HC,
         old="if len(new_parents) <= max_indegree:", new="if len(old_parents) < max_indegree:"),
    dict(kind="twin", name="conjuncts-reordered", file=HC,
         old="if (operation not in tabu_list) and ((X, Y) not in fixed_edges):", new="if ((X, Y) not in fixed_edges) and not (operation in tabu_list):"),
    dict(kind="twin", name="stop-reordered", file=HC,
         old="if best_operation is None or best_score_delta < epsilon:", new="if not (best_operation is not None and best_score_delta >= epsilon):"),
    dict(kind="twin", name="delta-terms-reordered", file=HC,
         old="                        score_delta = score(Y, new_parents) - score(Y, old_parents)\n                        score_delta += structure_score(\"+\")",
         new="                        score_delta = structure_score(\"+\") - score(Y, old_parents)\n                        score_delta += score(Y, new_parents)"),
]
