"""Rule helpers shared by several properties (effects summaries, copy-independence rule, field-mutation index)."""
from __future__ import annotations

import ast
import re
from typing import Dict, List, Set, Tuple

from ..core import AnalysisError, ClassInfo, FuncInfo, Repo, call_name, dotted, kwarg, norm, walk_no_nested
from ..effects import CONTAINER_MUTATORS, NX_EDITORS, ORDER_ONLY, Flow, Summaries, analyse

_SUMM: Dict[int, Summaries] = {}
_FMI: Dict[int, dict] = {}


def summaries(repo: Repo) -> Summaries:
    if id(repo) not in _SUMM:
        _SUMM[id(repo)] = Summaries(repo)
    return _SUMM[id(repo)]


def working_alias(f: FuncInfo):
    """name bound by `X = self if inplace else self.copy()` (or the if/else form)"""
    for n in walk_no_nested(f.node):
        if isinstance(n, ast.Assign) and isinstance(n.targets[0], ast.Name) and isinstance(n.value, ast.IfExp) and dotted(n.value.test) == "inplace":
            return n.targets[0].id
    for n in walk_no_nested(f.node):
        if isinstance(n, ast.If) and dotted(n.test) == "inplace" and n.body and isinstance(n.body[0], ast.Assign) and dotted(n.body[0].value) == "self":
            return dotted(n.body[0].targets[0])
    return None


def _chain(e):
    """a.b[c].d -> (root name, ['b', '[]', 'd'])"""
    parts = []
    while True:
        if isinstance(e, ast.Attribute):
            parts.append(e.attr)
            e = e.value
        elif isinstance(e, ast.Subscript):
            parts.append("[]")
            e = e.value
        else:
            break
    return (e.id if isinstance(e, ast.Name) else None), parts[::-1]


def field_mutation_index(repo: Repo) -> Dict[str, List[Tuple[str, str, int]]]:
    """field name -> [(function, construct, depth)] for every in-place mutation of the container stored in `<obj>.<field>`
    (depth 0: the container itself is edited: `.append`, `x.f[k] = v`, `del x.f[k]`, `x.f op= v` on array-like fields)."""
    if id(repo) in _FMI:
        return _FMI[id(repo)]
    idx: Dict[str, List[Tuple[str, str, int]]] = {}

    def add(field, f, node, depth):
        idx.setdefault(field, []).append((f"{f.file}:{f.qual}", norm(node, 80), depth, f.cls.name if f.cls else None))

    def store(t, f, node):
        if isinstance(t, ast.Subscript):
            root, parts = _chain(t.value)
            attrs = [p for p in parts if p != "[]"]
            if attrs:
                tail = parts[len(parts) - parts[::-1].index(attrs[-1]):]
                add(attrs[-1], f, node, len(tail))
        elif isinstance(t, (ast.Tuple, ast.List)):
            for x in t.elts:
                store(x, f, node)

    for f in repo.all_functions():
        for n in walk_no_nested(f.node):
            if isinstance(n, ast.Assign):
                for t in n.targets:
                    store(t, f, n)
            elif isinstance(n, ast.AugAssign):
                store(n.target, f, n)
                if isinstance(n.target, ast.Attribute) and n.target.attr in ("values", "cardinality"):
                    add(n.target.attr, f, n, 0)
            elif isinstance(n, ast.Delete):
                for t in n.targets:
                    store(t, f, n)
            elif isinstance(n, ast.Call) and isinstance(n.func, ast.Attribute) and (n.func.attr in CONTAINER_MUTATORS or n.func.attr in NX_EDITORS) \
                    and n.func.attr not in ORDER_ONLY:
                root, parts = _chain(n.func.value)
                attrs = [p for p in parts if p != "[]"]
                if attrs:
                    tail = parts[len(parts) - parts[::-1].index(attrs[-1]):]
                    add(attrs[-1], f, n, len(tail))
    _FMI[id(repo)] = idx
    return idx


def stores_param_by_alias(summ: Summaries, init: FuncInfo) -> Set[str]:
    """parameters of a constructor that end up stored in a field without being copied"""
    fl = Flow(summ, init)
    out = set()
    orig = fl.stmt

    def stmt(st):
        if isinstance(st, ast.Assign):
            for t in st.targets:
                if isinstance(t, ast.Attribute) and dotted(t.value) == "self":
                    p = fl.prov(st.value)
                    for r in p.roots:
                        if r in init.params and r != "self":
                            out.add(r)
        orig(st)

    fl.stmt = stmt
    fl.run()
    return out


MUTABLE_OBJECT_SOURCES = {"cpds", "factors", "get_cpds", "get_factors"}


def copy_rule(rc, classes: List[ClassInfo]):
    """copy independence: in `copy()`, nothing reachable from the returned object may alias a container of `self`
    that some method of the package mutates in place."""
    repo = rc.repo
    summ = summaries(repo)
    fmi_all = field_mutation_index(repo)
    for ci in classes:
        f = ci.methods.get("copy")
        if f is None:
            continue
        related = {c.name for c in repo.mro(ci)} | {c.name for c in repo.subclasses(ci)}
        fmi = {k: [m for m in v if m[3] in related] for k, v in fmi_all.items()}
        fl = Flow(summ, f)
        findings = []
        orig = fl.stmt
        n_fields = [0]

        def stmt(st, fl=fl, f=f, ci=ci):
            if isinstance(st, ast.Assign):
                for t in st.targets:
                    if isinstance(t, ast.Attribute) and isinstance(t.value, ast.Name) and t.value.id != "self":
                        n_fields[0] += 1
                        p = fl.prov(st.value)
                        if "self" in p.roots:
                            muts = [m for m in fmi.get(t.attr, []) if m[2] == 0]
                            if muts:
                                findings.append((st, f"copy() stores `{norm(st.value)}` of the original into the copy's `{t.attr}` without copying it, and "
                                                 f"`{t.attr}` is edited in place by {muts[0][0]} (`{muts[0][1]}`): editing either object changes the other",
                                                 f"alias field {t.attr}"))
            for c in [n for n in walk_no_nested(st) if isinstance(n, ast.Call)]:
                # (a) constructor / method calls that receive containers or mutable objects of self without copying
                target = None
                if isinstance(c.func, ast.Name):
                    cl = repo.class_by_name(c.func.id, f.module)
                    if cl is not None:
                        target = repo.resolve_method(cl, "__init__")
                alias_params = stores_param_by_alias(summ, target) if target is not None else set()
                args = [(None, a) for a in c.args] + [(k.arg, k.value) for k in c.keywords]
                for i, (kw, a) in enumerate(args):
                    p = fl.prov(a.value if isinstance(a, ast.Starred) else a)
                    if "self" not in (p.roots | p.elem):
                        continue
                    names = {n.attr for n in ast.walk(a) if isinstance(n, ast.Attribute)} | {call_name(n) for n in ast.walk(a) if isinstance(n, ast.Call)}
                    if names & MUTABLE_OBJECT_SOURCES and isinstance(c.func, ast.Attribute) and dotted(c.func.value) != "self":
                        findings.append((c, f"copy() hands the original's mutable objects ({sorted(names & MUTABLE_OBJECT_SOURCES)}) to the copy without copying each of them",
                                         f"shares {sorted(names & MUTABLE_OBJECT_SOURCES)}"))
                    if target is not None and "self" in p.roots:
                        ps = target.params[1:]
                        pname = kw if kw else (ps[i] if i < len(ps) else None)
                        if pname in alias_params:
                            fld = pname
                            muts = [m for m in fmi.get(fld, []) if m[2] == 0]
                            if muts:
                                findings.append((c, f"copy() passes `{norm(a)}` to {target.qual}, which stores it without copying; `{fld}` is edited in place by {muts[0][0]}",
                                                 f"alias ctor arg {pname}"))
            orig(st)

        fl.stmt = stmt
        fl.run()
        rc.ob(f"{ci.module.rel}:{ci.name}.copy: {n_fields[0]} field store(s) examined, {len(findings)} alias(es)")
        seen = set()
        for node, msg, cons in findings:
            if cons in seen:
                continue
            seen.add(cons)
            rc.fail(f, node, msg, construct=cons)


# ------------------------------------------------------------------------------------------------
# Engine F: generic def-use detectors with a fully triaged hit list on the pinned tree

def anchor_files(prop: str) -> List[str]:
    """non-test python files named in the property's anchors (properties.jsonl is given and fixed)"""
    import json
    import os
    here = os.path.dirname(os.path.dirname(os.path.dirname(os.path.abspath(__file__))))
    for line in open(os.path.join(here, "properties.jsonl")):
        p = json.loads(line)
        if p["id"] == prop:
            return [f for f in p["anchors"]["files"] if f.endswith(".py") and "/tests/" not in f]
    raise AnalysisError(f"property {prop} not found in properties.jsonl")


# parameters that are accepted but never read on the pinned tree (each confirmed by reading: documented as unused / reserved)
UNUSED_PARAM_EXEMPT = {
    ("PDAG.to_dag", "required_edges"): "documented, not implemented upstream",
    ("LinearGaussianCPD.__init__", "beta"): "legacy argument kept for compatibility",
    ("DynamicBayesianNetwork.simulate", "include_latents"): "DBNs have no latent set; always passes True down",
    ("LinearGaussianBayesianNetwork.fit", "method"): "only 'mle' exists",
    ("LinearGaussianBayesianNetwork.predict", "distribution"): "only 'joint' exists",
    ("BayesianModelSampling.forward_sample", "n_jobs"): "kept for API compatibility",
    ("BayesianModelSampling.likelihood_weighted_sample", "n_jobs"): "kept for API compatibility",
    ("LinearEstimator.__init__", "graph"): "outside the anchored modules",
    ("BayesianModelInference._reduce_marg", "variable_evid"): "private helper: the states arrive as numbers (fix D44), the list of names stays in the signature for its single caller",
}


def _trivial_body(f: FuncInfo) -> bool:
    b = f.body
    return not b or (len(b) == 1 and isinstance(b[0], (ast.Pass, ast.Raise)) or (len(b) == 1 and isinstance(b[0], ast.Return) and (b[0].value is None or isinstance(b[0].value, ast.Constant))))


def _bool_leaves(t):
    if isinstance(t, ast.BoolOp):
        for v in t.values:
            yield from _bool_leaves(v)
    elif isinstance(t, ast.UnaryOp) and isinstance(t.op, ast.Not):
        yield from _bool_leaves(t.operand)
    else:
        yield t


def _numeric_use(f, prm):
    """is the parameter a number?  Evidence: its None-fallback is a number (`p = x.shape[0]`, `len(x)`, a numeric literal), it is combined arithmetically or compared
    with a numeric literal, or it is handed to range()/int()/float()/a seeding call.  (Arithmetic with arbitrary operands is no evidence: factors overload * and /.)"""
    def _numexpr(e):
        if isinstance(e, ast.Constant) and isinstance(e.value, (int, float)) and not isinstance(e.value, bool):
            return True
        if isinstance(e, ast.Subscript) and isinstance(e.value, ast.Attribute) and e.value.attr == "shape":
            return True
        if isinstance(e, ast.Call) and call_name(e) in ("len", "int", "float"):
            return True
        return False
    for n in walk_no_nested(f.node):
        if isinstance(n, ast.Assign) and len(n.targets) == 1 and isinstance(n.targets[0], ast.Name) and n.targets[0].id == prm and _numexpr(n.value):
            return True
        if isinstance(n, ast.BinOp) and isinstance(n.op, (ast.Mult, ast.Div, ast.FloorDiv, ast.Sub, ast.Pow, ast.Mod, ast.Add)):
            if (isinstance(n.left, ast.Name) and n.left.id == prm and _numexpr(n.right)) or (isinstance(n.right, ast.Name) and n.right.id == prm and _numexpr(n.left)):
                return True
        if isinstance(n, ast.Compare) and isinstance(n.left, ast.Name) and n.left.id == prm and not isinstance(n.ops[0], (ast.Is, ast.IsNot, ast.In, ast.NotIn)) \
                and any(isinstance(c, ast.Constant) and isinstance(c.value, (int, float)) and not isinstance(c.value, bool) for c in n.comparators):
            return True
        if isinstance(n, ast.Call) and (call_name(n) in ("range", "int", "float", "seed", "default_rng", "PCG64", "RandomState")) and any(isinstance(a, ast.Name) and a.id == prm for a in n.args):
            return True
    return False


def defuse_rule(rc, files: List[str]):
    """Every parameter of a function in the anchored files is read somewhere in its body — a parameter that is accepted and
    ignored silently breaks the behaviour it is documented to control.  (A companion "dead local" detector was tried and
    withdrawn: my own behaviour-preserving twins leave unused temporaries behind, so it is not a necessary condition.)"""
    repo = rc.repo
    n_f = 0
    for rel in files:
        if rel not in repo.modules:
            raise AnalysisError(f"anchor module vanished or unparsable: {rel}")
        mod = repo.modules[rel]
        funcs = list(mod.functions.values()) + [m for c in mod.classes.values() for m in c.methods.values()]
        for f in funcs:
            if _trivial_body(f):
                continue
            n_f += 1
            loads, stores = set(), {}
            for st in f.body:
                for n in ast.walk(st):
                    if isinstance(n, ast.Name):
                        if isinstance(n.ctx, ast.Load):
                            loads.add(n.id)
                        elif isinstance(n.ctx, ast.Store):
                            stores.setdefault(n.id, []).append(n)
                    elif isinstance(n, (ast.Global, ast.Nonlocal)):
                        loads.update(n.names)
            if any(isinstance(n, ast.Call) and isinstance(n.func, ast.Name) and n.func.id in ("locals", "vars") for st in f.body for n in ast.walk(st)):
                continue
            for p in f.params:
                if p in ("self", "cls") or p in loads or p.startswith("_"):
                    continue
                if (f.qual, p) in UNUSED_PARAM_EXEMPT:
                    continue
                rc.fail(f, f.node, f"{f.qual}: parameter `{p}` is accepted but never read — whatever it is documented to control is silently ignored",
                        construct=f"{f.qual} ignores parameter {p}")
    rc.ob(f"{n_f} function bodies in {len(files)} anchored file(s): every parameter is read")
    # an optional NUMBER (default None; used in arithmetic, compared with a number, given to range()/int()/a seeding call) is tested with `is None`: `if not p`
    # also fires for the legitimate value 0 and silently replaces it by the default
    n_num = 0
    for rel in files:
        mod = repo.modules[rel]
        for f in list(mod.functions.values()) + [m for c in mod.classes.values() for m in c.methods.values()]:
            for prm in f.params:
                d = f.param_default(prm)
                if not (isinstance(d, ast.Constant) and d.value is None):
                    continue
                if not _numeric_use(f, prm):
                    continue
                n_num += 1
                for n in walk_no_nested(f.node):
                    if isinstance(n, (ast.If, ast.IfExp, ast.While)):
                        for leaf in _bool_leaves(n.test):
                            if isinstance(leaf, ast.Name) and leaf.id == prm:
                                rc.fail(f, n.test, f"{f.qual}: the optional number `{prm}` is tested by truthiness (`{norm(n.test, 50)}`): the legitimate value 0 is treated as 'not given'",
                                        construct=f"{f.qual} truthiness of number {prm}")
                    if isinstance(n, ast.BoolOp) and isinstance(n.op, ast.Or) and isinstance(n.values[0], ast.Name) and n.values[0].id == prm and not isinstance(getattr(n, "_parent", None), (ast.If, ast.While, ast.IfExp)):
                        rc.fail(f, n, f"{f.qual}: `{norm(n, 50)}` replaces the legitimate value 0 of the optional number `{prm}` by the default",
                                construct=f"{f.qual} truthiness of number {prm}")
    rc.ob(f"{n_num} optional numeric parameter(s) (default None): none tested by truthiness")
    for rel in files:
        rc.ob(f"scanned {rel}")


def memo_rule(rc, prefixes):
    """Memo-key completeness: `if K not in self.X: self.X[K] = f(args)` — every parameter of the enclosing function that the
    cached computation receives must be part of the key; otherwise a later call with another value of that parameter is answered
    from the cache of the first one (state that outlives the call changes the answer)."""
    repo = rc.repo
    n = 0
    for f in repo.all_functions():
        if not f.file.startswith(prefixes):
            continue
        for node in walk_no_nested(f.node):
            if not (isinstance(node, ast.Assign) and isinstance(node.targets[0], ast.Subscript) and isinstance(node.targets[0].value, ast.Attribute)
                    and dotted(node.targets[0].value.value) == "self" and isinstance(node.value, ast.Call)):
                continue
            store = norm(node.targets[0].value)
            guard = None
            p = getattr(node, "_parent", None)
            while p is not None and p is not f.node:
                if isinstance(p, ast.If):
                    t = p.test
                    if isinstance(t, ast.Compare) and isinstance(t.ops[0], ast.NotIn) and norm(t.comparators[0]) == store:
                        guard = t
                p = getattr(p, "_parent", None)
            if guard is None:
                continue
            n += 1
            from ..util import deep_resolve, single_defs
            sd = single_defs(f)
            key_e = deep_resolve(node.targets[0].slice, sd)
            # parameters used as mappings somewhere in the function: a key that only sees `sorted(P)` / `tuple(P)` / `P.keys()` captures the
            # mapping's keys, not its values
            dict_like = {p_ for p_ in f.params if any(isinstance(x, ast.Attribute) and x.attr in ("items", "keys", "values", "get") and dotted(x.value) == p_ for x in ast.walk(f.node))}
            keys_only = set()
            for x in ast.walk(key_e):
                if isinstance(x, ast.Call) and isinstance(x.func, ast.Name) and x.func.id in ("sorted", "tuple", "list", "set", "frozenset", "len") and x.args and isinstance(x.args[0], ast.Name) \
                        and x.args[0].id in dict_like:
                    keys_only.add(id(x.args[0]))
                if isinstance(x, ast.Call) and isinstance(x.func, ast.Attribute) and x.func.attr == "keys" and isinstance(x.func.value, ast.Name) and x.func.value.id in dict_like:
                    keys_only.add(id(x.func.value))
            for x in ast.walk(key_e):
                if isinstance(x, ast.IfExp):
                    for y in ast.walk(x.test):  # a truthiness / emptiness test carries one bit, not the value
                        if isinstance(y, ast.Name):
                            keys_only.add(id(y))
            key_names = {x.id for x in ast.walk(key_e) if isinstance(x, ast.Name) and id(x) not in keys_only}
            args = [deep_resolve(a, sd) for a in list(node.value.args) + [k.value for k in node.value.keywords]]
            arg_names = {x.id for a in args for x in ast.walk(a) if isinstance(x, ast.Name)}
            missing = sorted((arg_names & set(f.params)) - key_names - {"self"})
            rc.ob(f"{f.file}:{f.qual}: memo {norm(node, 80)} keyed by {sorted(key_names)}")
            if missing:
                rc.fail(f, node, f"{f.qual}: the cached value depends on parameter(s) {missing} that are not part of the cache key `{norm(node.targets[0].slice)}`: "
                        f"a later call with another value is answered from the first call's cache", construct=f"{f.qual} memo key misses {missing}")
    rc.ob(f"{n} compute-if-absent memo site(s) under {list(prefixes)}")


# -------------------------------------------------------------------------------------------------
# value-keyed containers of factors
_FACTOR_COLLECTION_CALLS = ("get_factors", "get_cpds")
_FACTOR_RETURNING = ("factor_product", "factor_divide", "factor_sum_product", "to_factor", "DiscreteFactor", "TabularCPD", "identity_factor")
_FACTOR_METHODS = ("reduce", "marginalize", "maximize", "normalize", "product", "divide", "sum", "copy")


class FactorTypes:
    """Which names / expressions of one function denote factor objects, lists of factors, or 'tagged' working sets of (factor, tag)
    tuples.  Function-level names are inferred flow-insensitively from for-loops and assignments; comprehension variables are scoped
    to their comprehension.  `index_mode`: in inference engines `self.factors` is a dict node -> list of factors (iterating it yields
    nodes); in model classes it is the list of factors itself."""

    def __init__(self, fn: ast.AST, index_mode: bool):
        self.fn = fn
        self.index_mode = index_mode
        self.facs: Set[str] = set()
        self.lists: Set[str] = set()
        self.tagged: Set[str] = set()
        self._comp_nodes = {id(g.target) for c in ast.walk(fn) if isinstance(c, (ast.ListComp, ast.SetComp, ast.DictComp, ast.GeneratorExp)) for g in c.generators}
        self._infer()

    # -- classification of expressions under a local environment of comprehension-bound factor names
    def is_collection(self, e, env=frozenset()) -> bool:
        if isinstance(e, ast.Name):
            return e.id in self.lists
        if isinstance(e, ast.Attribute) and e.attr == "cpds":
            return True
        if isinstance(e, ast.Attribute) and e.attr == "factors":
            return not self.index_mode
        if isinstance(e, ast.Subscript) and isinstance(e.value, ast.Attribute) and e.value.attr == "factors":
            return self.index_mode
        if isinstance(e, ast.Call):
            nm = call_name(e)
            if nm in _FACTOR_COLLECTION_CALLS and not e.args and not e.keywords:
                return True
            if nm in ("list", "tuple", "sorted", "reversed", "iter") and e.args:
                return self.is_collection(e.args[0], env)
            if nm == "chain" and e.args:
                return any(self.is_collection(a.value if isinstance(a, ast.Starred) else a, env) for a in e.args)
        if isinstance(e, (ast.ListComp, ast.GeneratorExp)):
            return self.is_factor(e.elt, self.comp_env(e, env))
        return False

    def is_tagged(self, e) -> bool:
        if isinstance(e, ast.Name):
            return e.id in self.tagged
        if isinstance(e, ast.Subscript):
            return self.is_tagged(e.value)
        if isinstance(e, ast.Call) and call_name(e) in ("values", "list", "set", "copy") and isinstance(e.func, ast.Attribute):
            return self.is_tagged(e.func.value)
        return False

    def is_factor(self, e, env=frozenset()) -> bool:
        if isinstance(e, ast.Name):
            return e.id in env or (e.id in self.facs)
        if isinstance(e, ast.Call):
            nm = call_name(e)
            if nm in _FACTOR_RETURNING:
                return True
            if nm in _FACTOR_METHODS and isinstance(e.func, ast.Attribute) and self.is_factor(e.func.value, env):
                ip = kwarg(e, "inplace")
                return nm == "copy" or (isinstance(ip, ast.Constant) and ip.value is False)
            if isinstance(e.func, ast.Call) and call_name(e.func) == "getattr" and e.func.args and self.is_factor(e.func.args[0], env):
                ip = kwarg(e, "inplace")
                return isinstance(ip, ast.Constant) and ip.value is False
        if isinstance(e, ast.BinOp) and isinstance(e.op, (ast.Mult, ast.Div)):
            return self.is_factor(e.left, env) or self.is_factor(e.right, env)
        if isinstance(e, ast.Subscript) and isinstance(e.value, ast.Name) and e.value.id in self.lists and not isinstance(e.slice, ast.Slice):
            return True
        return False

    def _bound(self, target, it, env):
        """names bound to factors by `for target in it`"""
        out = set()
        if isinstance(target, ast.Name) and self.is_collection(it, env):
            out.add(target.id)
        if isinstance(target, ast.Tuple) and len(target.elts) == 2 and isinstance(it, ast.Call) and call_name(it) == "enumerate" and it.args and self.is_collection(it.args[0], env) \
                and isinstance(target.elts[1], ast.Name):
            out.add(target.elts[1].id)
        if isinstance(target, ast.Tuple) and len(target.elts) == 2 and isinstance(target.elts[0], ast.Name) and self.is_tagged(it):
            out.add(target.elts[0].id)
        return out

    def comp_env(self, comp, env=frozenset()):
        env = set(env)
        for g in comp.generators:
            bound = self._bound(g.target, g.iter, env)
            # a comprehension variable shadows a function-level factor name
            for x in ast.walk(g.target):
                if isinstance(x, ast.Name):
                    env.discard(x.id)
            env |= bound
        # names rebound by the comprehension but not to factors hide function-level factor names
        self._shadow = {x.id for g in comp.generators for x in ast.walk(g.target) if isinstance(x, ast.Name)} - env
        return frozenset(env)

    def is_factor_in_comp(self, e, comp) -> bool:
        env = self.comp_env(comp)
        shadow = set(self._shadow)
        if isinstance(e, ast.Name) and e.id in shadow:
            return False
        return self.is_factor(e, env)

    def _infer(self):
        changed, rounds = True, 0
        while changed and rounds < 8:
            changed = False
            rounds += 1
            for n in ast.walk(self.fn):
                if isinstance(n, ast.For):
                    for nm in self._bound(n.target, n.iter, frozenset()):
                        if nm not in self.facs:
                            self.facs.add(nm); changed = True
                elif isinstance(n, ast.Assign) and len(n.targets) == 1 and isinstance(n.targets[0], ast.Name):
                    nm, v = n.targets[0].id, n.value
                    if self.is_factor(v) and nm not in self.facs:
                        self.facs.add(nm); changed = True
                    if not isinstance(v, ast.Name) and self.is_collection(v) and nm not in self.lists:
                        self.lists.add(nm); changed = True
                    for c in ast.walk(v):
                        if isinstance(c, ast.SetComp) and isinstance(c.elt, ast.Tuple) and c.elt.elts and self.is_factor_in_comp(c.elt.elts[0], c) and nm not in self.tagged:
                            self.tagged.add(nm); changed = True
                    if isinstance(v, ast.Call) and call_name(v) == "_get_working_factors" and nm not in self.tagged:
                        self.tagged.add(nm); changed = True
                elif isinstance(n, ast.Call) and call_name(n) == "add" and isinstance(n.func, ast.Attribute) and n.args and isinstance(n.args[0], ast.Tuple) and n.args[0].elts \
                        and self.is_factor(n.args[0].elts[0]):
                    base = n.func.value
                    while isinstance(base, ast.Subscript):
                        base = base.value
                    if isinstance(base, ast.Name) and base.id not in self.tagged:
                        self.tagged.add(base.id); changed = True
        # a name that is ALSO bound to a non-factor by another for-loop is ambiguous: drop it (no verdict on it rather than a false alarm)
        for n in ast.walk(self.fn):
            if isinstance(n, ast.For) and isinstance(n.target, ast.Name) and n.target.id in self.facs and not self._bound(n.target, n.iter, frozenset()):
                self.facs.discard(n.target.id)


def value_keyed_factor_rule(rc, targets):
    """No set / dict key / frozenset whose members are bare factor objects: DiscreteFactor hashes and compares by VALUE, so two equal
    factors (two identical CPDs reduced alike, the same potential added twice) collapse into one and a product loses a term."""
    repo = rc.repo
    for rel, qual in targets:
        f = repo.func(rel, qual)
        ft = FactorTypes(f.node, index_mode=rel.startswith("pgmpy/inference/"))
        hits = 0
        set_names = {n.targets[0].id for n in ast.walk(f.node) if isinstance(n, ast.Assign) and len(n.targets) == 1 and isinstance(n.targets[0], ast.Name)
                     and ((isinstance(n.value, ast.Call) and call_name(n.value) in ("set", "frozenset") and not n.value.args) or isinstance(n.value, (ast.Set, ast.SetComp)))}
        for n in ast.walk(f.node):
            what = None
            if isinstance(n, ast.SetComp) and ft.is_factor_in_comp(n.elt, n):
                what = f"set comprehension of bare factors `{norm(n, 90)}`"
            elif isinstance(n, ast.Set) and any(ft.is_factor(x) for x in n.elts):
                what = f"set display of factors `{norm(n, 90)}`"
            elif isinstance(n, ast.Call) and isinstance(n.func, ast.Name) and n.func.id in ("set", "frozenset") and n.args and ft.is_collection(n.args[0]):
                what = f"`{norm(n, 90)}` builds a set of factors"
            elif isinstance(n, ast.Call) and call_name(n) in ("fromkeys", "Counter", "unique") and n.args and ft.is_collection(n.args[0]):
                what = f"`{norm(n, 90)}` keys a mapping by the factors (de-duplication by value)"
            elif isinstance(n, ast.Call) and call_name(n) == "add" and isinstance(n.func, ast.Attribute) and n.args and ft.is_factor(n.args[0]):
                base = n.func.value
                while isinstance(base, ast.Subscript):
                    base = base.value
                if isinstance(base, ast.Name) and (base.id in set_names or base.id in ft.tagged):
                    what = f"`{norm(n, 90)}` adds a bare factor to a set"
            elif isinstance(n, ast.DictComp) and ft.is_factor_in_comp(n.key, n):
                what = f"dict keyed by factors `{norm(n, 90)}`"
            elif isinstance(n, ast.Assign) and isinstance(n.targets[0], ast.Subscript) and ft.is_factor(n.targets[0].slice) and not isinstance(n.targets[0].value, ast.Attribute):
                what = f"`{norm(n.targets[0], 90)}`: mapping keyed by a factor"
            if what:
                hits += 1
                rc.fail(f, n, f"{qual}: {what}: DiscreteFactor hashes and compares by VALUE, so equal factors are merged and counted once", construct=f"{qual} value-keyed factors: {norm(n, 70)}")
        rc.ob(f"{qual}: factor-valued names {sorted(ft.facs)}, factor lists {sorted(ft.lists)}, tagged working sets {sorted(ft.tagged)}; value-keyed containers of bare factors: {hits}")


# -------------------------------------------------------------------------------------------------
# layout fields of factor objects written from outside the factor classes
_LAYOUT_FIELDS = ("values", "variables", "cardinality")
_ELEMENTWISE = ("exp", "log", "log2", "abs", "sqrt", "power", "square", "nan_to_num", "clip", "astype", "copy", "float", "maximum", "minimum")


def _elementwise_of(v, base: str) -> bool:
    """is v an element-by-element function of `<base>.values` (and scalars) — i.e. does it keep the axis layout?"""
    if isinstance(v, ast.Constant):
        return True
    if isinstance(v, ast.Name):
        return True  # a scalar or an array prepared elsewhere: no verdict from here
    if isinstance(v, ast.Attribute):
        return norm(v) == f"{base}.values"
    if isinstance(v, ast.BinOp):
        return _elementwise_of(v.left, base) and _elementwise_of(v.right, base)
    if isinstance(v, ast.UnaryOp):
        return _elementwise_of(v.operand, base)
    if isinstance(v, ast.Call) and call_name(v) in _ELEMENTWISE:
        args = list(v.args) + ([v.func.value] if isinstance(v.func, ast.Attribute) and dotted(v.func.value) not in ("np", "numpy", "compat_fns", "torch", "math") else [])
        return all(_elementwise_of(a, base) for a in args)
    return False


def external_layout_rule(rc, prefixes):
    """Outside pgmpy/factors/, code that re-arranges a factor's axes (assigns .variables / .cardinality, or assigns .values with anything but
    an element-wise function of the old values) must update all three of variables, cardinality and values of that object together:
    they are one layout (the decoder of arg-max indices, reduce, marginalize and product all read them as one)."""
    repo = rc.repo
    n_fn = n_w = 0
    for f in repo.all_functions():
        if f.file.startswith("pgmpy/factors/") or not f.file.startswith(tuple(prefixes)):
            continue
        n_fn += 1
        writes: Dict[str, Dict[str, ast.AST]] = {}
        for n in walk_no_nested(f.node):
            tgts = []
            if isinstance(n, ast.Assign):
                for t in n.targets:
                    tgts += list(t.elts) if isinstance(t, ast.Tuple) else [t]
            elif isinstance(n, ast.AugAssign):
                tgts = [n.target]
            for t in tgts:
                if isinstance(t, ast.Attribute) and t.attr in _LAYOUT_FIELDS and not (isinstance(t.value, ast.Name) and t.value.id == "self"):
                    writes.setdefault(norm(t.value), {})[t.attr] = n
        for base, flds in writes.items():
            n_w += 1
            layout_change = "variables" in flds or "cardinality" in flds
            vn = flds.get("values")
            if vn is not None and not layout_change:
                v = vn.value
                if isinstance(vn, ast.AugAssign):
                    continue  # in-place arithmetic keeps the layout
                if not _elementwise_of(v, base):
                    layout_change = True
            if layout_change and set(flds) != set(_LAYOUT_FIELDS):
                missing = sorted(set(_LAYOUT_FIELDS) - set(flds))
                first = sorted(flds.values(), key=lambda x: x.lineno)[0]
                rc.fail(f, first, f"{f.qual} re-arranges the axes of `{base}` by assigning {sorted(flds)} but leaves {missing} as they were: variables, cardinality and values are "
                        f"one layout — e.g. the arg-max decoder then reads the permuted table with the old radix", construct=f"{f.qual} partial layout write on {base}: {sorted(flds)}")
    rc.ob(f"layout fields of factor objects written outside pgmpy/factors/: {n_w} object(s) in {n_fn} function(s); every axis re-arrangement updates variables, cardinality and values together")


# -------------------------------------------------------------------------------------------------
# state NAMES vs state NUMBERS
def state_domain_rule(rc, prefixes):
    """A state is handed around either by NAME or by NUMBER.  `DiscreteFactor.reduce` and the `evidence` of query / map_query take NAMES and translate
    them themselves (premise checked: reduce calls get_state_no).  A value that has already been translated (it comes from `name_to_no[...]` or
    `get_state_no(...)`) and is then passed to such a sink is translated twice: with integer state names that differ from their positions
    (e.g. [1, 2, 3]) the evidence is silently applied to another state."""
    repo = rc.repo
    red = repo.func("pgmpy/factors/discrete/DiscreteFactor.py", "DiscreteFactor.reduce")
    premise = any(isinstance(n, ast.Call) and call_name(n) == "get_state_no" for n in ast.walk(red.node))
    rc.ob(f"premise: DiscreteFactor.reduce translates state names to numbers itself: {premise}")
    if not premise:
        return
    n_fn = n_sink = 0

    def is_num_expr(e, nums):
        for x in ast.walk(e):
            if isinstance(x, ast.Call) and call_name(x) == "get_state_no":
                return True
            if isinstance(x, ast.Attribute) and x.attr == "name_to_no":
                return True
            if isinstance(x, ast.Name) and x.id in nums and isinstance(x.ctx, ast.Load):
                return True
        return False

    for f in repo.all_functions():
        if not f.file.startswith(tuple(prefixes)) or f.file.startswith("pgmpy/factors/"):
            continue
        n_fn += 1
        nums: Set[str] = set()
        changed = True
        while changed:
            changed = False
            for n in ast.walk(f.node):
                if isinstance(n, ast.Assign) and len(n.targets) == 1 and isinstance(n.targets[0], ast.Name) and n.targets[0].id not in nums:
                    v = n.value
                    payload = None
                    if isinstance(v, ast.DictComp):
                        payload = v.value
                    elif isinstance(v, (ast.ListComp, ast.SetComp, ast.GeneratorExp)):
                        payload = v.elt.elts[1] if isinstance(v.elt, ast.Tuple) and len(v.elt.elts) == 2 else v.elt
                    elif isinstance(v, ast.Call) and call_name(v) in ("dict", "list", "tuple") and v.args:
                        payload = v.args[0]
                    else:
                        payload = v
                    if payload is not None and is_num_expr(payload, nums):
                        nums.add(n.targets[0].id)
                        changed = True
        # state NUMBERS produced by enumerating cardinalities: `for tup in product(*[range(card) ...])`, and what is unpacked from zip(..., tup)
        num_tuples: Set[str] = set()
        for n in ast.walk(f.node):
            if isinstance(n, (ast.For, ast.comprehension)) and isinstance(n.target, ast.Name) and isinstance(n.iter, ast.Call) and call_name(n.iter) == "product":
                if any(isinstance(x, ast.Call) and call_name(x) == "range" for x in ast.walk(n.iter)):
                    num_tuples.add(n.target.id)
        for n in ast.walk(f.node):
            if isinstance(n, (ast.For, ast.comprehension)) and isinstance(n.target, ast.Tuple) and isinstance(n.iter, ast.Call) and call_name(n.iter) == "zip":
                for pos, a in enumerate(n.iter.args):
                    if isinstance(a, ast.Name) and a.id in num_tuples and pos < len(n.target.elts) and isinstance(n.target.elts[pos], ast.Name):
                        nums.add(n.target.elts[pos].id)
        # the "try it as a name, fall back to the raw value" idiom is ambiguous for integer state names
        for n in ast.walk(f.node):
            if isinstance(n, ast.Try) and any(h.type is not None and "KeyError" in norm(h.type) for h in n.handlers):
                tr = [x for st_ in n.body for x in ast.walk(st_) if isinstance(x, ast.Call) and call_name(x) == "get_state_no"]
                raw = [st_ for h in n.handlers for st_ in h.body if isinstance(st_, ast.Assign) and isinstance(st_.value, ast.Name)]
                if tr and raw:
                    rc.fail(f, n, f"{f.qual}: a value is translated with get_state_no and, on KeyError, used as it is: callers pass state NUMBERS, and with integer state names that are not "
                            "0..k-1 in order (e.g. [1, 2]) a number is silently read as the NAME of another state", construct=f"{f.qual} name-or-number fallback")
        if not nums:
            continue
        defs1 = {}
        for n in ast.walk(f.node):
            if isinstance(n, ast.Assign) and len(n.targets) == 1 and isinstance(n.targets[0], ast.Name):
                defs1.setdefault(n.targets[0].id, []).append(n.value)
        for c in ast.walk(f.node):
            if not isinstance(c, ast.Call):
                continue
            nm = call_name(c)
            sinks = []
            lst = None
            if nm == "reduce" and isinstance(c.func, ast.Attribute) and c.args and isinstance(c.args[0], ast.Name) and len(defs1.get(c.args[0].id, [])) == 1:
                lst = defs1[c.args[0].id][0]
            elif nm == "reduce" and isinstance(c.func, ast.Attribute) and c.args and isinstance(c.args[0], ast.ListComp):
                lst = c.args[0]
            if lst is not None:
                if isinstance(lst, ast.ListComp):
                    el = lst.elt
                    if isinstance(el, ast.Tuple) and len(el.elts) == 2:
                        sinks.append(el.elts[1])
                    elif isinstance(el, ast.Call) and call_name(el) == "State" and len(el.args) == 2:
                        sinks.append(el.args[1])
            if nm == "reduce" and isinstance(c.func, ast.Attribute) and c.args and isinstance(c.args[0], (ast.List, ast.Tuple)):
                for el in c.args[0].elts:
                    if isinstance(el, ast.Tuple) and len(el.elts) == 2:
                        sinks.append(el.elts[1])
            if nm in ("query", "map_query", "max_marginal") and isinstance(c.func, ast.Attribute):
                ev = kwarg(c, "evidence") or (c.args[1] if len(c.args) > 1 else None)
                if ev is not None:
                    sinks.append(ev)
            for sk in sinks:
                n_sink += 1
                if is_num_expr(sk, nums) and not any(isinstance(x, ast.Call) and call_name(x) in ("get_state_names",) for x in ast.walk(sk)) \
                        and not any(isinstance(x, ast.Attribute) and x.attr == "no_to_name" for x in ast.walk(sk)):
                    rc.fail(f, c, f"{f.qual}: `{norm(sk, 60)}` is already a state NUMBER (it comes from name_to_no / get_state_no) but `{nm}` takes state NAMES and translates them "
                            "again: with integer state names that differ from their positions the evidence is applied to another state", construct=f"{f.qual} state number passed as name to {nm}")
    rc.ob(f"state-domain typing: {n_fn} function(s) scanned, {n_sink} name-taking sink(s) in functions that also hold translated state numbers")


# -------------------------------------------------------------------------------------------------
# self.method() that no class of the hierarchy defines
def undefined_self_method_rule(rc, files):
    """For classes whose whole ancestry lives in the repository: a call `self.m(...)` where `m` is defined neither in the class nor in any of
    its bases, is not assigned as an attribute anywhere in the hierarchy, and the hierarchy has no __getattr__, raises AttributeError whenever
    the method is called on an instance of that class itself (it only works on subclasses that happen to add `m`)."""
    repo = rc.repo
    n_cls = n_calls = 0
    for rel in files:
        if rel not in repo.modules:
            continue
        for ci in repo.modules[rel].classes.values():
            if [b for b in repo.external_bases(ci) if b.split(".")[-1] not in ("object", "ABC")]:
                continue
            mro = repo.mro(ci)
            if any("__getattr__" in c.methods for c in mro):
                continue
            attrs = set()
            for c in mro:
                for st in c.node.body:
                    if isinstance(st, ast.Assign):
                        attrs |= {t.id for t in st.targets if isinstance(t, ast.Name)}
                for m in c.methods.values():
                    for n in ast.walk(m.node):
                        if isinstance(n, ast.Attribute) and isinstance(n.ctx, ast.Store) and dotted(n.value) == "self":
                            attrs.add(n.attr)
                        if isinstance(n, ast.Call) and call_name(n) == "setattr" and n.args and dotted(n.args[0]) == "self":
                            attrs.add("*")
            if "*" in attrs:
                continue
            n_cls += 1
            abstract = bool(repo.subclasses(ci))
            for m in ci.methods.values():
                for n in walk_no_nested(m.node):
                    if isinstance(n, ast.Call) and isinstance(n.func, ast.Attribute) and dotted(n.func.value) == "self":
                        n_calls += 1
                        nm = n.func.attr
                        if repo.resolve_method(ci, nm) is None and nm not in attrs and not nm.startswith("__"):
                            sub = [s.name for s in repo.subclasses(ci) if repo.resolve_method(s, nm) is not None]
                            guarded = any(isinstance(p, ast.IfExp) or isinstance(p, ast.If) for p in _ancestors(n)) and "hasattr" in norm(m.node, 100000)
                            if guarded:
                                continue
                            rc.fail(m, n, f"{m.qual} calls `self.{nm}(...)`, but neither {ci.name} nor its bases define `{nm}`" +
                                    (f" (only the subclass(es) {sub} do)" if sub else "") + f": on a plain {ci.name} the call raises AttributeError",
                                    construct=f"{m.qual} undefined self.{nm}")
    rc.ob(f"self-method resolution: {n_cls} class(es) with a fully known ancestry, {n_calls} `self.m(...)` call(s) resolved")


def _ancestors(n):
    p = getattr(n, "_parent", None)
    while p is not None:
        yield p
        p = getattr(p, "_parent", None)


# -------------------------------------------------------------------------------------------------
# copy() completeness for graph classes
def copy_completeness_rule(rc, class_refs):
    """Every instance attribute that a model class (or one of its bases inside the repository) sets in __init__ must survive copy():
    either the class hierarchy defines copy() and that method mentions the attribute (assigns it on the copy or passes it to the
    constructor), or — when copy() is inherited from networkx, which creates `self.__class__()` and copies nodes, edges and graph
    attributes only — the class has no such attribute."""
    repo = rc.repo
    for rel, name in class_refs:
        ci = repo.cls(rel, name)
        mro = repo.mro(ci)
        attrs = {}
        for c in mro:
            init = c.methods.get("__init__")
            if init is None:
                continue
            for n in walk_no_nested(init.node):
                if isinstance(n, ast.Assign):
                    for t in n.targets:
                        if isinstance(t, ast.Attribute) and dotted(t.value) == "self":
                            attrs.setdefault(t.attr, c.name)
        # only attributes a caller can set through this class's constructor matter (a constant default cannot be lost)
        own_init = repo.resolve_method(ci, "__init__")
        settable = set(own_init.params) if own_init is not None else set()
        attrs = {a: c for a, c in attrs.items() if a in settable}
        cp = repo.resolve_method(ci, "copy")
        if cp is None:
            lost = sorted(attrs)
            rc.ob(f"{name}.copy: inherited from networkx (fresh `{name}()` + nodes/edges); instance attributes set in __init__: {lost}")
            for a in lost:
                rc.fail(None, None, f"{name} inherits copy() from networkx, which builds `{name}()` and copies nodes and edges only: the attribute `{a}` (set in {attrs[a]}.__init__) "
                        f"is not carried over — e.g. a copy, and everything built on copy() such as do(), silently loses `{a}`", construct=f"{name}.copy loses {a}", file=rel, func=name)
            continue
        txt = norm(cp.node, 100000)
        # attributes re-derived by a method that copy() calls on the new object (e.g. add_cpds maintains `cardinalities`)
        rederived = set()
        for c_ in repo.calls_in(cp):
            if isinstance(c_.func, ast.Attribute):
                m_ = repo.resolve_method(ci, c_.func.attr)
                if m_ is not None:
                    for n_ in ast.walk(m_.node):
                        if isinstance(n_, ast.Attribute) and dotted(n_.value) == "self" and isinstance(getattr(n_, "_parent", None), (ast.Subscript, ast.Assign, ast.AugAssign, ast.Attribute)):
                            rederived.add(n_.attr)
        missing = [a for a in sorted(attrs) if not re.search(r"\b%s\b" % re.escape(a), txt) and a not in rederived]
        # a copy() that delegates to the parent's copy (super().copy()) inherits what that one carries
        delegates = "super(" in txt and ".copy()" in txt
        rc.ob(f"{name}.copy ({cp.qual}): attributes set in __init__ {sorted(attrs)}; not mentioned in copy(): {missing}")
        for a in missing:
            if delegates:
                continue
            rc.fail(cp, cp.node, f"{cp.qual} does not carry over `{a}` (set in {attrs[a]}.__init__): the copy silently differs from the original in `{a}`",
                    construct=f"{name}.copy loses {a}")


# -------------------------------------------------------------------------------------------------
# graphs rebuilt from an edge list
_GRAPH_CLASSES = ("DAG", "PDAG", "BayesianNetwork", "MarkovNetwork", "ClusterGraph", "JunctionTree", "FactorGraph", "UndirectedGraph", "Graph", "DiGraph",
                  "DynamicBayesianNetwork", "LinearGaussianBayesianNetwork", "NaiveBayes")


def rebuilt_from_edges_rule(rc, prefixes, exempt=(), only=None):
    """`G2 = SomeGraph(G.edges())` keeps only the nodes that have an edge.  Unless the same function also hands over `G.nodes()`
    (`G2.add_nodes_from(G.nodes())`), a variable without any edge — an independent variable, a single clique, a root without children — is silently
    lost, and with it its CPD / factor."""
    repo = rc.repo
    n = 0
    for f in repo.all_functions():
        if not f.file.startswith(tuple(prefixes)):
            continue
        if only is not None and not only(f):
            continue
        for c in [x for x in ast.walk(f.node) if isinstance(x, ast.Call)]:
            if not (isinstance(c.func, (ast.Name, ast.Attribute)) and call_name(c) in _GRAPH_CLASSES and len(c.args) >= 1):
                continue
            a0 = c.args[0]
            if not (isinstance(a0, ast.Call) and call_name(a0) == "edges" and isinstance(a0.func, ast.Attribute) and not a0.args):
                continue
            src = norm(a0.func.value)
            if isinstance(a0.func.value, ast.Call) and call_name(a0.func.value) in ("minimum_spanning_tree", "maximum_spanning_tree", "minimum_spanning_arborescence"):
                continue  # a spanning tree keeps every node of the graph it spans
            n += 1
            par = getattr(c, "_parent", None)
            tgt = dotted(par.targets[0]) if isinstance(par, ast.Assign) and len(par.targets) == 1 else None
            ok = False
            for c2 in [x for x in ast.walk(f.node) if isinstance(x, ast.Call)]:
                if call_name(c2) == "add_nodes_from" and c2.args and isinstance(c2.func, ast.Attribute):
                    recv = dotted(c2.func.value)
                    arg = norm(c2.args[0])
                    if (tgt is None or recv == tgt) and (arg.startswith(src + ".nodes") or arg == src or arg.startswith(f"list({src}.nodes") or arg.startswith("self.variables")):
                        ok = True
            key = f"{f.qual}: {call_name(c)}({src}.edges())"
            rc.ob(f"{f.file}:{key}: nodes handed over as well: {ok}")
            if not ok and key not in exempt:
                rc.fail(f, c, f"{f.qual} rebuilds a graph from `{src}.edges()` only: nodes of `{src}` without any edge (isolated variables / cliques) are lost — and with them their CPDs or factors",
                        construct=f"{f.qual} graph from edges only: {call_name(c)}({src}.edges())")
    rc.ob(f"{n} graph construction(s) from an edge list under {list(prefixes)}")


# ------------------------------------------------------------------------------------------------
def fresh_helper_nodes(rc, funcs):
    """Functions that encode virtual evidence add one helper child per evidence item.  The helper's name must be NEW in the working model on every iteration:
    the statement(s) between the name's definition and `model.add_edge(var, name)` contain a test `name in <model>…` (if/while) that re-names on collision.  A
    name that is a function of the variable alone is shared by two evidences on the same variable (the second CPD replaces the first) and may coincide with
    a node of the user's model.  The name is built with str(var) / an f-string, so that non-string node names do not raise."""
    from .. import tmatch as tm
    n_sites = 0
    for f in funcs:
        for loop in [n for n in walk_no_nested(f.node) if isinstance(n, ast.For)]:
            body = loop.body
            for i, st in enumerate(body):
                c = st.value if isinstance(st, ast.Expr) else None
                b = tm.is_(c, "_M.add_edge(_V, _NV)") if c is not None else None
                if not b:
                    continue
                defs = [j for j in range(i) if isinstance(body[j], ast.Assign) and norm(body[j].targets[0]) == b["_NV"]]
                if not defs:
                    continue
                n_sites += 1
                d = body[defs[0]]
                guarded = False
                for st2 in body[defs[0] + 1:i]:
                    if isinstance(st2, (ast.If, ast.While)):
                        for cmp_ in ast.walk(st2.test):
                            if isinstance(cmp_, ast.Compare) and isinstance(cmp_.ops[0], ast.In) and norm(cmp_.left) == b["_NV"] and b["_M"] in {x.id for x in ast.walk(cmp_.comparators[0]) if isinstance(x, ast.Name)}:
                                rebinds = any(isinstance(x, (ast.Assign, ast.AugAssign)) and norm(x.targets[0] if isinstance(x, ast.Assign) else x.target) == b["_NV"] for x in ast.walk(st2))
                                guarded = guarded or rebinds
                        if any(isinstance(x, ast.Call) and call_name(x) == "has_node" and x.args and norm(x.args[0]) == b["_NV"] for x in ast.walk(st2.test)):
                            guarded = True
                rc.ob(f"{f.file}:{f.qual}: helper node `{b['_NV']} = {norm(d.value, 40)}` re-named while it is already a node of `{b['_M']}`: {guarded}")
                if not guarded:
                    rc.fail(f, d, f"{f.qual}: the helper node `{b['_NV']} = {norm(d.value, 40)}` depends on the variable only and is not checked against the nodes of `{b['_M']}`: two virtual "
                            f"evidences on one variable share it (the second likelihood replaces the first), and a model node of that name is overwritten",
                            construct=f"{f.qual} helper node not fresh")
                bare = [x for x in ast.walk(d.value) if isinstance(x, ast.BinOp) and isinstance(x.op, ast.Add)
                        and any(isinstance(y, ast.Constant) and isinstance(y.value, str) for y in (x.left, x.right)) and any(isinstance(y, ast.Name) for y in (x.left, x.right))]
                if bare:
                    rc.fail(f, d, f"{f.qual}: `{norm(d.value, 40)}` concatenates a node name with a string: any hashable is a node name, a non-string one raises TypeError",
                            construct=f"{f.qual} helper node name needs str()")
    if n_sites < len(funcs):
        raise AnalysisError(f"virtual evidence: expected a helper-node site in each of {[f.qual for f in funcs]}, found {n_sites}")


# ------------------------------------------------------------------------------------------------
LOSSLESS_CASTS = {"float", "float64", "category", "object", "str"}


def preprocess_rule(rc):
    """`preprocess_data` runs in front of every estimator, score and CI test.  What the statistics see must be the caller's data: the function works on a copy, and
    every column it rewrites is derived from THE SAME column by a value-preserving cast (`df[c] = df[c].astype("float" | "category")`).  A narrower numeric type
    merges distinct integer labels (float32 above 2**24); a column rebuilt through a new DataFrame/Series without the frame's index is re-aligned on row labels
    (shuffled or filtered rows get the values of other rows / NaN)."""
    repo = rc.repo
    f = repo.module("pgmpy/utils/utils.py").functions.get("preprocess_data")
    if f is None:
        raise AnalysisError("preprocess_data vanished")
    df = f.params[0]
    first = f.body[0]
    copied = isinstance(first, ast.Assign) and norm(first.targets[0]) == df and norm(first.value) in (f"{df}.copy()", f"{df}.copy(deep=True)")
    rc.ob(f"preprocess_data works on a copy: {copied}")
    if not copied:
        rc.fail(f, first, "preprocess_data must start from a copy of the caller's frame", construct="preprocess_data copy")
    n = 0
    for st in walk_no_nested(f.node):
        if not (isinstance(st, ast.Assign) and isinstance(st.targets[0], ast.Subscript) and norm(st.targets[0].value) == df):
            continue
        n += 1
        key = norm(st.targets[0].slice)
        v = st.value
        ok = isinstance(v, ast.Call) and call_name(v) == "astype" and isinstance(v.func, ast.Attribute) and norm(v.func.value) == f"{df}[{key}]" and len(v.args) == 1
        rc.ob(f"preprocess_data: `{norm(st, 80)}`")
        if not ok:
            if any(isinstance(c, ast.Call) and call_name(c) in ("DataFrame", "Series", "array", "to_numpy", "values") for c in ast.walk(v)) or \
                    any(isinstance(c, ast.Attribute) and c.attr == "values" for c in ast.walk(v)):
                if not any(isinstance(c, ast.Call) and call_name(c) in ("DataFrame", "Series") and norm(kwarg(c, "index") or ast.Constant(value=None)) == f"{df}.index" for c in ast.walk(v)) and \
                        any(isinstance(c, ast.Call) and call_name(c) in ("DataFrame", "Series") for c in ast.walk(v)):
                    rc.fail(f, st, f"preprocess_data: `{norm(st, 70)}` assigns a NEW frame/series without the data's index: pandas aligns it on row labels, so a frame whose "
                            "index is not 0..n-1 (shuffled or filtered rows) gets other rows' values or NaN", construct="preprocess_data re-aligned column")
                    continue
            raise AnalysisError(f"preprocess_data: cannot decide whether `{norm(st, 80)}` preserves the column")
        t = v.args[0]
        tname = t.value if isinstance(t, ast.Constant) else norm(t)
        if str(tname) not in LOSSLESS_CASTS and str(tname) not in ("np.float64", "numpy.float64"):
            rc.fail(f, st, f"preprocess_data: `{norm(st, 70)}` casts to `{tname}`: not value-preserving for integer labels (float32 merges integers above 2**24)",
                    construct="preprocess_data lossy cast")
    if n < 2:
        raise AnalysisError(f"preprocess_data: expected the integer and object column conversions, found {n} column store(s)")


# ------------------------------------------------------------------------------------------------
def name_first_rule(rc, files):
    """A state handed to an accessor of the factor classes (get_value, set_value, get_state_no, …) is a state NAME.  Wherever a function looks such a value up in
    `name_to_no`, every other use of the same value as a number (appended to an index, returned, used as a subscript) sits in the `except KeyError` handler of that
    lookup — the documented "number accepted when it is not a name" fallback — or on the path where the object has no state names.  A use on any other path reads
    a name as a number: with state names [1, 2, 3] or [2, 0, 1] the wrong cell is read or written."""
    repo = rc.repo
    n_lookup = 0
    for f in repo.all_functions():
        if f.file not in files:
            continue
        lookups = []
        for n in ast.walk(f.node):
            if isinstance(n, ast.Subscript) and isinstance(n.ctx, ast.Load) and isinstance(n.value, ast.Subscript) and isinstance(n.value.value, ast.Attribute) and n.value.value.attr == "name_to_no":
                lookups.append(n)
        if not lookups:
            continue
        for S in sorted({norm(n.slice) for n in lookups}):
            n_lookup += 1
            mine = [n for n in lookups if norm(n.slice) == S]
            inside_lookup = {id(x) for n in mine for x in ast.walk(n)}
            for n in ast.walk(f.node):
                if not (isinstance(n, (ast.Name, ast.Subscript, ast.Attribute)) and isinstance(getattr(n, "ctx", None), ast.Load) and norm(n) == S) or id(n) in inside_lookup:
                    continue
                # classify the occurrence by its ancestors
                par, child, kind, exempt = getattr(n, "_parent", None), n, None, False
                while par is not None and par is not f.node:
                    if isinstance(par, (ast.If, ast.IfExp, ast.While)) and child is par.test:
                        exempt = True   # part of a condition
                    if isinstance(par, (ast.Raise, ast.JoinedStr, ast.Assert)):
                        exempt = True
                    if isinstance(par, ast.Call) and call_name(par) in ("isinstance", "info", "warning", "debug", "error", "type", "str", "repr", "len", "hash"):
                        exempt = True
                    if isinstance(par, ast.Compare):
                        exempt = True
                    if isinstance(par, ast.ExceptHandler):
                        tr = getattr(par, "_parent", None)
                        if isinstance(tr, ast.Try) and any(id(x) in {id(m) for m in mine} for st in tr.body for x in ast.walk(st)):
                            exempt = True   # the documented fallback: the name lookup failed
                    if isinstance(par, ast.If) and norm(par.test) in ("self.state_names",) and any(child is x for x in par.orelse):
                        exempt = True   # the object has no state names
                    if isinstance(par, ast.If) and isinstance(par.test, ast.UnaryOp) and isinstance(par.test.op, ast.Not) and norm(par.test.operand) == "self.state_names" and any(child is x for x in par.body):
                        exempt = True
                    if kind is None:
                        if isinstance(par, ast.Return):
                            kind = "returned"
                        elif isinstance(par, ast.Call) and call_name(par) in ("append", "extend", "insert"):
                            kind = "appended to an index"
                        elif isinstance(par, ast.Subscript) and child is par.slice:
                            kind = "used as a subscript"
                        elif isinstance(par, (ast.Tuple, ast.List)) and isinstance(getattr(par, "_parent", None), (ast.Return, ast.Call, ast.Subscript)):
                            kind = "put into an index"
                    child, par = par, getattr(par, "_parent", None)
                if kind is None or exempt:
                    continue
                rc.fail(f, n, f"{f.qual}: the caller's state `{S}` is {kind} as a NUMBER on a path where it was not (or not yet) looked up as a name — only the KeyError handler "
                        "of the `name_to_no` lookup may fall back to the raw value; with state names such as [1, 2, 3] or [2, 0, 1] a name is read as a position",
                        construct=f"{f.qual} state {S} used as number before the name lookup")
            rc.ob(f"{f.file}:{f.qual}: state `{S}` is looked up by name; raw uses only in the KeyError fallback / without state names")
    if n_lookup < 3:
        raise AnalysisError(f"name-first rule: expected the name lookups of get_value, set_value and get_state_no, found {n_lookup}")
