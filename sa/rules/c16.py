"""C16 — queries are pure, repeatable and representation-independent."""
from __future__ import annotations

import ast
import re

from ..core import AnalysisError, call_name, dotted, kwarg, norm, walk_no_nested
from ..effects import analyse
from ..registry import describe, rule
from ..util import calls_named, returns_of
from . import shared
from .. import tmatch as tm

EI = "pgmpy/inference/ExactInference.py"
IB = "pgmpy/inference/base.py"

describe(
    "C16",
    "query-like entry points (inference queries, scores, estimators, structure searches, writers, conversions, samplers, "
    "predictions) contain no mutation site whose target may alias a parameter, the engine's model or its data (alias/provenance "
    "analysis with package-wide call summaries); an inference engine that re-binds itself to another model during a query "
    "(pruning, virtual evidence) is re-bound to the model saved on entry on EVERY exit — return and exception (typestate over "
    "self.model with try/finally recognised); optional `node`-like parameters are tested with `is None`, never by truthiness; the "
    "global backend configuration is written only by the Config setters; every numpy/torch shim applies the corresponding operation to the same "
    "arguments in both branches (frozen correspondence table).",
    ["hash-seed, insertion-order and numpy/torch independence of the numbers", "renaming invariance (needs values)"],
)

# classes whose public methods are all query-like (they must not modify what they are given)
PURE_MODULE_PREFIXES = ("pgmpy/inference/", "pgmpy/estimators/", "pgmpy/metrics/", "pgmpy/sampling/", "pgmpy/readwrite/", "pgmpy/independencies/")
SKIP_FILES = ("pgmpy/estimators/SEMEstimator.py", "pgmpy/inference/mplp.py", "pgmpy/sampling/NUTS.py", "pgmpy/sampling/HMC.py",
              "pgmpy/readwrite/PomdpX.py", "pgmpy/readwrite/XMLBeliefNetwork.py", "pgmpy/readwrite/ProbModelXML.py", "pgmpy/inference/dbn_inference.py",
              "pgmpy/estimators/GES.py")
# query-like methods of the model classes themselves (self must stay unchanged)
MODEL_QUERY_PREFIXES = ("to_", "get_", "is_", "check_model", "predict", "simulate", "copy", "save", "moralize", "local_independencies",
                        "active_trail_nodes", "minimal_dseparator", "states", "fit_update_noop")
MODEL_FILES = ("pgmpy/models/BayesianNetwork.py", "pgmpy/models/MarkovNetwork.py", "pgmpy/models/FactorGraph.py", "pgmpy/models/JunctionTree.py",
               "pgmpy/models/ClusterGraph.py", "pgmpy/models/DynamicBayesianNetwork.py", "pgmpy/models/NaiveBayes.py", "pgmpy/base/DAG.py",
               "pgmpy/base/UndirectedGraph.py", "pgmpy/models/LinearGaussianBayesianNetwork.py")
FACTOR_FILES = ("pgmpy/factors/discrete/DiscreteFactor.py", "pgmpy/factors/discrete/CPD.py", "pgmpy/factors/discrete/JointProbabilityDistribution.py")
# fields of an engine that hold (or alias) objects owned by the caller
ENGINE_FOREIGN_ROOTS = {"self.model": "the engine's model", "self.data": "the data set", "self.base_scorer": "the wrapped scorer",
                        "self.factors": "the model's factors (the engine's factor index aliases them)"}
# helpers whose parameter is the writer's own freshly built XML element, not a caller-owned object
HELPER_EXEMPT = {"indent"}
# mutations of `self` that are the documented purpose of a get_/to_-named method (none today) would be listed here by name
SELF_EXEMPT = {
    # get_random_cpds(inplace=True) is an editor behind a get_ name; its inplace=False path is covered by C04.inplace
    "BayesianNetwork.get_random_cpds",
}


@rule("C16.pure", "query-like entry points never modify their arguments, the engine's model or its data", floor=150)
def pure(rc):
    repo = rc.repo
    summ = shared.summaries(repo)
    for f in repo.all_functions():
        rel = f.file
        if rel in SKIP_FILES or f.name in HELPER_EXEMPT:
            continue
        kind = None
        if rel.startswith(PURE_MODULE_PREFIXES):
            kind = "engine"  # private helpers included: they run on behalf of the public entry points
        elif rel in MODEL_FILES and f.cls is not None and f.name.startswith(MODEL_QUERY_PREFIXES):
            kind = "model"
        elif rel in MODEL_FILES and f.cls is not None and "inplace" in f.params and f.qual not in SELF_EXEMPT:
            kind = "model"  # any model method with an `inplace` switch, judged for inplace=False
        elif rel in FACTOR_FILES and f.cls is not None and not f.name.startswith("_"):
            # factor algebra: arguments are never modified; `self` only when inplace is requested (inplace=False judged here); queries never
            kind = "model" if ("inplace" in f.params or f.name.startswith(("check_", "get_", "is_", "to_", "copy", "minimal_imap", "assignment", "scope", "pmap"))) else "factor-args"
        if kind is None:
            continue
        fold = {"inplace": False} if "inplace" in f.params else None
        fl = analyse(summ, f, fold=fold)
        bad = []
        for m in fl.mutations:
            if m.order_only:
                continue
            if m.root == "self" or m.root.startswith("self."):
                if kind == "factor-args":
                    continue
                if kind == "model":
                    if f.qual not in SELF_EXEMPT:
                        bad.append(m)
                elif m.root in ENGINE_FOREIGN_ROOTS:
                    if m.root == "self.factors" and _container_edit(m):
                        continue  # the index (dict of lists) is the engine's own; only the factor objects in it are the model's
                    bad.append(m)
                continue
            if f.name.startswith("_") and f.name not in ("__init__", "__str__", "__call__") and m.root in f.params:
                continue  # private helper editing its own parameter: judged at its call sites (call summaries)
            bad.append(m)
        rc.ob(f"{rel}:{f.qual}: {len(bad)} mutation(s) of caller-owned objects")
        for m in bad:
            what = {"self": "the model itself", **ENGINE_FOREIGN_ROOTS}.get(m.root, "the model itself" if m.root.startswith("self") else f"the argument `{m.root}`")
            rc.fail(f, m.node, f"{f.qual} modifies {what}: `{norm(m.node, 70)}` ({m.how})", construct=f"{m.root}: {norm(m.node, 100)}")


@rule("C16.observers", "observer methods (__str__, __repr__, __eq__, __hash__, __len__, __contains__, __iter__) never store into self", floor=20)
def observers(rc):
    """`str(x)`, `x == y`, `hash(x)`, `len(x)` are observations: calling them twice must give the same answer and leave the object as it was.  An observer that
    assigns to (or accumulates into) an attribute of self changes what the next call returns (e.g. a writer whose __str__ appends to self.network emits the file
    twice on the second call)."""
    repo = rc.repo
    n = 0
    for f in repo.all_functions():
        if f.cls is None or f.name not in ("__str__", "__repr__", "__eq__", "__ne__", "__hash__", "__len__", "__contains__", "__iter__", "__bool__"):
            continue
        n += 1
        seen_attr = set()
        for node in walk_no_nested(f.node):
            tg = []
            if isinstance(node, ast.Assign):
                tg = node.targets
            elif isinstance(node, ast.AugAssign):
                tg = [node.target]
            for t in tg:
                for x in (t.elts if isinstance(t, ast.Tuple) else [t]):
                    base = x
                    while isinstance(base, ast.Subscript):
                        base = base.value
                    if isinstance(base, ast.Attribute) and dotted(base.value) == "self" and base.attr not in seen_attr:
                        seen_attr.add(base.attr)
                        rc.fail(f, node, f"{f.qual} stores into `self.{base.attr}` (`{norm(node, 70)}`): an observer must not change the object — the second call answers differently",
                                construct=f"{f.qual} stores self.{base.attr}")
        rc.ob(f"{f.file}:{f.qual}")


def _container_edit(m):
    from ..effects import CONTAINER_MUTATORS
    h = m.how
    return any(h.startswith(f".{x}()") for x in CONTAINER_MUTATORS) or h in ("attribute/item store", "del of attribute/item") and isinstance(
        getattr(m.node, "targets", [None])[0] if isinstance(m.node, ast.Assign) else None, ast.Subscript)


# ------------------------------------------------------------------------------------------------
def _is_rebind(st, summ_rebinders):
    """does this statement re-bind the engine to another model?  -> description or None"""
    for n in walk_no_nested(st):
        if isinstance(n, ast.Assign):
            for t in n.targets:
                for x in ([t] if not isinstance(t, (ast.Tuple, ast.List)) else t.elts):
                    if norm(x) == "self.model":
                        return "self.model = ..."
        if isinstance(n, ast.Call) and isinstance(n.func, ast.Attribute) and dotted(n.func.value) == "self":
            if n.func.attr == "__init__":
                return "self.__init__(...)"
            if n.func.attr in summ_rebinders:
                return f"self.{n.func.attr}(...) re-binds the engine"
    return None


def _is_restore(st, saved):
    for n in walk_no_nested(st):
        if isinstance(n, ast.Call) and isinstance(n.func, ast.Attribute) and dotted(n.func.value) == "self" and n.func.attr == "__init__" \
                and n.args and dotted(n.args[0]) in saved:
            return True
        if isinstance(n, ast.Assign) and any(norm(t) == "self.model" for t in n.targets) and dotted(n.value) in saved:
            return True
    return False


def _has_call(st):
    return any(isinstance(n, ast.Call) for n in walk_no_nested(st))


@rule("C16.engine", "an engine re-bound during a query is restored to the model saved on entry on every exit (return and raise)", floor=5)
def engine(rc):
    repo = rc.repo
    # which helper methods re-bind the engine (call self.__init__ / assign self.model)?
    rebinders = set()
    for rel in (IB, EI):
        for ci in repo.module(rel).classes.values():
            for m in ci.methods.values():
                if m.name == "__init__":
                    continue
                for n in walk_no_nested(m.node):
                    if isinstance(n, ast.Call) and isinstance(n.func, ast.Attribute) and dotted(n.func.value) == "self" and n.func.attr == "__init__":
                        if m.name.startswith("_"):
                            rebinders.add(m.name)
    rc.ob(f"helpers that re-bind the engine: {sorted(rebinders)}")
    for cname in ("VariableElimination", "BeliefPropagation"):
        ci = repo.cls(EI, cname)
        for mname in ("query", "map_query", "max_marginal"):
            f = ci.methods.get(mname)
            if f is None:
                continue
            # names that hold the engine's own model: `X = self.model[.copy()]` executed while the engine is still bound to it.  The same statement executed after a
            # re-binding captures the TEMPORARY model (flow-sensitive: maintained by the walk below); restoring from such a name restores nothing.
            saved = set()
            late_saved = set()
            problems = []

            def _save_stmt(st):
                if isinstance(st, ast.Assign) and len(st.targets) == 1 and isinstance(st.targets[0], ast.Name) and norm(st.value) in ("self.model", "self.model.copy()"):
                    return st.targets[0].id
                return None

            def walk(stmts, dirty, protected):
                """dirty: engine currently bound to a foreign model; protected: inside try whose finally restores"""
                for st in stmts:
                    if isinstance(st, ast.Try):
                        fin_restores = any(_is_restore(x, saved) for x in st.finalbody)
                        d, t = walk(st.body, dirty, protected or fin_restores)
                        for h in st.handlers:
                            walk(h.body, d, protected or fin_restores)
                        walk(st.orelse, d, protected or fin_restores)
                        if fin_restores:
                            dirty = False
                        else:
                            dirty, _ = walk(st.finalbody, d, protected)
                        continue
                    if isinstance(st, ast.If):
                        d1, t1 = walk(st.body, dirty, protected)
                        d2, t2 = walk(st.orelse, dirty, protected)
                        if t1 and t2:
                            return dirty, True
                        dirty = (d1 and not t1) or (d2 and not t2)
                        continue
                    if isinstance(st, (ast.For, ast.While, ast.With)):
                        d, t = walk(st.body, dirty, protected)
                        dirty = dirty or d
                        continue
                    sv = _save_stmt(st)
                    if sv is not None:
                        if dirty:
                            saved.discard(sv)
                            late_saved.add(sv)
                            problems.append(("save", st, f"`{norm(st, 50)}` captures the model AFTER the engine was re-bound: the later restore from `{sv}` leaves the engine on the temporary model"))
                        else:
                            saved.add(sv)
                            late_saved.discard(sv)
                        continue
                    if _is_restore(st, saved):
                        dirty = False
                        continue
                    why = _is_rebind(st, rebinders)
                    if dirty and not protected and _has_call(st) and not isinstance(st, ast.Return):
                        problems.append(("raise", st, "a call that may raise runs while the engine is bound to a temporary model and no finally-clause restores it"))
                    if why:
                        dirty = True
                        continue
                    if isinstance(st, ast.Return):
                        if dirty and not protected:
                            problems.append(("return", st, "returns while the engine is still bound to a temporary model"))
                        elif dirty and protected:
                            pass
                        return dirty, True
                    if isinstance(st, ast.Raise):
                        if dirty and not protected:
                            problems.append(("raise", st, "raises while the engine is still bound to a temporary model"))
                        return dirty, True
                return dirty, False

            walk(f.body, False, False)
            n_rebind = sum(1 for st in ast.walk(f.node) if isinstance(st, ast.stmt) and not isinstance(st, (ast.If, ast.For, ast.While, ast.Try, ast.With, ast.FunctionDef))
                           and _is_rebind(st, rebinders))
            rc.ob(f"{cname}.{mname}: {n_rebind} re-binding statement(s), saved entry model in {sorted(saved)}, {len(problems)} unrestored exit(s)")
            seen = set()
            for kind, st, msg in problems:
                key = (kind,)
                if key in seen:
                    continue
                seen.add(key)
                rc.fail(f, st, f"{cname}.{mname}: {msg} (`{norm(st, 60)}`); a later query on the same engine then answers about the wrong model",
                        construct=f"{cname}.{mname} unrestored on {kind}")


# ------------------------------------------------------------------------------------------------
OPTIONAL_NODE_PARAMS = {"node", "variable", "observed"}


@rule("C16.names", "optional node-valued parameters are tested with `is None`, not by truthiness", floor=8)
def names(rc):
    repo = rc.repo
    files = MODEL_FILES + ("pgmpy/models/MarkovChain.py",)
    for f in repo.all_functions():
        if f.file not in files or f.cls is None:
            continue
        for p in f.params[1:]:
            if p not in OPTIONAL_NODE_PARAMS:
                continue
            d = f.param_default(p)
            if not (isinstance(d, ast.Constant) and d.value is None):
                continue
            n_tests = 0
            for n in walk_no_nested(f.node):
                tests = []
                if isinstance(n, (ast.If, ast.IfExp, ast.While)):
                    tests.append(n.test)
                for t in tests:
                    for leaf in _leaves(t):
                        if isinstance(leaf, ast.Name) and leaf.id == p:
                            n_tests += 1
                            rc.fail(f, t, f"{f.qual}: optional parameter `{p}` (a node name) is tested by truthiness; a falsy name such as 0 or '' is treated as 'not given'",
                                    construct=f"truthiness test of {p}")
                        elif isinstance(leaf, ast.Compare) and dotted(leaf.left) == p and isinstance(leaf.ops[0], (ast.Is, ast.IsNot)):
                            n_tests += 1
            rc.ob(f"{f.file}:{f.qual}({p}=None): {n_tests} presence test(s)")
    # a parameter that is either a node name or a model object (CPD / factor) is classified by the OBJECT's class: any hashable is a node name, so a closed
    # list of scalar name types sends tuple / float / frozenset names down the object path
    n_disc = 0
    for f in repo.all_functions():
        if f.file not in files or f.cls is None:
            continue
        for st in walk_no_nested(f.node):
            if not isinstance(st, ast.If):
                continue
            neg = isinstance(st.test, ast.UnaryOp) and isinstance(st.test.op, ast.Not)
            b = tm.is_(st.test.operand if neg else st.test, "isinstance(_X, __T)")
            if not b:
                continue
            def _lookups(stmts):
                return [x for x in stmts if isinstance(x, ast.Assign) and norm(x.targets[0]) == b["_X"] and isinstance(x.value, ast.Call)
                        and isinstance(x.value.func, ast.Attribute) and dotted(x.value.func.value) == "self" and x.value.func.attr.startswith("get_")
                        and any(norm(a) == b["_X"] for a in x.value.args)]
            look = _lookups(st.body)
            if not look and _lookups(st.orelse):
                look, neg = _lookups(st.orelse), not neg  # the name path is the else branch
            if not look:
                continue
            n_disc += 1
            tnames = {x.id for x in ast.walk(b["__T"]) if isinstance(x, ast.Name)}
            rc.ob(f"{f.file}:{f.qual}: `{b['_X']}` is a name iff {'not ' if neg else ''}isinstance(·, {sorted(tnames)}), then looked up with {norm(look[0].value.func)}")
            if not neg and tnames and tnames <= {"str", "int", "float", "bytes"}:
                rc.fail(f, st.test, f"{f.qual}: `{b['_X']}` is taken for a node name only if it is a {'/'.join(sorted(tnames))}; every hashable is a legal node name, so a tuple, float "
                        f"or frozenset name is treated as the object itself (`{norm(look[0], 60)}` skipped)", construct=f"{f.qual} name-or-object by name type")
    if n_disc < 2:
        raise AnalysisError(f"C16.names: expected the name-or-object discriminations of remove_cpds (Bayesian and dynamic network), found {n_disc}")
    # a single node handed to Independencies.add_assertions / IndependenceAssertion is wrapped in a collection: the callee understands a bare event only if it
    # is a str (`_return_list_if_not_collection`), so a bare tuple name is split into its elements and a bare int name raises
    n_as = 0
    for f in repo.all_functions():
        if not f.file.startswith(("pgmpy/base/", "pgmpy/models/")):
            continue
        loopvars = set()
        for n in walk_no_nested(f.node):
            if isinstance(n, (ast.For, ast.comprehension)) and isinstance(n.target, ast.Name):
                if isinstance(n.iter, ast.Call) and call_name(n.iter) in ("combinations", "permutations", "product", "zip", "enumerate", "items", "combinations_with_replacement"):
                    continue  # the elements are tuples of nodes (collections), not single nodes
                loopvars.add(n.target.id)
        for c in repo.calls_in(f):
            if call_name(c) != "add_assertions":
                continue
            for arg in c.args:
                if not (isinstance(arg, (ast.List, ast.Tuple)) and len(arg.elts) >= 2):
                    continue
                n_as += 1
                bare = [e for e in arg.elts if isinstance(e, ast.Name) and e.id in loopvars]
                rc.ob(f"{f.file}:{f.qual}: assertion `{norm(arg, 70)}`: {len(bare)} bare loop variable(s)")
                for e in bare:
                    rc.fail(f, arg, f"{f.qual}: the node `{e.id}` is passed bare in the assertion `{norm(arg, 60)}`; only a str is wrapped by the callee — a tuple name is "
                            f"split into its elements (assertions about variables that do not exist), an int name raises", construct=f"{f.qual} bare node {e.id} in assertion")
    if n_as < 3:
        raise AnalysisError(f"C16.names: expected the assertion-building sites of DAG and MarkovNetwork, found {n_as}")
    # elements of a caller's node / edge list are never judged by truthiness: 0, '' and False are legal node names, so `if not all(edge[:2]): continue` or
    # `if node:` silently skips them
    n_loops = 0
    for f in repo.all_functions():
        if not (f.file.startswith("pgmpy/base/") or f.file in files) or f.cls is None:
            continue
        params = set(f.params[1:])
        for lp in ast.walk(f.node):
            if not isinstance(lp, (ast.For, ast.comprehension)):
                continue
            src = lp.iter
            while isinstance(src, (ast.Subscript, ast.Call)) and not isinstance(src, ast.Name):
                src = src.value if isinstance(src, ast.Subscript) else (src.args[0] if src.args else None)
                if src is None:
                    break
            if not (isinstance(src, ast.Name) and src.id in params):
                continue
            n_loops += 1
            lv = {x.id for x in ast.walk(lp.target) if isinstance(x, ast.Name)}
            tests = []
            body_nodes = lp.body if isinstance(lp, ast.For) else []
            for st in body_nodes:
                for n in ast.walk(st):
                    if isinstance(n, (ast.If, ast.IfExp, ast.While)):
                        tests.append(n.test)
            if isinstance(lp, ast.comprehension):
                tests += lp.ifs
            for t in tests:
                for leaf in _leaves(t):
                    base = leaf
                    if isinstance(leaf, ast.Call) and isinstance(leaf.func, ast.Name) and leaf.func.id in ("all", "any") and leaf.args:
                        base = leaf.args[0]
                    elif isinstance(leaf, ast.Call):
                        continue
                    while isinstance(base, ast.Subscript):
                        base = base.value
                    if isinstance(base, ast.Name) and base.id in lv and not isinstance(leaf, ast.Compare):
                        rc.fail(f, t, f"{f.qual}: `{norm(leaf, 40)}` judges an element of the caller's `{src.id}` by truthiness: nodes named 0, '' or False (and edges touching them) are "
                                "silently treated as absent", construct=f"{f.qual} truthiness of element of {src.id}")
    rc.ob(f"{n_loops} loop(s) over caller-supplied node / edge lists in graph and model classes: no element judged by truthiness")
    # presence in a mapping of states / evidence is tested with `in` or `is None`: `if d.get(k):` is also false for the legitimate state 0 (or '')
    n_get = 0
    for f in repo.all_functions():
        if not f.file.startswith(("pgmpy/inference/", "pgmpy/models/", "pgmpy/sampling/", "pgmpy/base/", "pgmpy/factors/", "pgmpy/estimators/")):
            continue
        for n in ast.walk(f.node):
            tests = []
            if isinstance(n, (ast.If, ast.IfExp, ast.While)):
                tests.append(n.test)
            if isinstance(n, ast.comprehension):
                tests += n.ifs
            for t in tests:
                for leaf in _leaves(t):
                    if isinstance(leaf, ast.Call) and isinstance(leaf.func, ast.Attribute) and leaf.func.attr == "get" and len(leaf.args) == 1 and not leaf.keywords:
                        n_get += 1
                        rc.fail(f, t, f"{f.qual}: `{norm(leaf, 50)}` is tested by truthiness: a stored state / value 0 (or '') counts as absent — test `key in mapping` or `is None`",
                                construct=f"{f.qual} truthiness of {norm(leaf, 40)}")
    rc.ob(f"mapping lookups `.get(key)` used as conditions: {n_get}")
    # a node name that becomes part of a label (column name) goes through str(): `name + "_"` raises for every non-string node name
    n_cat = 0
    for f in repo.all_functions():
        if f.file not in files or f.cls is None:
            continue
        loopvars = set()
        for n in ast.walk(f.node):
            if isinstance(n, (ast.For, ast.comprehension)):
                loopvars |= {x.id for x in ast.walk(n.target) if isinstance(x, ast.Name)}
        for n in ast.walk(f.node):
            if isinstance(n, ast.BinOp) and isinstance(n.op, ast.Add):
                ops = (n.left, n.right)
                if any(isinstance(o, ast.Constant) and isinstance(o.value, str) for o in ops):
                    n_cat += 1
                    for o in ops:
                        if isinstance(o, ast.Name) and o.id in loopvars:
                            rc.fail(f, n, f"{f.qual}: `{norm(n, 50)}` concatenates the loop variable `{o.id}` (a node / state) with a string without str(): a non-string name raises "
                                    "TypeError", construct=f"{f.qual} bare {o.id} + str")
    rc.ob(f"model files: {n_cat} string concatenation(s) examined for bare node names")


def _leaves(t):
    if isinstance(t, ast.BoolOp):
        for v in t.values:
            yield from _leaves(v)
    elif isinstance(t, ast.UnaryOp) and isinstance(t.op, ast.Not):
        yield from _leaves(t.operand)
    else:
        yield t


@rule("C16.config", "the global backend configuration is written only inside the Config setters", floor=1)
def config(rc):
    repo = rc.repo
    n = 0
    for f in repo.all_functions():
        for node in walk_no_nested(f.node):
            targets = []
            if isinstance(node, ast.Assign):
                targets = node.targets
            elif isinstance(node, ast.AugAssign):
                targets = [node.target]
            for t in targets:
                if isinstance(t, ast.Attribute) and t.attr in ("BACKEND", "DTYPE", "DEVICE"):
                    n += 1
                    inside = f.cls is not None and f.cls.name == "Config" and f.file == "pgmpy/global_vars.py"
                    if not inside:
                        rc.fail(f, node, f"{f.qual} writes the global configuration field {t.attr} directly; only the Config setters may (they keep backend, dtype and device consistent)",
                                construct=f"writes {t.attr}")
    rc.ob(f"{n} store(s) to BACKEND/DTYPE/DEVICE, all inside pgmpy/global_vars.py:Config")
    for mod in repo.modules.values():
        for node in mod.tree.body:
            if isinstance(node, ast.Assign) and any(isinstance(t, ast.Attribute) and t.attr in ("BACKEND", "DTYPE", "DEVICE") for t in node.targets):
                rc.fail(None, node, "module-level write to the global configuration", construct="module-level config write", file=mod.rel, func="<module>")


# numpy operation -> (torch operation, {numpy keyword: torch keyword}); frozen after reading pgmpy/utils/compat_fns.py and the two libraries' documentation
SHIM_PAIRS = {
    "np.max": ("torch.amax", {"axis": "dim"}), "np.einsum": ("torch.einsum", {}), "np.argmax": ("torch.argmax", {}), "np.stack": ("torch.stack", {}),
    "np.ones": ("torch.ones", {"dtype": "dtype"}), "np.unique": ("torch.unique", {"axis": "dim", "return_counts": "return_counts", "return_inverse": "return_inverse"}),
    "np.flip": ("torch.flip", {"axis": "dims"}), "np.transpose": ("torch.permute", {"axes": "dims"}), "np.exp": ("<arr>.exp", {}), "np.sum": ("torch.sum", {}),
    "np.array": ("torch.clone", {}), "<arr>.tobytes": ("<arr>.numpy(force=True).tobytes", {}), "<arr>.ravel": ("to_numpy(<arr>).ravel", {}),
}


@rule("C16.shims", "every numpy/torch shim performs the corresponding operation on the same arguments in both branches", floor=10)
def shims(rc):
    """pgmpy/utils/compat_fns.py is the only place where the two numeric backends differ.  Each shim has a numpy branch and a torch branch; the answers are
    backend-independent only if both branches apply the corresponding operation (frozen table) and hand every parameter of the shim to it under the
    corresponding keyword — a branch that drops `axis`, `return_inverse` or the Fortran order is wrong for one backend only."""
    repo = rc.repo
    mod = repo.module("pgmpy/utils/compat_fns.py")
    n = 0
    for f in mod.functions.values():
        # no shim edits the numbers it was given: no item store into an array, no rounding except to_numpy's explicit `decimals`
        for st in ast.walk(f.node):
            tg = st.targets if isinstance(st, ast.Assign) else ([st.target] if isinstance(st, ast.AugAssign) else [])
            for t in tg:
                if isinstance(t, ast.Subscript):
                    rc.fail(f, st, f"compat_fns.{f.name}: `{norm(st, 60)}` overwrites entries of the array it converts: every caller (writers, samplers, factor algebra) sees changed numbers",
                            construct=f"compat_fns.{f.name} item store")
            if isinstance(st, ast.Call) and call_name(st) in ("round", "around", "clip", "nan_to_num", "where") and not (call_name(st) == "round" and st.args and dotted(st.args[0]) == "decimals"):
                rc.fail(f, st, f"compat_fns.{f.name}: `{norm(st, 60)}` alters the values it passes on", construct=f"compat_fns.{f.name} alters values")
        rets = [r for r in ast.walk(f.node) if isinstance(r, ast.Return) and r.value is not None]
        calls = []
        for r in rets:
            v = r.value
            if isinstance(v, ast.Call):
                calls.append((r, v))
        if len(calls) < 2 or f.name in ("to_numpy", "copy", "get_compute_backend", "size"):
            continue
        first = f.params[0] if f.params else None
        # the array handed to the paired operation is the caller's array: a shim never re-binds it (rounding, casting, clipping change the numbers for one or both
        # backends; `to_numpy`, the only conversion, is not a paired shim)
        for st in ast.walk(f.node):
            tg = st.targets if isinstance(st, ast.Assign) else ([st.target] if isinstance(st, ast.AugAssign) else [])
            for t in tg:
                if first and isinstance(t, ast.Name) and t.id == first:
                    rc.fail(f, st, f"compat_fns.{f.name}: the array argument is re-bound before the operation (`{norm(st, 60)}`): the shim changes the caller's numbers",
                            construct=f"compat_fns.{f.name} rebinds {first}")

        def opname(c):
            t = norm(c.func)
            if first:
                t = re.sub(rf"\b{first}\b", "<arr>", t)
            return t
        np_calls = [(r, c) for r, c in calls if opname(c).startswith(("np.", "<arr>.ravel", "<arr>.tobytes"))]
        th_calls = [(r, c) for r, c in calls if (r, c) not in np_calls]
        if len(np_calls) != 1 or len(th_calls) != 1:
            raise AnalysisError(f"compat_fns.{f.name}: cannot tell the numpy branch from the torch branch")
        (_, cn), (_, ct) = np_calls[0], th_calls[0]
        on, ot = opname(cn), opname(ct)
        n += 1
        rc.ob(f"compat_fns.{f.name}: numpy `{norm(cn, 60)}` / torch `{norm(ct, 60)}`")
        want = SHIM_PAIRS.get(on)
        if want is None:
            raise AnalysisError(f"compat_fns.{f.name}: numpy operation `{on}` is not in the frozen correspondence table")
        if ot != want[0]:
            rc.fail(f, ct, f"compat_fns.{f.name}: the numpy branch applies `{on}` but the torch branch `{ot}` (expected `{want[0]}`): the two backends compute different things",
                    construct=f"compat_fns.{f.name} operation pair")
            continue
        # every parameter reaches both calls, under corresponding keywords
        for p in f.params:
            def where(c):
                out = []
                for k, a in enumerate(c.args):
                    if any(isinstance(x, ast.Name) and x.id == p for x in ast.walk(a)):
                        out.append(f"#{k}")
                for kw in c.keywords:
                    if any(isinstance(x, ast.Name) and x.id == p for x in ast.walk(kw.value)):
                        out.append(kw.arg)
                if isinstance(c.func, ast.Attribute) and any(isinstance(x, ast.Name) and x.id == p for x in ast.walk(c.func.value)):
                    out.append("<receiver>")
                return out
            wn, wt = where(cn), where(ct)
            if not wn or not wt:
                rc.fail(f, ct if not wt else cn, f"compat_fns.{f.name}: the parameter `{p}` reaches the numpy call as {wn or 'nothing'} and the torch call as {wt or 'nothing'}: one backend ignores it",
                        construct=f"compat_fns.{f.name} parameter {p}")
                continue
            for k in wn:
                if k.startswith(("#", "<")):
                    continue
                tk = want[1].get(k)
                if tk is not None and tk not in wt:
                    rc.fail(f, ct, f"compat_fns.{f.name}: `{p}` is numpy's `{k}` and must be torch's `{tk}`; found {wt}", construct=f"compat_fns.{f.name} keyword {k}")
        # constant arguments (e.g. the Fortran order) must be present on both sides
        cn_consts = sorted(repr(a.value) for a in cn.args if isinstance(a, ast.Constant))
        ct_consts = sorted(repr(a.value) for a in ct.args if isinstance(a, ast.Constant))
        if cn_consts != ct_consts:
            rc.fail(f, ct, f"compat_fns.{f.name}: constant arguments differ between the branches ({cn_consts} vs {ct_consts})", construct=f"compat_fns.{f.name} constants")


@rule("C16.memo", "caches that outlive a call are keyed by everything the cached value depends on; BP re-calibrates unless the tree IS calibrated for the operation", floor=2)
def memo(rc):
    shared.memo_rule(rc, ("pgmpy/inference/", "pgmpy/sampling/", "pgmpy/estimators/", "pgmpy/models/", "pgmpy/factors/"))
    q = rc.repo.func(EI, "BeliefPropagation._query")
    uses = [n for n in walk_no_nested(q.node) if isinstance(n, ast.Call) and call_name(n) == "_is_converged" and dotted(kwarg(n, "operation") or (n.args[0] if n.args else None)) == "operation"]
    guards = [s for s in __import__("sa.guards", fromlist=["sites"]).sites(q.node, lambda n: isinstance(n, ast.Call) and call_name(n) in ("calibrate", "max_calibrate", "_calibrate_junction_tree"))]
    rc.ob(f"BeliefPropagation._query: convergence test for the requested operation: {len(uses)}; calibration sites: {[norm(g.node) for g in guards]}")
    if not uses:
        rc.fail(q, q.node, "a query must re-calibrate unless the clique tree is calibrated FOR THIS operation (beliefs left by max_calibrate or edited factors must not be reused)",
                construct="BP stale calibration")
    for g in guards:
        conds = [norm(t) for t, pol in g.conds]
        if any("clique_beliefs" in c and "is_converged" not in c for c in conds):
            rc.fail(q, g.node, "calibration is skipped merely because some beliefs exist", construct="BP calibration guard")


@rule("C16.defuse", "anchored files: no parameter is accepted and ignored (generic def-use detector, triaged exemptions)", floor=2)
def defuse(rc):
    from . import shared as _sh
    _sh.defuse_rule(rc, _sh.anchor_files("C16"))

MUTANTS = [
    dict(kind="break", name="shim-unique-rounds-input", file="pgmpy/utils/compat_fns.py", expect="C16.shims",
         old="    if isinstance(arr, np.ndarray):\n        return np.unique(", new="    if isinstance(arr, np.ndarray):\n        arr = arr.round(decimals=8)\n        return np.unique("),
    dict(kind="break", name="restore-from-model-saved-after-rebinding", file="pgmpy/inference/ExactInference.py", expect="C16.engine",
         old="            orig_model = self.model\n            virt_evidence = self._virtual_evidence(virtual_evidence)\n            try:\n                return self.map_query(",
         new="            virt_evidence = self._virtual_evidence(virtual_evidence)\n            orig_model = self.model\n            try:\n                return self.map_query("),
    dict(kind="break", name="shim-torch-unique-drops-inverse", file="pgmpy/utils/compat_fns.py", expect="C16.shims",
         old="            arr, return_inverse=return_inverse, return_counts=return_counts, dim=axis", new="            arr, return_counts=return_counts, dim=axis"),
    dict(kind="break", name="shim-torch-ravel-c-order", file="pgmpy/utils/compat_fns.py", expect="C16.shims",
         old='        return to_numpy(arr).ravel("F")', new="        return to_numpy(arr).ravel()"),
    dict(kind="break", name="shim-torch-max-instead-of-amax-axis", file="pgmpy/utils/compat_fns.py", expect="C16.shims",
         old="        return torch.amax(arr, dim=axis)", new="        return torch.amax(arr)"),
    dict(kind="break", name="shim-torch-sum-is-mean", file="pgmpy/utils/compat_fns.py", expect="C16.shims",
         old="        return torch.sum(arr)", new="        return torch.mean(arr)"),
    dict(kind="twin", name="shim-keyword-order", file="pgmpy/utils/compat_fns.py",
         old="            arr, return_inverse=return_inverse, return_counts=return_counts, dim=axis", new="            arr, dim=axis, return_counts=return_counts, return_inverse=return_inverse"),
    dict(kind="break", name="predict-probability-bare-node-label", file="pgmpy/models/BayesianNetwork.py", expect="C16.names",
         old='pred_values[str(k) + "_" + str(state)]', new='pred_values[k + "_" + str(state)]'),
    dict(kind="break", name="assertion-bare-start-node", file="pgmpy/base/DAG.py", expect="C16.names",
         old="                            [[start], d_seperated_variables, observed]", new="                            [start, d_seperated_variables, observed]"),
    dict(kind="break", name="markov-assertion-bare-node", file="pgmpy/models/MarkovNetwork.py", expect="C16.names",
         old="                    [[node], list(rest), list(markov_blanket)]", new="                    [node, list(rest), list(markov_blanket)]"),
    dict(kind="twin", name="assertion-node-in-set", file="pgmpy/base/DAG.py",
         old="                    [[variable], non_descendents - parents, parents]", new="                    [{variable}, non_descendents - parents, parents]"),
    dict(kind="break", name="remove-cpds-name-by-scalar-type", file="pgmpy/models/BayesianNetwork.py", expect="C16.names",
         old="            if not isinstance(cpd, BaseFactor):\n                cpd = self.get_cpds(cpd)", new="            if isinstance(cpd, (str, int)):\n                cpd = self.get_cpds(cpd)"),
    dict(kind="twin", name="remove-cpds-name-by-object-class-positive", file="pgmpy/models/BayesianNetwork.py",
         old="            if not isinstance(cpd, BaseFactor):\n                cpd = self.get_cpds(cpd)", new="            if isinstance(cpd, BaseFactor):\n                pass\n            else:\n                cpd = self.get_cpds(cpd)"),
    dict(kind="break", name="uai-writer-str-accumulates", file="pgmpy/readwrite/UAI.py", expect="C16.observers",
         old="        network = self.network\n        network += self.no_nodes + \"\\n\"", new="        self.network += self.no_nodes + \"\\n\"\n        network = self.network"),
    dict(kind="break", name="hillclimb-edits-start-dag", file="pgmpy/estimators/HillClimbSearch.py", expect="C16.pure",
         old="            start_dag = start_dag.copy()\n", new="            pass\n"),
    dict(kind="break", name="simulate-writes-into-evidence", file="pgmpy/models/BayesianNetwork.py", expect="C16.pure",
         old="evidence = {} if evidence is None else dict(evidence)", new="evidence = {} if evidence is None else evidence"),
    dict(kind="break", name="ve-reduces-model-factors-in-place", file=EI, expect="C16.pure",
         old="                    factor_reduced = factor.reduce(\n                        [(evidence_var, evidence[evidence_var])], inplace=False\n                    )",
         new="                    factor_reduced = factor\n                    factor.reduce(\n                        [(evidence_var, evidence[evidence_var])]\n                    )"),
    dict(kind="break", name="prune-marginalises-model-cpd-in-place", file=IB, expect="C16.pure",
         old="                cpds.append(cpd.marginalize(scope_diff, inplace=False))", new="                cpd.marginalize(scope_diff)\n                cpds.append(cpd)"),
    dict(kind="break", name="bp-query-restore-not-in-finally", file=EI, expect="C16.engine",
         old="        finally:\n            # Rebind the engine to the original model even if the query fails.\n            self.__init__(orig_model)\n\n        if joint:\n            return result.normalize(inplace=False)",
         new="        except KeyError:\n            raise\n        self.__init__(orig_model)\n\n        if joint:\n            return result.normalize(inplace=False)"),
    dict(kind="break", name="ve-virtual-evidence-not-restored", file=EI, expect="C16.engine",
         old="                    elimination_order=elimination_order,\n                    joint=joint,\n                    show_progress=show_progress,\n                )\n            finally:\n                # Rebind the engine to the original model (without the virtual evidence nodes).\n                self.__init__(orig_model)",
         new="                    elimination_order=elimination_order,\n                    joint=joint,\n                    show_progress=show_progress,\n                )\n            finally:\n                pass"),
    dict(kind="break", name="bp-query-reuses-any-beliefs", file=EI, expect="C16.memo",
         old="        is_calibrated = self._is_converged(operation=operation)\n        # Calibrate the junction tree if not calibrated\n        if not is_calibrated:\n            self.calibrate()",
         new="        if not self.clique_beliefs:\n            self.calibrate()"),
    dict(kind="break", name="reduce-maps-cached-by-node-only", file="pgmpy/sampling/Sampling.py", expect="C16.memo",
         old="    def __init__(self, model):\n        super(BayesianModelSampling, self).__init__(model)\n",
         new="    def __init__(self, model):\n        super(BayesianModelSampling, self).__init__(model)\n        self._maps = {}\n\n    def _get_maps(self, node, evidence):\n        if node not in self._maps:\n            self._maps[node] = self.pre_compute_reduce_maps(node, evidence)\n        return self._maps[node]\n"),
    dict(kind="break", name="get-cardinality-truthiness", file="pgmpy/models/MarkovNetwork.py", expect="C16.names",
         old="        if node is not None:\n            for factor in self.factors:\n                for variable, cardinality in zip(factor.scope(), factor.cardinality):",
         new="        if node:\n            for factor in self.factors:\n                for variable, cardinality in zip(factor.scope(), factor.cardinality):"),
    dict(kind="break", name="backend-written-outside-config", file="pgmpy/utils/compat_fns.py", expect="C16.config",
         old="def get_compute_backend():\n", new="def get_compute_backend():\n    config.BACKEND = config.BACKEND or \"numpy\"\n"),
    dict(kind="twin", name="simulate-copies-evidence-differently", file="pgmpy/models/BayesianNetwork.py",
         old="evidence = {} if evidence is None else dict(evidence)", new="evidence = {} if evidence is None else {k: v for k, v in evidence.items()}"),
]
