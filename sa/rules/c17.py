"""C17 — dynamic-network inference equals inference on the unrolled network."""
from __future__ import annotations

import ast

from ..core import AnalysisError, call_name, dotted, kwarg, norm, walk_no_nested, has_starstar
from ..guards import sites
from ..registry import describe, rule
from ..util import calls_named, returns_of

DBN = "pgmpy/models/DynamicBayesianNetwork.py"
DI = "pgmpy/inference/dbn_inference.py"
EI = "pgmpy/inference/ExactInference.py"

describe(
    "C17",
    "only the second sentence of the property and the structural skeleton of the interface algorithm: every CPD/factor that the "
    "dynamic network or its inference engine re-creates from an existing one (constant two-slice network, initial-state completion, "
    "time-shifted interface potentials, per-slice results) forwards the source's state names, takes its evidence order from the "
    "source CPD's own variables (moved to the other slice) and never from a graph query, and reshapes with the CPD's own "
    "cardinalities, never an integer literal; time shifting keeps scope order, cardinalities and values together; the engine builds a "
    "fresh BeliefPropagation per slice and BeliefPropagation copies a junction tree it is given, so per-slice edits stay private.",
    ["that the interface algorithm's marginals equal those of the unrolled network (numeric, algorithmic)", "evidence handling across slices"],
)


def _ctor_sites(repo, f):
    out = []
    for c in repo.calls_in(f):
        if isinstance(c.func, ast.Name) and c.func.id in ("TabularCPD", "DiscreteFactor"):
            out.append(c)
    return out


@rule("C17.recreate", "re-created CPDs/factors keep state names, the source's evidence order and its cardinalities", floor=6)
def recreate(rc):
    repo = rc.repo
    targets = [(DBN, "DynamicBayesianNetwork.get_constant_bn"), (DBN, "DynamicBayesianNetwork.initialize_initial_state"),
               (DI, "DBNInference._shift_factor"), (DI, "DBNInference.forward_inference"), (DI, "DBNInference.backward_inference")]
    for rel, q in targets:
        f = repo.func(rel, q)
        d = {n.targets[0].id: n.value for n in walk_no_nested(f.node) if isinstance(n, ast.Assign) and isinstance(n.targets[0], ast.Name)}
        cs = _ctor_sites(repo, f)
        if not cs:
            raise AnalysisError(f"{q}: no CPD/factor construction found")
        for c in cs:
            txt = norm(c, 2000)
            sn = kwarg(c, "state_names")
            rc.ob(f"{q}: {norm(c, 80)} state_names={'yes' if sn is not None else 'NO'}")
            if sn is None and not has_starstar(c):
                rc.fail(f, c, f"{q} re-creates a {c.func.id} from an existing one without its state names: named states come back as 0..k-1", construct=f"{q} without state_names: {norm(c, 60)}")
            elif sn is not None and "state_names" not in norm(sn):
                rc.fail(f, c, f"{q}: the re-created {c.func.id}'s state names do not come from the source", construct=f"{q} foreign state_names")
            # integer literals as reshape dimensions
            for r in [x for x in ast.walk(c) if isinstance(x, ast.Call) and call_name(x) == "reshape"]:
                dims = r.args[1:] if isinstance(r.func, ast.Attribute) and dotted(r.func.value) in ("np", "numpy") else r.args
                for a in dims:
                    for lit in [x for x in ast.walk(a) if isinstance(x, ast.Constant) and isinstance(x.value, int) and x.value >= 2]:
                        rc.fail(f, r, f"{q}: `{norm(r, 70)}` reshapes with the literal {lit.value}: a variable with another number of states is rejected or scrambled",
                                construct=f"{q} literal reshape {norm(r, 60)}")
            # evidence order
            ev = kwarg(c, "evidence") or (c.args[3] if c.func.id == "TabularCPD" and len(c.args) > 3 else None)
            if ev is not None:
                src = d.get(ev.id, ev) if isinstance(ev, ast.Name) else ev
                t = norm(src, 300)
                rc.ob(f"{q}: evidence = {t}")
                if "get_parents(" in t or "predecessors(" in t or ".edges" in t:
                    rc.fail(f, c, f"{q}: the copied table keeps the source CPD's axis order but its parents are labelled in the graph's order `{t}`", construct=f"{q} evidence from graph")
                elif "cpd.variables" not in t and "new_vars" not in t:
                    rc.fail(f, c, f"{q}: evidence order `{t}` is not derived from the source CPD's own variables", construct=f"{q} evidence source")
    # time shift keeps things together
    sh = repo.func(DI, "DBNInference._shift_factor")
    c = _ctor_sites(repo, sh)[0]
    a = [norm(x) for x in c.args[:3]]
    d = {n.targets[0].id: norm(n.value) for n in walk_no_nested(sh.node) if isinstance(n, ast.Assign) and isinstance(n.targets[0], ast.Name)}
    ok = a[1:] == ["factor.cardinality", "factor.values"] and d.get(a[0], "") == "self._shift_nodes(factor.scope(), shift)"
    rc.ob(f"_shift_factor: new scope {d.get(a[0])}, cardinality {a[1]}, values {a[2]}")
    if not ok:
        rc.fail(sh, c, "a time-shifted factor must keep the scope ORDER, the cardinalities and the values of the source", construct="shift factor")
    sn = repo.func(DI, "DBNInference._shift_nodes")
    if norm(returns_of(sn)[0].value) != "[(node[0], time_slice) for node in nodes]":
        rc.fail(sn, sn.node, "shifting nodes must keep their order and names and only replace the time slice", construct="shift nodes")
    # constant BN: names and edges shifted by the same offset
    cb = repo.func(DBN, "DynamicBayesianNetwork.get_constant_bn")
    t = norm(cb.node, 100000)
    okc = "str(var) + '_' + str(time + t_slice) for var, time in cpd.variables" in t and "str(u[0]) + '_' + str(u[1] + t_slice)" in t and "values=cpd.get_values()" in t \
        and "evidence=new_vars[1:]" in t and "evidence_card=cpd.cardinality[1:]" in t and "variable=new_vars[0]" in t
    rc.ob(f"get_constant_bn: variables/edges renamed with one offset, table and evidence taken from the CPD itself: {okc}")
    if not okc:
        rc.fail(cb, cb.node, "the constant network must expose each template CPD unchanged (own table, own evidence order, consistently renamed variables)", construct="constant bn")


@rule("C17.engines", "a fresh BeliefPropagation per slice; BeliefPropagation copies the junction tree it is given", floor=3)
def engines(rc):
    repo = rc.repo
    f = repo.func(DI, "DBNInference.forward_inference")
    loops = [n for n in walk_no_nested(f.node) if isinstance(n, ast.For) and "range(1, time_range + 1)" in norm(n.iter)]
    if not loops:
        raise AnalysisError("forward_inference: slice loop not found")
    lp = loops[0]
    fresh = [n for n in ast.walk(lp) if isinstance(n, ast.Assign) and norm(n.value) == "BeliefPropagation(self.one_and_half_junction_tree)"]
    upd = [n for n in ast.walk(lp) if isinstance(n, ast.Call) and call_name(n) == "_update_belief"]
    rc.ob(f"forward_inference: per-slice engines {len(fresh)}, belief updates {len(upd)}")
    if not fresh:
        rc.fail(f, lp, "every time slice must start from a fresh BeliefPropagation over the 1.5-slice junction tree", construct="fresh engine per slice")
    elif upd and fresh[0].lineno > upd[0].lineno:
        rc.fail(f, lp, "the fresh engine must be created before the interface potential is multiplied in", construct="engine order")
    b = repo.func(DI, "DBNInference.backward_inference")
    if "mid_bp = BeliefPropagation(self.one_and_half_junction_tree)" not in norm(b.node, 100000):
        rc.fail(b, b.node, "backward pass: a fresh engine per slice", construct="fresh engine backward")
    rc.ob("backward_inference: fresh engine per slice")
    init = repo.func(EI, "BeliefPropagation.__init__")
    t = norm(init.node, 5000)
    ok = "self.junction_tree = copy.deepcopy(model)" in t or "self.junction_tree = model.copy()" in t
    rc.ob(f"BeliefPropagation.__init__ copies a given junction tree: {ok}")
    if not ok:
        rc.fail(init, init.node, "BeliefPropagation must work on a private copy of a junction tree it is given (DBN inference edits its factors per slice)", construct="private junction tree")
    u = repo.func(DI, "DBNInference._update_belief")
    tu = norm(u.node, 100000)
    oku = "belief_prop.junction_tree.remove_factors(old_factor)" in tu and "belief_prop.junction_tree.add_factors(new_factor)" in tu and "belief_prop.calibrate()" in tu \
        and "self.one_and_half_junction_tree" not in tu and "self.start_junction_tree" not in tu
    if not oku:
        rc.fail(u, u.node, "belief updates must edit only the given engine's private junction tree and re-calibrate it", construct="update belief")
    rc.ob("_update_belief edits only the engine's own junction tree, then calibrates")



@rule("C17.defuse", "anchored files: no parameter is accepted and ignored (generic def-use detector, triaged exemptions)", floor=2)
def defuse(rc):
    from . import shared as _sh
    _sh.defuse_rule(rc, _sh.anchor_files("C17"))

MUTANTS = [
    dict(kind="break", name="initial-state-literal-two", file=DBN, expect="C17.recreate",
         old="np.reshape(cpd.values, (cpd.variable_card, -1)),", new="np.reshape(cpd.values, (2, -1)),"),
    dict(kind="break", name="initial-state-parents-from-graph", file=DBN, expect="C17.recreate",
         old="                            evidence,\n                            evidence_card,\n                            state_names={\n                                new_var: cpd.state_names[var]",
         new="                            parents,\n                            evidence_card,\n                            state_names={\n                                new_var: cpd.state_names[var]"),
    dict(kind="break", name="constant-bn-drops-names", file=DBN, expect="C17.recreate",
         old="                    evidence_card=cpd.cardinality[1:],\n                    state_names={\n                        new_var: cpd.state_names[var]\n                        for new_var, var in zip(new_vars, cpd.variables)\n                    },\n",
         new="                    evidence_card=cpd.cardinality[1:],\n"),
    dict(kind="break", name="shift-factor-drops-names", file=DI, expect="C17.recreate",
         old="            factor.values,\n            state_names={\n                new_var: factor.state_names[var]\n                for new_var, var in zip(new_scope, factor.scope())\n            },\n", new="            factor.values,\n"),
    dict(kind="break", name="shift-nodes-sorted", file=DI, expect="C17.recreate",
         old="return [(node[0], time_slice) for node in nodes]", new="return sorted((node[0], time_slice) for node in nodes)"),
    dict(kind="break", name="engine-reused-across-slices", file=DI, expect="C17.engines",
         old="            potential_dict[time_slice] = new_factor\n            mid_bp = BeliefPropagation(self.one_and_half_junction_tree)\n", new="            potential_dict[time_slice] = new_factor\n"),
    dict(kind="break", name="bp-shares-junction-tree", file=EI, expect="C17.engines",
         old="self.junction_tree = copy.deepcopy(model)", new="self.junction_tree = model"),
]
