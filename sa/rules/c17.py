"""C17 — dynamic-network inference equals inference on the unrolled network."""
from __future__ import annotations

import ast

from ..core import AnalysisError, call_name, dotted, kwarg, norm, walk_no_nested, has_starstar
from ..guards import sites
from ..registry import describe, rule
from .. import tmatch as tm
from ..util import calls_named, returns_of

DBN = "pgmpy/models/DynamicBayesianNetwork.py"
DI = "pgmpy/inference/dbn_inference.py"
EI = "pgmpy/inference/ExactInference.py"

describe(
    "C17",
    "the second sentence of the property and the structural skeleton of the interface algorithm: every CPD/factor that the "
    "dynamic network or its inference engine re-creates from an existing one (constant two-slice network, initial-state completion, "
    "time-shifted interface potentials, per-slice results) forwards the source's state names, takes its evidence order from the "
    "source CPD's own variables (moved to the other slice) and never from a graph query, and reshapes with the CPD's own "
    "cardinalities, never an integer literal; time shifting keeps scope order, cardinalities and values together; the engine builds a "
    "fresh BeliefPropagation per slice and BeliefPropagation copies a junction tree it is given, so per-slice edits stay private; "
    "time-slice coordinates agree (evidence re-keyed to slice s is only filtered against the slice-s interface nodes; an interface "
    "marginal over slice K is shifted to 1-K); the observed interface nodes carried into a 1.5-slice step are re-computed on every "
    "path of every iteration and merged under no condition but their own non-emptiness, in the forward and in the backward pass; no "
    "message cache with an incomplete key.",
    ["that the interface algorithm's marginals equal those of the unrolled network (numeric, algorithmic)"],
)


def _deep(e, d, depth=0):
    """inline single-definition local names recursively"""
    import copy as _copy
    if e is None or depth > 6:
        return e

    class R(ast.NodeTransformer):
        def visit_Name(self, n):
            if n.id in d and isinstance(n.ctx, ast.Load) and not any(isinstance(x, ast.Name) and x.id == n.id for x in ast.walk(d[n.id])):
                return _deep(d[n.id], d, depth + 1)
            return n
    return R().visit(_copy.deepcopy(e))


def _ctor_sites(repo, f):
    out = []
    for c in repo.calls_in(f):
        if isinstance(c.func, ast.Name) and c.func.id in ("TabularCPD", "DiscreteFactor"):
            out.append(c)
    return out


@rule("C17.recreate", "re-created CPDs/factors keep state names, the source's evidence order and its cardinalities", floor=6)
def recreate(rc):
    repo = rc.repo
    targets = [(DBN, "DynamicBayesianNetwork.get_constant_bn"), (DBN, "DynamicBayesianNetwork.initialize_initial_state"),
               (DI, "DBNInference._shift_factor"), (DI, "DBNInference.forward_inference"), (DI, "DBNInference.backward_inference")]
    for rel, q in targets:
        f = repo.func(rel, q)
        d = {n.targets[0].id: n.value for n in walk_no_nested(f.node) if isinstance(n, ast.Assign) and isinstance(n.targets[0], ast.Name)}
        cs = _ctor_sites(repo, f)
        if not cs:
            raise AnalysisError(f"{q}: no CPD/factor construction found")
        for c in cs:
            txt = norm(c, 2000)
            sn = kwarg(c, "state_names")
            rc.ob(f"{q}: {norm(c, 80)} state_names={'yes' if sn is not None else 'NO'}")
            if sn is None and not has_starstar(c):
                rc.fail(f, c, f"{q} re-creates a {c.func.id} from an existing one without its state names: named states come back as 0..k-1", construct=f"{q} without state_names: {norm(c, 60)}")
            elif sn is not None and "state_names" not in norm(sn):
                rc.fail(f, c, f"{q}: the re-created {c.func.id}'s state names do not come from the source", construct=f"{q} foreign state_names")
            # integer literals as reshape dimensions
            for r in [x for x in ast.walk(c) if isinstance(x, ast.Call) and call_name(x) == "reshape"]:
                dims = r.args[1:] if isinstance(r.func, ast.Attribute) and dotted(r.func.value) in ("np", "numpy") else r.args
                for a in dims:
                    for lit in [x for x in ast.walk(a) if isinstance(x, ast.Constant) and isinstance(x.value, int) and x.value >= 2]:
                        rc.fail(f, r, f"{q}: `{norm(r, 70)}` reshapes with the literal {lit.value}: a variable with another number of states is rejected or scrambled",
                                construct=f"{q} literal reshape {norm(r, 60)}")
            # evidence order
            ev = kwarg(c, "evidence") or (c.args[3] if c.func.id == "TabularCPD" and len(c.args) > 3 else None)
            if ev is not None:
                src = _deep(ev, d)
                t = norm(src, 300)
                rc.ob(f"{q}: evidence = {t}")
                if "get_parents(" in t or "predecessors(" in t or ".edges" in t:
                    rc.fail(f, c, f"{q}: the copied table keeps the source CPD's axis order but its parents are labelled in the graph's order `{t}`", construct=f"{q} evidence from graph")
                elif not any(isinstance(x_, ast.Attribute) and x_.attr == "variables" and isinstance(x_.value, ast.Name) for x_ in ast.walk(src)):
                    rc.fail(f, c, f"{q}: evidence order `{t}` is not derived from the source CPD's own variables", construct=f"{q} evidence source")
    # time shift keeps things together
    sh = repo.func(DI, "DBNInference._shift_factor")
    c = _ctor_sites(repo, sh)[0]
    fa, sa_ = sh.params[1], sh.params[2]
    _, bsh = tm.find(sh.node, "_NS = self._shift_nodes(_f.scope(), _s)", {"_f": fa, "_s": sa_})
    ok = bsh is not None and tm.is_(c, "DiscreteFactor(_NS, _f.cardinality, _f.values, state_names=__SN)", bsh) is not None
    rc.ob(f"_shift_factor: new scope = shifted own scope, own cardinality and values: {ok}")
    if not ok:
        rc.fail(sh, c, "a time-shifted factor must keep the scope ORDER, the cardinalities and the values of the source", construct="shift factor")
    sn = repo.func(DI, "DBNInference._shift_nodes")
    if tm.is_(returns_of(sn)[0].value, "[(_n[0], _t) for _n in _ns]", {"_ns": sn.params[1], "_t": sn.params[2]}) is None:
        rc.fail(sn, sn.node, "shifting nodes must keep their order and names and only replace the time slice", construct="shift nodes")
    # constant BN: names and edges shifted by the same offset
    cb = repo.func(DBN, "DynamicBayesianNetwork.get_constant_bn")
    ts = cb.params[1]
    okc = False
    for lp in [n for n in walk_no_nested(cb.node) if isinstance(n, ast.For) and tm.is_(n.iter, "self.cpds") is not None and isinstance(n.target, ast.Name)]:
        B = {"_c": lp.target.id, "_ts": ts}
        _, b1 = tm.find(lp, "_NV = [str(_v) + '_' + str(_t + _ts) for _v, _t in _c.variables]", B)
        if b1 is None:
            continue
        for cc in [x for x in ast.walk(lp) if isinstance(x, ast.Call) and call_name(x) == "TabularCPD"]:
            kw = {k.arg: k.value for k in cc.keywords}
            okc = okc or (tm.is_(kw.get("variable"), "_NV[0]", b1) is not None and tm.is_(kw.get("variable_card"), "_c.cardinality[0]", b1) is not None
                          and tm.is_(kw.get("values"), "_c.get_values()", b1) is not None and tm.is_(kw.get("evidence"), "_NV[1:]", b1) is not None
                          and tm.is_(kw.get("evidence_card"), "_c.cardinality[1:]", b1) is not None)
    okc = okc and tm.has(cb.node, "_E = [(str(_u[0]) + '_' + str(_u[1] + _ts), str(_w[0]) + '_' + str(_w[1] + _ts)) for _u, _w in self.edges()]", {"_ts": ts})
    rc.ob(f"get_constant_bn: variables/edges renamed with one offset, table and evidence taken from the CPD itself: {okc}")
    if not okc:
        rc.fail(cb, cb.node, "the constant network must expose each template CPD unchanged (own table, own evidence order, consistently renamed variables)", construct="constant bn")


@rule("C17.slices", "time-slice coordinates agree: evidence re-keyed to slice s is only filtered against the slice-s interface nodes; interface marginals are shifted to the other slice", floor=5)
def slices(rc):
    """The 1.5-slice engine lives in coordinates (name, 0) / (name, 1).  `_get_evidence(evidence, t, s)` re-keys the evidence of absolute
    slice t to (name, s); `interface_nodes_K` holds (name, K) nodes.  A dictionary keyed in slice s filtered by membership in the slice-K
    interface nodes with s != K is always empty: observed interface nodes are then silently not carried to the next step."""
    repo = rc.repo
    # the horizon is the largest SLICE index: evidence and query variables are (name, slice) tuples, and max()/min()/sorted() of such tuples compare the NAMES
    # first — `max(evidence)[1]` is the slice of the alphabetically last variable, not the latest observed slice
    n_ext = 0
    for f in repo.cls(DI, "DBNInference").methods.values():
        tupled = {p_ for p_ in f.params if p_ in ("evidence", "variables")}
        for c in ast.walk(f.node):
            if isinstance(c, ast.Call) and isinstance(c.func, ast.Name) and c.func.id in ("max", "min", "sorted") and c.args:
                n_ext += 1
                a0 = c.args[0]
                if isinstance(a0, ast.Call) and call_name(a0) in ("keys", "list", "tuple", "set") and isinstance(getattr(a0.func, "value", None) or (a0.args[0] if a0.args else None), ast.Name):
                    a0 = a0.func.value if isinstance(a0.func, ast.Attribute) else a0.args[0]
                if isinstance(a0, ast.Name) and a0.id in tupled and kwarg(c, "key") is None:
                    rc.fail(f, c, f"{f.qual}: `{norm(c, 50)}` orders the (name, slice) tuples of `{a0.id}` by NAME first: the horizon must be the largest slice index "
                            "(e.g. max(t for _, t in evidence)); evidence after the slice of the alphabetically last variable is ignored", construct=f"{f.qual} extremum over (name, slice) tuples")
    rc.ob(f"DBNInference: {n_ext} max/min/sorted call(s); none orders (name, slice) tuples")
    init = repo.func(DI, "DBNInference.__init__")
    for K in (0, 1):
        if not tm.has(init.node, f"self.interface_nodes_{K} = model.get_interface_nodes(time_slice={K})"):
            rc.fail(init, init.node, f"interface_nodes_{K} must be the interface nodes of slice {K}", construct=f"interface nodes {K}")
    gi = repo.func(DBN, "DynamicBayesianNetwork.get_interface_nodes")
    if not any(tm.is_(r.value, "[DynamicNode(_e[time_slice][0], _e[time_slice][1]) for _e in self.get_inter_edges()]") is not None for r in returns_of(gi) if r.value is not None):
        rc.fail(gi, gi.node, "get_interface_nodes(time_slice=k) must return the slice-k endpoint of every inter-slice edge", construct="interface endpoints")
    ge = repo.func(DI, "DBNInference._get_evidence")
    P = ge.params  # self, evidence_dict, time_slice, shift
    okg = any(tm.is_(r.value, "{(_n[0], _sh): _ed[_n] for _n in _ed if _n[1] == _ts}", {"_ed": P[1], "_ts": P[2], "_sh": P[3]}) is not None for r in returns_of(ge) if r.value is not None)
    rc.ob(f"_get_evidence re-keys the evidence of slice `{P[2]}` to slice `{P[3]}`: {okg}")
    if not okg:
        rc.fail(ge, ge.node, "_get_evidence must select the evidence of the given absolute slice and re-key it to the requested engine slice", construct="get evidence")
    n_sites = 0
    for name in ("forward_inference", "backward_inference"):
        f = repo.func(DI, f"DBNInference.{name}")
        tags = {}
        for n in ast.walk(f.node):
            if isinstance(n, ast.Assign) and len(n.targets) == 1 and isinstance(n.targets[0], ast.Name):
                v = n.value
                if isinstance(v, ast.BoolOp) and isinstance(v.op, ast.Or) and v.values:
                    v = v.values[0]
                if isinstance(v, ast.Call) and call_name(v) == "_get_evidence" and len(v.args) == 3 and isinstance(v.args[2], ast.Constant):
                    tags.setdefault(n.targets[0].id, set()).add(v.args[2].value)
        for c in ast.walk(f.node):
            gens = c.generators if isinstance(c, (ast.DictComp, ast.ListComp, ast.SetComp, ast.GeneratorExp)) else []
            for g in gens:
                src = g.iter.func.value if isinstance(g.iter, ast.Call) and call_name(g.iter) in ("items", "keys") and isinstance(g.iter.func, ast.Attribute) else g.iter
                def _direct_tag(e):
                    if isinstance(e, ast.BoolOp) and isinstance(e.op, ast.Or) and e.values:
                        e = e.values[0]
                    if isinstance(e, ast.Call) and call_name(e) == "_get_evidence" and len(e.args) == 3 and isinstance(e.args[2], ast.Constant):
                        return {e.args[2].value}
                    return None
                if isinstance(src, ast.Name) and src.id in tags:
                    t_src, src_txt = tags[src.id], src.id
                elif _direct_tag(src) is not None:
                    t_src, src_txt = _direct_tag(src), norm(src, 60)
                else:
                    continue
                kv = g.target.elts[0] if isinstance(g.target, ast.Tuple) else g.target
                for cond in g.ifs:
                    K = None
                    for K_ in (0, 1):
                        if tm.is_(cond, f"_k in self.interface_nodes_{K_}", {"_k": dotted(kv)}) is not None:
                            K = K_
                    if K is None:
                        continue
                    n_sites += 1
                    t = t_src
                    rc.ob(f"{name}: `{norm(c, 90)}`: keys of `{src_txt}` live in slice {sorted(t)}, filtered against the slice-{K} interface nodes")
                    if t != {K}:
                        rc.fail(f, c, f"DBNInference.{name}: `{src_txt}` is evidence re-keyed to slice {sorted(t)} but is filtered by membership in interface_nodes_{K} (slice-{K} nodes): "
                                "the filter never matches, so observed interface nodes are not carried over to the next time step", construct=f"{name} slice mismatch {src_txt} vs interface_nodes_{K}")
        # interface marginal of slice K is shifted to slice 1-K before it enters the next engine
        for K in (0, 1):
            for n_, b in tm.find_all(f.node, f"_M = self._marginalize_factor(self.interface_nodes_{K}, __PHI)"):
                sh = [bb for _, bb in tm.find_all(f.node, "_X = self._shift_factor(_M, __S)", {"_M": b["_M"]})]
                for bb in sh:
                    n_sites += 1
                    sv = bb["__S"].value if isinstance(bb["__S"], ast.Constant) else None
                    rc.ob(f"{name}: marginal over the slice-{K} interface nodes shifted to slice {sv}")
                    if sv != 1 - K:
                        rc.fail(f, n_, f"DBNInference.{name}: the potential over the slice-{K} interface nodes must be shifted to slice {1 - K} before it is multiplied into the neighbouring step",
                                construct=f"{name} interface shift {K}")
            # the same pairing written without the intermediate name
            for n_, bb in tm.find_all(f.node, f"self._shift_factor(self._marginalize_factor(self.interface_nodes_{K}, __PHI), __S)", nested=True):
                n_sites += 1
                sv = bb["__S"].value if isinstance(bb["__S"], ast.Constant) else None
                rc.ob(f"{name}: marginal over the slice-{K} interface nodes shifted to slice {sv}")
                if sv != 1 - K:
                    rc.fail(f, n_, f"DBNInference.{name}: the potential over the slice-{K} interface nodes must be shifted to slice {1 - K} before it is multiplied into the neighbouring step",
                            construct=f"{name} interface shift {K}")
    if n_sites < 3:
        raise AnalysisError(f"DBNInference: only {n_sites} slice-coordinate sites found")


def _assigns_on_all_paths(stmts, name) -> bool:
    """does this statement list assign `name` on every path through it (unconditionally, or in both branches of an if/else)?"""
    for st in stmts:
        if isinstance(st, ast.Assign) and any(isinstance(t, ast.Name) and t.id == name for t in st.targets):
            return True
        if isinstance(st, ast.If) and st.orelse and _assigns_on_all_paths(st.body, name) and _assigns_on_all_paths(st.orelse, name):
            return True
    return False


@rule("C17.carry", "observed interface nodes of the neighbouring slice are re-computed in every step and merged into the step's evidence whenever they exist", floor=4)
def carry(rc):
    """Interface algorithm: the 1.5-slice step for slice t must see the observed interface nodes of slice t-1 (re-keyed to slice 0) as evidence.
    Two structural necessary conditions, the same in the forward and the backward pass:
      (a) the carried dictionary is re-computed on every path of every iteration (else a value from another slice is reused);
      (b) it is merged into the step's evidence under no condition other than its own non-emptiness (a guard on the CURRENT slice's evidence drops it
          exactly when the current slice is unobserved)."""
    repo = rc.repo
    for name in ("forward_inference", "backward_inference"):
        f = repo.func(DI, f"DBNInference.{name}")
        loops = [n for n in walk_no_nested(f.node) if isinstance(n, ast.For) and isinstance(n.iter, ast.Call) and call_name(n.iter) == "range"]
        if not loops:
            raise AnalysisError(f"{name}: slice loop not found")
        lp = loops[-1] if name == "backward_inference" else loops[0]
        # carried dictionaries: dict comprehensions filtered by membership in the interface nodes, assigned inside the loop
        carried = {}
        for n in ast.walk(lp):
            if isinstance(n, ast.Assign) and len(n.targets) == 1 and isinstance(n.targets[0], ast.Name) and isinstance(n.value, ast.DictComp) \
                    and any("interface_nodes_" in norm(c) for g in n.value.generators for c in g.ifs):
                carried.setdefault(n.targets[0].id, []).append(n)
        if not carried:
            raise AnalysisError(f"{name}: carried interface evidence not found")
        for I, defs_ in carried.items():
            cover = _assigns_on_all_paths(lp.body, I)
            rc.ob(f"{name}: carried interface evidence `{I}` re-computed on every path of an iteration: {cover}")
            if not cover:
                rc.fail(f, defs_[0], f"DBNInference.{name}: `{I}` is only re-computed under a condition; on the other path the value of an earlier iteration (another time slice) "
                        "is merged into this step's evidence", construct=f"{name} stale carried evidence")
            merges = sites(lp, lambda n: (isinstance(n, ast.Call) and call_name(n) == "update" and n.args and dotted(n.args[0]) == I)
                           or (isinstance(n, ast.Dict) and any(k is None and dotted(v) == I for k, v in zip(n.keys, n.values))))
            if not merges:
                rc.fail(f, lp, f"DBNInference.{name}: the carried interface evidence `{I}` never reaches the step's evidence", construct=f"{name} carried evidence unused")
            for s_ in merges:
                tgt = dotted(s_.node.func.value) if isinstance(s_.node, ast.Call) else None
                foreign = [(t, pol) for t, pol in s_.conds if not (dotted(t) == I) and not any(isinstance(x, ast.Name) and x.id == I for x in ast.walk(t))]
                rc.ob(f"{name}: `{norm(s_.node, 70)}` under {[('' if pol else 'not ') + norm(t, 40) for t, pol in s_.conds]}")
                if foreign:
                    rc.fail(f, s_.node, f"DBNInference.{name}: the observed interface nodes of the neighbouring slice are merged only if `{norm(foreign[0][0], 50)}`"
                            f"{'' if foreign[0][1] else ' is false'}: when that does not hold (e.g. the current slice has no evidence of its own) they are dropped and the step "
                            "ignores an observation", construct=f"{name} carried evidence merge guard")


@rule("C17.helpers", "slice helpers: the clique CONTAINING the nodes, the marginal KEEPING the nodes (out of place), the product of ALL clique potentials reduced on a private factor", floor=3)
def helpers(rc):
    from ..util import resolved_fn
    repo = rc.repo
    # _get_clique: a clique that contains every given node
    f = repo.func(DI, "DBNInference._get_clique")
    jt, nodes = f.params[1], f.params[2]
    r = resolved_fn(f)
    rets = [x.value for x in walk_no_nested(r) if isinstance(x, ast.Return) and x.value is not None]
    ok = False
    for v in rets:
        comp = v.value if isinstance(v, ast.Subscript) else (v.args[0] if isinstance(v, ast.Call) and call_name(v) == "next" and v.args else None)
        if isinstance(comp, (ast.ListComp, ast.GeneratorExp)) and len(comp.generators) == 1 and comp.generators[0].ifs:
            g = comp.generators[0]
            cv = dotted(g.target)
            src_ok = tm.is_(g.iter, f"{jt}.nodes()") is not None or tm.is_(g.iter, f"{jt}.nodes") is not None
            tests = [True if any(tm.is_(t, pat) is not None for pat in (f"set({nodes}).issubset({cv})", f"set({cv}).issuperset({nodes})", f"set({nodes}) <= set({cv})")) else None for t in g.ifs]
            first = isinstance(v, ast.Call) or (isinstance(v.slice, ast.Constant) and v.slice.value == 0)
            rc.ob(f"_get_clique: `{norm(v, 110)}`")
            if src_ok and len(tests) == 1 and tests[0] is not None and dotted(comp.elt) == cv and first:
                ok = True
    if not ok:
        rc.fail(f, f.node, "the interface clique must be a clique of the given junction tree that CONTAINS all the given nodes (nodes ⊆ clique)", construct="_get_clique containment")
    # _marginalize_factor: sum out scope - nodes, out of place
    f = repo.func(DI, "DBNInference._marginalize_factor")
    nodes, fac = f.params[1], f.params[2]
    r = resolved_fn(f)
    rets = [x.value for x in walk_no_nested(r) if isinstance(x, ast.Return) and x.value is not None]
    ok = False
    for v in rets:
        rc.ob(f"_marginalize_factor: `{norm(v, 110)}`")
        for pat in (f"{fac}.marginalize(list(set({fac}.scope()).difference({nodes})), inplace=False)", f"{fac}.marginalize(list(set({fac}.scope()) - set({nodes})), inplace=False)",
                    f"{fac}.marginalize([_v for _v in {fac}.scope() if _v not in {nodes}], inplace=False)", f"{fac}.marginalize(set({fac}.scope()).difference({nodes}), inplace=False)"):
            if tm.is_(v, pat) is not None:
                ok = True
    if not ok:
        rc.fail(f, f.node, "the marginal over the given nodes sums out exactly the other variables of the factor's scope, out of place", construct="_marginalize_factor keeps the nodes")
    # _get_factor: product of ALL potentials of the tree; evidence reduced on that fresh product, by (variable, state) pairs, only for variables in its scope
    f = repo.func(DI, "DBNInference._get_factor")
    bp_, ev = f.params[1], f.params[2]
    prods = calls_named(f, "factor_product")
    okp = len(prods) == 1 and tm.is_(prods[0], f"factor_product(*{bp_}.junction_tree.get_factors())") is not None
    rc.ob(f"_get_factor: product `{norm(prods[0], 90) if prods else None}` over all clique potentials: {okp}")
    if not okp:
        rc.fail(f, f.node, "the joint of a slice is the product of ALL clique potentials of its junction tree", construct="_get_factor product of all")
    else:
        pn = {t.id for n in walk_no_nested(f.node) if isinstance(n, ast.Assign) and n.value is prods[0] for t in n.targets if isinstance(t, ast.Name)}
        for s_ in sites(f.node, lambda n: isinstance(n, ast.Call) and call_name(n) == "reduce"):
            c = s_.node
            recv = dotted(c.func.value) if isinstance(c.func, ast.Attribute) else None
            lv = [dotted(t) for t, it in s_.loops if dotted(it) == ev]
            rc.ob(f"_get_factor: `{norm(c, 80)}` on {recv} in loop over {lv}")
            if recv not in pn:
                rc.fail(f, c, "evidence must be reduced on the freshly built product (a stored clique potential would be edited)", construct="_get_factor reduces the product")
            elif not lv or tm.is_(c, f"{recv}.reduce([({lv[-1]}, {ev}[{lv[-1]}])])") is None:
                rc.fail(f, c, "each observed variable is reduced to its own observed state", construct="_get_factor pairs variable and state")
            elif not any(pol and tm.is_(t, f"{lv[-1]} in {recv}.scope()") is not None for t, pol in s_.conds):
                rc.fail(f, c, "only variables of the product's scope can be reduced", construct="_get_factor scope guard")
        rv = [x.value for x in returns_of(f) if x.value is not None]
        if not rv or any(dotted(v) not in pn for v in rv):
            rc.fail(f, f.node, "_get_factor returns the (reduced) product", construct="_get_factor returns the product")


@rule("C17.engines", "a fresh BeliefPropagation per slice; BeliefPropagation copies the junction tree it is given", floor=3)
def engines(rc):
    repo = rc.repo
    f = repo.func(DI, "DBNInference.forward_inference")
    loops = [n for n in walk_no_nested(f.node) if isinstance(n, ast.For) and tm.is_(n.iter, "range(1, _TR + 1)") is not None]
    if not loops:
        raise AnalysisError("forward_inference: slice loop not found")
    lp = loops[0]
    fresh = [n for n, _ in tm.find_all(lp, "_BP = BeliefPropagation(self.one_and_half_junction_tree)")]
    upd = [n for n in ast.walk(lp) if isinstance(n, ast.Call) and call_name(n) == "_update_belief"]
    rc.ob(f"forward_inference: per-slice engines {len(fresh)}, belief updates {len(upd)}")
    if not fresh:
        rc.fail(f, lp, "every time slice must start from a fresh BeliefPropagation over the 1.5-slice junction tree", construct="fresh engine per slice")
    elif upd and fresh[0].lineno > upd[0].lineno:
        rc.fail(f, lp, "the fresh engine must be created before the interface potential is multiplied in", construct="engine order")
    elif upd and not all(dotted(u_.args[0]) == dotted(fresh[0].targets[0]) for u_ in upd):
        rc.fail(f, lp, "the interface potential must be multiplied into the fresh engine of this slice", construct="engine used")
    b = repo.func(DI, "DBNInference.backward_inference")
    bl = [n for n in walk_no_nested(b.node) if isinstance(n, ast.For) and tm.is_(n.iter, "range(_TR, 0, -1)") is not None]
    okb = bool(bl) and bool(tm.find_all(bl[0], "_BP = BeliefPropagation(self.one_and_half_junction_tree)"))
    if not okb:
        rc.fail(b, b.node, "backward pass: a fresh engine per slice", construct="fresh engine backward")
    rc.ob("backward_inference: fresh engine per slice")
    init = repo.func(EI, "BeliefPropagation.__init__")
    t = norm(init.node, 5000)
    ok = "self.junction_tree = copy.deepcopy(model)" in t or "self.junction_tree = model.copy()" in t
    rc.ob(f"BeliefPropagation.__init__ copies a given junction tree: {ok}")
    if not ok:
        rc.fail(init, init.node, "BeliefPropagation must work on a private copy of a junction tree it is given (DBN inference edits its factors per slice)", construct="private junction tree")
    u = repo.func(DI, "DBNInference._update_belief")
    bp_ = u.params[1]
    tu = norm(u.node, 100000)
    _, bo = tm.find(u.node, "_OF = _bp.junction_tree.get_factors(_cl)", {"_bp": bp_, "_cl": u.params[2]})
    oku = bo is not None and tm.has(u.node, "_bp.junction_tree.remove_factors(_OF)", bo) and tm.find(u.node, "_bp.junction_tree.add_factors(_NF)", bo)[1] is not None \
        and tm.has(u.node, "_bp.calibrate()", bo) and "self.one_and_half_junction_tree" not in tu and "self.start_junction_tree" not in tu
    if not oku:
        rc.fail(u, u.node, "belief updates must edit only the given engine's private junction tree and re-calibrate it", construct="update belief")
    # order of the update: multiply the new message in BEFORE dividing the previous potential out — wherever the previous potential is 0 the message is 0 as well,
    # and the factor algebra defines 0/0 := 0; dividing first gives x/0 = inf and then inf * 0 = nan
    pot, msg = u.params[3], u.params[4]
    divs = []
    for n in walk_no_nested(u.node):
        if isinstance(n, ast.Assign) and len(n.targets) == 1 and isinstance(n.targets[0], ast.Name):
            for x in ast.walk(n.value):
                if isinstance(x, ast.BinOp) and isinstance(x.op, ast.Div) and dotted(x.right) == pot:
                    divs.append((n, x))
    for n, x in divs:
        # what the dividend holds: follow the (re-assigned) name backwards through the preceding statements of the same block
        names = {y.id for y in ast.walk(x.left) if isinstance(y, ast.Name)}
        has_msg = msg in names
        blk = getattr(n, "_parent", None)
        body = getattr(blk, "body", []) if blk is not None else []
        if n in getattr(blk, "orelse", []):
            body = blk.orelse
        if n in body:
            for prev in reversed(body[:body.index(n)]):
                if isinstance(prev, ast.Assign) and isinstance(prev.targets[0], ast.Name) and prev.targets[0].id in names:
                    if any(isinstance(y, ast.Name) and y.id == msg for y in ast.walk(prev.value)):
                        has_msg = True
        rc.ob(f"_update_belief: `{norm(n, 70)}` divides a product that already contains the message: {has_msg}")
        if not has_msg:
            rc.fail(u, n, f"_update_belief divides by `{pot}` before the new message is multiplied in: with exact zeros in the CPDs x/0 = inf and then inf * 0 = nan "
                    "(smoothed marginals come back as nan); multiply first, then 0/0 := 0 cancels", construct="update belief divides before multiplying")
    if not divs:
        rc.fail(u, u.node, "the previous interface potential must be divided out of the updated clique belief", construct="update belief no division")
    rc.ob("_update_belief edits only the engine's own junction tree, then calibrates")



@rule("C17.memo", "the DBN engine keeps no message cache whose key omits an input of the cached computation (state that outlives a query)", floor=0)
def memo(rc):
    from . import shared as _sh
    _sh.memo_rule(rc, (DI, DBN))
    rc.ob("dbn_inference / DynamicBayesianNetwork: memo-key completeness checked at every `if K not in self.X: self.X[K] = f(...)` site")


@rule("C17.defuse", "anchored files: no parameter is accepted and ignored (generic def-use detector, triaged exemptions)", floor=2)
def defuse(rc):
    from . import shared as _sh
    _sh.defuse_rule(rc, _sh.anchor_files("C17"))

_BW_MERGE = "            if evidence_time:\n                evidence_time.update(interface_nodes_dict)\n            mid_bp = BeliefPropagation(self.one_and_half_junction_tree)\n            self._update_belief(mid_bp, self.in_clique, potential_dict[time_slice - 1])"

MUTANTS = [
    dict(kind="break", name="get-clique-subset-flipped", file=DI, expect="C17.helpers",
         old="if set(nodes).issubset(clique)", new="if set(clique).issubset(nodes)"),
    dict(kind="break", name="get-clique-last", file=DI, expect="C17.helpers",
         old="if set(nodes).issubset(clique)\n        ][0]", new="if set(nodes).issubset(clique)\n        ][-1]" ),
    dict(kind="break", name="marginalize-keeps-complement", file=DI, expect="C17.helpers",
         old="marginalizing_nodes = list(set(factor.scope()).difference(nodes))", new="marginalizing_nodes = list(set(factor.scope()).intersection(nodes))"),
    dict(kind="break", name="get-factor-first-potential-only", file=DI, expect="C17.helpers",
         old="final_factor = factor_product(*belief_prop.junction_tree.get_factors())", new="final_factor = belief_prop.junction_tree.get_factors()[0]"),
    dict(kind="twin", name="marginalize-set-minus", file=DI,
         old="marginalizing_nodes = list(set(factor.scope()).difference(nodes))", new="marginalizing_nodes = list(set(factor.scope()) - set(nodes))"),
    dict(kind="twin", name="get-clique-next", file=DI,
         old="        return [\n            clique for clique in junction_tree.nodes() if set(nodes).issubset(clique)\n        ][0]",
         new="        return next(clique for clique in junction_tree.nodes() if set(nodes).issubset(clique))"),
    dict(kind="break", name="horizon-from-max-tuple", file=DI, expect="C17.slices",
         old="            evid_time_range = max([time_slice for var, time_slice in evidence.keys()])\n            time_range = max(time_range, evid_time_range)\n\n        start_bp",
         new="            evid_time_range = max(evidence)[1]\n            time_range = max(time_range, evid_time_range)\n\n        start_bp"),
    dict(kind="break", name="update-belief-divides-first", file=DI, expect="C17.engines",
         old="                new_factor = old_factor * message\n                new_factor = new_factor / clique_potential", new="                new_factor = (old_factor / clique_potential) * message"),
    dict(kind="repair", name="backward-merges-whenever-carried-evidence-exists", file=DI, gone="C17.carry",
         old=_BW_MERGE, new="            if interface_nodes_dict:\n                evidence_time = {**(evidence_time or {}), **interface_nodes_dict}\n            mid_bp = BeliefPropagation(self.one_and_half_junction_tree)\n            self._update_belief(mid_bp, self.in_clique, potential_dict[time_slice - 1])"),
    dict(kind="break", name="backward-carried-evidence-stale-again", file=DI, expect="C17.carry",
         old="                    if k in self.interface_nodes_0\n                }\n            else:\n                interface_nodes_dict = {}\n", new="                    if k in self.interface_nodes_0\n                }\n"),
    dict(kind="break", name="forward-merge-guarded-by-slice-evidence", file=DI, expect="C17.carry",
         old="            if interface_nodes_dict:\n                evidence_time.update(interface_nodes_dict)", new="            if evidence_time:\n                evidence_time.update(interface_nodes_dict)"),
    dict(kind="break", name="carry-over-keys-in-wrong-slice", file=DI, expect="C17.slices",
         old="            if evidence_time:\n                interface_nodes_dict = {\n                    (k[0], 0): v\n                    for k, v in evidence_time.items()\n                    if k in self.interface_nodes_1\n                }\n            else:\n                interface_nodes_dict = {}",
         new="            observed = self._get_evidence(evidence, time_slice, 0) or {}\n            interface_nodes_dict = {k: v for k, v in observed.items() if k in self.interface_nodes_1}"),
    dict(kind="break", name="backward-marginal-not-shifted", file=DI, expect="C17.slices",
         old="            update_factor = self._shift_factor(in_clique_phi, 1)", new="            update_factor = self._shift_factor(in_clique_phi, 0)"),
    dict(kind="break", name="initial-state-literal-two", file=DBN, expect="C17.recreate",
         old="np.reshape(cpd.values, (cpd.variable_card, -1)),", new="np.reshape(cpd.values, (2, -1)),"),
    dict(kind="break", name="initial-state-parents-from-graph", file=DBN, expect="C17.recreate",
         old="                            evidence,\n                            evidence_card,\n                            state_names={\n                                new_var: cpd.state_names[var]",
         new="                            parents,\n                            evidence_card,\n                            state_names={\n                                new_var: cpd.state_names[var]"),
    dict(kind="break", name="constant-bn-drops-names", file=DBN, expect="C17.recreate",
         old="                    evidence_card=cpd.cardinality[1:],\n                    state_names={\n                        new_var: cpd.state_names[var]\n                        for new_var, var in zip(new_vars, cpd.variables)\n                    },\n",
         new="                    evidence_card=cpd.cardinality[1:],\n"),
    dict(kind="break", name="shift-factor-drops-names", file=DI, expect="C17.recreate",
         old="            factor.values,\n            state_names={\n                new_var: factor.state_names[var]\n                for new_var, var in zip(new_scope, factor.scope())\n            },\n", new="            factor.values,\n"),
    dict(kind="break", name="shift-nodes-sorted", file=DI, expect="C17.recreate",
         old="return [(node[0], time_slice) for node in nodes]", new="return sorted((node[0], time_slice) for node in nodes)"),
    dict(kind="break", name="engine-reused-across-slices", file=DI, expect="C17.engines",
         old="            potential_dict[time_slice] = new_factor\n            mid_bp = BeliefPropagation(self.one_and_half_junction_tree)\n", new="            potential_dict[time_slice] = new_factor\n"),
    dict(kind="break", name="bp-shares-junction-tree", file=EI, expect="C17.engines",
         old="self.junction_tree = copy.deepcopy(model)", new="self.junction_tree = model"),
]
