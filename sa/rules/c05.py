"""C05 — CPD tables keep their column meaning; validated models are normalised."""
from __future__ import annotations

import ast

from ..core import AnalysisError, call_name, dotted, kwarg, norm, walk_no_nested, has_starstar
from ..effects import analyse
from ..guards import sites
from ..layout import Env, MiniArray, eval_expr, prod
from ..registry import describe, rule
from .. import tmatch as tm
from ..util import deep_resolve, single_defs, calls_named, peel, returns_of
from . import shared

CPD = "pgmpy/factors/discrete/CPD.py"
DF = "pgmpy/factors/discrete/DiscreteFactor.py"
BN = "pgmpy/models/BayesianNetwork.py"

describe(
    "C05",
    "the 2-D <-> tensor conversions of TabularCPD (constructor, get_values, normalize, reorder_parents in both modes, copy, "
    "to_factor) are evaluated as shape-operator chains on a symbolic index tensor with pairwise distinct cardinalities and must map "
    "column j to the j-th row-major configuration of the evidence list / be the identity on labelled entries; every factor or CPD "
    "that a CPD method builds from an existing one forwards state names derived from it; out-of-place CPD operations never touch "
    "the operand and CPD marginalise/reduce renormalise; check_model performs every documented test (CPD present, evidence == "
    "parents, state names defined, columns sum to one within the documented tolerance, parent cardinalities and state names agree) "
    "each guarding a raise, and returns True only after all of them.",
    ["numeric preservation of P(child | parents) under the transformations", "floating point of the column-sum test"],
)


def _find_assign(f, target_norm):
    out = [n for n in walk_no_nested(f.node) if isinstance(n, ast.Assign) and any(norm(t) == target_norm for t in n.targets)]
    return out


@rule("C05.layout", "2-D <-> tensor conversions evaluated on a symbolic index tensor", floor=6)
def layout(rc):
    repo = rc.repo
    cls = repo.cls(CPD, "TabularCPD")
    dfc = repo.cls(DF, "DiscreteFactor")
    r, q1, q2 = 2, 3, 4
    # ---------- constructor: 2-D (r, q1*q2) -> tensor (r, q1, q2)
    init = cls.methods["__init__"]
    sup = [c for c in repo.calls_in(init) if call_name(c) == "__init__" and isinstance(c.func.value, ast.Call) and call_name(c.func.value) == "super"]
    if len(sup) != 1 or len(sup[0].args) < 3:
        raise AnalysisError("TabularCPD.__init__: cannot find the DiscreteFactor initialisation")
    two_d = MiniArray.indexed((r, q1 * q2))
    env = Env(values=two_d, variable_card=r, evidence_card=[q1, q2], cardinality=[r, q1, q2])
    flat = eval_expr(sup[0].args[2], env)
    dinit = dfc.methods["__init__"]
    resh = _find_assign(dinit, "self.values")
    if not resh:
        raise AnalysisError("DiscreteFactor.__init__: no `self.values = ...`")
    env2 = Env(values=flat, **{"self.cardinality": [r, q1, q2], "cardinality": [r, q1, q2]})
    tensor = eval_expr(resh[-1].value, env2)
    rc.ob(f"constructor chain: values -> {norm(sup[0].args[2])} -> {norm(resh[-1].value)}")
    bad = None
    if tensor.shape != (r, q1, q2):
        bad = f"shape {tensor.shape}"
    else:
        for i in range(r):
            for a in range(q1):
                for b in range(q2):
                    if tensor.at((i, a, b)) != (i, a * q2 + b):
                        bad = bad or f"cell [child={i}, ev1={a}, ev2={b}] receives column {tensor.at((i, a, b))[1]} instead of {a * q2 + b}"
    rc.report.rows += r * q1 * q2
    if bad:
        rc.fail(init, sup[0], f"constructor: column j of the 2-D table must be the j-th row-major configuration of the evidence list ({bad})", construct="constructor layout")
    # card order passed to the factor: [variable] + evidence  /  [variable_card] + evidence_card
    # ---------- get_values: tensor -> 2-D
    gv = cls.methods["get_values"]
    T = MiniArray.indexed((r, q1, q2))
    envT = Env(**{"self.values": T, "self.cardinality": [r, q1, q2], "self.variable_card": r})
    ret = None
    for s in sites(gv.node, lambda n: isinstance(n, ast.Return)):
        if all(pol for t, pol in s.conds):
            ret = s.node
    if ret is None:
        raise AnalysisError("get_values: no return on the regular branch")
    two = eval_expr(ret.value, envT)
    rc.ob(f"get_values chain: {norm(ret.value, 100)}")
    bad = None
    if two.shape != (r, q1 * q2):
        bad = f"shape {two.shape}"
    else:
        for i in range(r):
            for j in range(q1 * q2):
                if two.at((i, j)) != (i, j // q2, j % q2):
                    bad = bad or f"column {j} shows configuration {two.at((i, j))[1:]} instead of {(j // q2, j % q2)}"
    rc.report.rows += r * q1 * q2
    if bad:
        rc.fail(gv, ret, f"get_values: column j must be the j-th row-major parent configuration ({bad})", construct="get_values layout")

    def get_values_of(arr):
        e = Env(**{"self.values": arr, "self.cardinality": list(arr.shape)})
        return eval_expr(ret.value, e)

    # ---------- normalize: columns (axis 0 of the 2-D table) and back to the tensor
    nm = cls.methods["normalize"]
    work = shared.working_alias(nm)
    st = _find_assign(nm, f"{work}.values")
    if not st:
        raise AnalysisError("normalize: no store into the working CPD's values")
    v = st[-1].value
    sums = [c for c in ast.walk(v) if isinstance(c, ast.Call) and call_name(c) == "sum"]
    ax = kwarg(sums[0], "axis") if sums else None
    rc.ob(f"normalize: {norm(v, 100)}")
    if not sums or not (isinstance(ax, ast.Constant) and ax.value == 0):
        rc.fail(nm, st[-1], "normalize must divide every COLUMN of the 2-D table by its sum (sum over axis 0, the child variable)", construct="normalize axis")
    # the reshape back: strip the arithmetic, evaluate reshape on get_values(T)
    resh_call = v if isinstance(v, ast.Call) and call_name(v) == "reshape" else None
    if resh_call is None:
        rc.fail(nm, st[-1], "normalize must reshape the normalised 2-D table back to the CPD's cardinalities", construct="normalize reshape")
    else:
        shape = eval_expr(resh_call.args[0], Env(**{f"{work}.cardinality": [r, q1, q2]}))
        back = get_values_of(T).reshape(shape)
        if back.shape != T.shape or back.flat != T.flat:
            rc.fail(nm, resh_call, "normalize: reshaping the 2-D table back does not restore the tensor layout", construct="normalize roundtrip")
        # source of the 2-D table is the working CPD's own get_values()
        src = [n for n in walk_no_nested(nm.node) if isinstance(n, ast.Assign) and isinstance(n.value, ast.Call) and call_name(n.value) == "get_values"]
        if not src or dotted(src[0].value.func.value) != work:
            rc.fail(nm, nm.node, "normalize must normalise the working CPD's own table", construct="normalize source")
    # ---------- reorder_parents: both modes
    rp = cls.methods["reorder_parents"]
    cards = {"V": 2, "A": 3, "B": 4, "C": 5}
    old = ["V", "A", "B", "C"]
    new_order = ["C", "A", "B"]
    T4 = MiniArray.indexed(tuple(cards[x] for x in old))
    base_env = Env(new_order=list(new_order), **{"self.variables": list(old), "self.cardinality": [cards[x] for x in old], "self.values": T4,
                                                 "self.variable_card": 2, "self.variable": "V"})
    base_env["__get_values__"] = get_values_of

    def run_block(stmts, env):
        for st_ in stmts:
            if isinstance(st_, ast.Assign) and len(st_.targets) == 1 and isinstance(st_.targets[0], ast.Name):
                env[st_.targets[0].id] = eval_expr(st_.value, env)
            elif isinstance(st_, ast.If):
                tt, neg = st_.test, False
                while isinstance(tt, ast.UnaryOp) and isinstance(tt.op, ast.Not):
                    tt, neg = tt.operand, not neg
                t = norm(tt)
                if t == "inplace":
                    yield ("inplace", st_.orelse if neg else st_.body, Env(env))
                    yield ("outofplace", st_.body if neg else st_.orelse, Env(env))
                    return
                yield from run_block(st_.body, env)
                return
            elif isinstance(st_, (ast.Expr, ast.Return)):
                yield ("stmt", st_, env)

    # locate the `if new_order != self.variables[1:]` block
    blk = None
    for n in walk_no_nested(rp.node):
        if not isinstance(n, ast.If):
            continue
        tt, neg = n.test, False
        while isinstance(tt, ast.UnaryOp) and isinstance(tt.op, ast.Not):
            tt, neg = tt.operand, not neg
        if "new_order" in norm(tt) and "variables[1:]" in norm(tt) and isinstance(tt, ast.Compare) and isinstance(tt.ops[0], (ast.NotEq, ast.Eq)):
            differs_in_body = isinstance(tt.ops[0], ast.NotEq) != neg
            blk = n if differs_in_body else ast.If(test=tt, body=n.orelse, orelse=n.body)
    if blk is None:
        raise AnalysisError("reorder_parents: cannot find the re-ordering branch")
    want_vars = ["V"] + new_order
    want_card = [cards[x] for x in want_vars]

    def check_tensor(t, where, node):
        bad = None
        if tuple(t.shape) != tuple(want_card):
            bad = f"shape {t.shape} instead of {tuple(want_card)}"
        else:
            import itertools
            for idx in itertools.product(*[range(s) for s in want_card]):
                val = dict(zip(want_vars, idx))
                if t.at(idx) != tuple(val[x] for x in old):
                    bad = f"entry for {val} holds the value of assignment {dict(zip(old, t.at(idx)))}"
                    break
                rc.report.rows += 1
        if bad:
            rc.fail(rp, node, f"reorder_parents ({where}): the re-ordered table does not describe the same P(child | parents) ({bad})", construct=f"reorder layout {where}")

    seen = set()
    for kind, body, env in run_block(blk.body, Env(base_env)):
        if kind not in ("inplace", "outofplace"):
            continue
        seen.add(kind)
        for item in run_block(body, env):
            _, st_, env_ = item
            if kind == "inplace" and isinstance(st_, ast.Expr) and isinstance(st_.value, ast.Call) and call_name(st_.value) == "__init__":
                c = st_.value
                vs = eval_expr(c.args[0], env_)
                cd = eval_expr(c.args[1], env_)
                flatv = eval_expr(c.args[2], env_)
                rc.ob(f"reorder_parents in place: variables {vs}, cardinality {cd}, values {norm(c.args[2])}")
                if list(vs) != want_vars or [int(x) for x in cd] != want_card:
                    rc.fail(rp, c, f"reorder_parents: new scope must be {want_vars} with cardinalities {want_card}; got {vs} / {cd}", construct="reorder scope")
                else:
                    check_tensor(flatv.reshape(cd), "in place", c)
            if kind == "outofplace" and isinstance(st_, ast.Return):
                two = eval_expr(st_.value, env_)
                rc.ob(f"reorder_parents out of place: returns {norm(st_.value, 80)}")
                q = prod(want_card[1:])
                if two.shape != (want_card[0], q):
                    rc.fail(rp, st_, f"reorder_parents: out-of-place result must be the 2-D table of shape {(want_card[0], q)}", construct="reorder 2d shape")
                else:
                    check_tensor(two.reshape(want_card), "out of place", st_)
    if seen != {"inplace", "outofplace"}:
        raise AnalysisError("reorder_parents: could not evaluate both modes")
    # ---------- copy / to_factor
    cp = cls.methods["copy"]
    rets = returns_of(cp)
    c = rets[-1].value if rets and isinstance(rets[-1].value, ast.Call) else None
    if c is None or call_name(c) != "TabularCPD":
        raise AnalysisError("TabularCPD.copy: no constructor call")
    from ..util import resolve as _resolve
    d = {n.targets[0].id: n.value for n in walk_no_nested(cp.node) if isinstance(n, ast.Assign) and isinstance(n.targets[0], ast.Name)}
    args = [norm(a) for a in c.args]
    ev_e = _resolve(c.args[3], d) if len(c.args) > 3 else kwarg(c, "evidence")
    evc_e = _resolve(c.args[4], d) if len(c.args) > 4 else kwarg(c, "evidence_card")
    ev = norm(ev_e) if ev_e is not None else "None"
    evc = norm(evc_e) if evc_e is not None else "None"
    rc.ob(f"copy: TabularCPD({', '.join(args[:3])}, ...) with evidence = {ev}, evidence_card = {evc}")
    ok = args[:2] == ["self.variable", "self.variable_card"] and "self.get_values()" in args[2] and "self.variables[1:]" in ev and "self.cardinality[1:]" in evc
    if not ok:
        rc.fail(cp, c, "copy must rebuild the CPD from its own 2-D table with evidence = variables[1:] and evidence_card = cardinality[1:]", construct="copy args")
    tf = cls.methods["to_factor"]
    fields = {}
    for n in walk_no_nested(tf.node):
        if isinstance(n, ast.Assign) and isinstance(n.targets[0], ast.Attribute):
            fields[n.targets[0].attr] = norm(n.value)
    rc.ob(f"to_factor fields {fields}")
    for fld in ("variables", "cardinality", "values", "state_names", "name_to_no", "no_to_name"):
        if f"self.{fld}" not in fields.get(fld, ""):
            rc.fail(tf, tf.node, f"to_factor must carry over `{fld}` of the CPD unchanged", construct=f"to_factor {fld}")
    rc.report.exhaustive = True


@rule("C05.statenames", "every factor/CPD built from an existing one inside CPD/DiscreteFactor methods forwards its state names", floor=4)
def statenames(rc):
    repo = rc.repo
    n = 0
    for rel in (CPD, DF):
        for ci in repo.module(rel).classes.values():
            for f in ci.methods.values():
                for c in repo.calls_in(f):
                    nm = call_name(c)
                    is_ctor = (isinstance(c.func, ast.Name) and nm in ("DiscreteFactor", "TabularCPD")) or \
                        (nm == "__init__" and isinstance(c.func, ast.Attribute) and isinstance(c.func.value, ast.Call) and call_name(c.func.value) == "super"
                         and f.name != "__init__")
                    if not is_ctor:
                        continue
                    txt = norm(c, 2000)
                    derived = any(k in txt for k in ("self.variables", "self.values", "self.cardinality", "self.get_values()", "self.variable")) or f.name in ("reorder_parents",)
                    if not derived:
                        continue
                    n += 1
                    sn = kwarg(c, "state_names")
                    rc.ob(f"{f.qual}: {norm(c, 70)} state_names={norm(sn) if sn is not None else None}")
                    if sn is None and not has_starstar(c):
                        rc.fail(f, c, f"{f.qual} rebuilds a factor from this one without state_names: named states silently become 0..k-1", construct=f"{f.qual} ctor without state_names")
                    elif sn is not None and "state_names" not in norm(sn):
                        rc.fail(f, c, f"{f.qual}: state_names of the rebuilt factor are not derived from the source's state names", construct=f"{f.qual} ctor foreign state_names")
    # get_random forwards the caller's names
    gr = repo.func(CPD, "TabularCPD.get_random")
    for c in [c for c in repo.calls_in(gr) if call_name(c) == "TabularCPD"]:
        rc.ob(f"get_random: {norm(c, 60)}")
        if dotted(kwarg(c, "state_names")) != "state_names":
            rc.fail(gr, c, "get_random must label the CPD with the requested state names", construct="get_random state_names")


@rule("C05.inplace", "CPD transformations: out-of-place mode leaves the CPD untouched; marginalise/reduce protect the child variable and renormalise", floor=5)
def inplace(rc):
    repo = rc.repo
    summ = shared.summaries(repo)
    cls = repo.cls(CPD, "TabularCPD")
    for name in ("normalize", "marginalize", "reduce", "reorder_parents"):
        f = cls.methods[name]
        fl = analyse(summ, f, fold={"inplace": False})
        rc.ob(f"TabularCPD.{name} [inplace=False]: {len(fl.mutations)} mutation(s) of the operand")
        for m in fl.mutations:
            rc.fail(f, m.node, f"TabularCPD.{name}(inplace=False) modifies `{m.root}`: {norm(m.node, 60)} ({m.how})", construct=f"{name}: {norm(m.node, 90)}")
    for name in ("marginalize", "reduce"):
        f = cls.methods[name]
        work = shared.working_alias(f)
        sup = [c for c in repo.calls_in(f) if call_name(c) == name and isinstance(c.func.value, ast.Call) and call_name(c.func.value) == "super"]
        ok_sup = bool(sup) and len(sup[0].func.value.args) == 2 and dotted(sup[0].func.value.args[1]) == work
        norm_calls = [c for c in calls_named(f, "normalize") if dotted(c.func.value) == work]
        guard = [s for s in sites(f.node, lambda n: isinstance(n, ast.Raise)) if any("self.variable in" in norm(t) and pol for t, pol in s.conds)]
        rc.ob(f"TabularCPD.{name}: delegates on `{work}`: {ok_sup}; renormalises: {bool(norm_calls)}; protects the child variable: {bool(guard)}")
        if not ok_sup:
            rc.fail(f, f.node, f"TabularCPD.{name} must apply the factor operation to the working CPD", construct=f"{name} delegate")
        if not norm_calls:
            rc.fail(f, f.node, f"TabularCPD.{name} must renormalise the columns afterwards (the result is a conditional distribution)", construct=f"{name} renormalise")
        elif sup and norm_calls[0].lineno < sup[0].lineno:
            rc.fail(f, norm_calls[0], f"TabularCPD.{name} must renormalise AFTER the factor operation", construct=f"{name} renormalise order")
        if not guard:
            rc.fail(f, f.node, f"TabularCPD.{name} must refuse to remove the variable the CPD is defined on", construct=f"{name} child guard")


@rule("C05.validate", "check_model performs all documented tests, each guarding a raise; is_valid_cpd sums over the child and compares with ones at the documented tolerance", floor=7)
def validate(rc):
    repo = rc.repo
    f = repo.func(BN, "BayesianNetwork.check_model")
    raises = sites(f.node, lambda n: isinstance(n, ast.Raise))
    kinds = {}
    for s in raises:
        if not s.conds:
            continue
        t, pol = s.conds[-1]
        txt = norm(t, 300)
        k = None
        if not pol and tm.is_(t, "_c.is_valid_cpd()") is not None:
            k = "columns sum to one"
            kinds[k] = s
            rc.ob(f"check_model raises unless {k}: guard `not {txt[:70]}`")
            continue
        if not pol:
            continue
        if tm.is_(t, "_c is None") is not None:
            k = "cpd present"
        elif tm.is_(deep_resolve(t, single_defs(f)), "set(__A) != set(__B)") is not None:
            bb = tm.is_(deep_resolve(t, single_defs(f)), "set(__A) != set(__B)")
            sides = [bb["__A"], bb["__B"]]
            has_ev = any(tm.is_(x, "_c.get_evidence()") is not None for x in sides)
            has_pa = any(tm.is_(x, t2) is not None for x in sides for t2 in ("self.get_parents(_n)", "self.predecessors(_n)", "list(self.predecessors(_n))"))
            if not has_ev and not has_pa and all(".state_names[" in norm(x) for x in sides):
                rc.fail(f, t, "the parent's state names are compared with the child's as SETS: the same names in another order pass, although state number k then means different "
                        "states in the two tables", construct="state names compared as sets")
                continue
            k = "evidence == parents"
            if not (has_ev and has_pa):
                rc.fail(f, t, "check_model must compare the CPD's evidence with the node's parents in the graph", construct="evidence/parents source")
        elif tm.is_(t, "len(set(_c.variables) - set(_c.state_names.keys())) > 0") is not None or tm.is_(t, "set(_c.variables) - set(_c.state_names.keys())") is not None \
                or tm.is_(t, "len(set(_c.variables) - set(_c.state_names)) > 0") is not None:
            k = "state names defined"
        elif tm.is_(t, "not _c.is_valid_cpd()") is not None:
            k = "columns sum to one"
        elif tm.is_(t, "_pc.cardinality[__I] != _c.cardinality[__J]") is not None or tm.is_(t, "_c.cardinality[__J] != _pc.cardinality[__I]") is not None:
            k = "parent cardinality"
            # index agreement: enumerate(cpd.variables[1:]) <-> cardinality[1 + index]
            bb = tm.is_(t, "_pc.cardinality[0] != _c.cardinality[1 + _i]") or tm.is_(t, "_pc.cardinality[0] != _c.cardinality[_i + 1]")
            lp_ok = bb is not None and any(tm.is_(lp_.iter, "enumerate(_c.variables[1:])", {"_c": bb["_c"]}) is not None and isinstance(lp_.target, ast.Tuple) and dotted(lp_.target.elts[0]) == bb["_i"]
                                           and tm.has(lp_, "_pc = self.get_cpds(_n)", {"_pc": bb["_pc"], "_n": dotted(lp_.target.elts[1])})
                                           for lp_ in ast.walk(f.node) if isinstance(lp_, ast.For))
            if not lp_ok:
                rc.fail(f, t, "the parent's own cardinality (position 0 of its CPD) must be compared with position 1+index of the child's CPD", construct="cardinality index")
        elif tm.is_(t, "_pc.state_names[_n] != _c.state_names[_n]") is not None or tm.is_(t, "_c.state_names[_n] != _pc.state_names[_n]") is not None:
            k = "parent state names"
        if k:
            kinds[k] = s
            rc.ob(f"check_model raises unless {k}: guard `{txt[:70]}`")
    # the number of state names of every variable of a CPD equals its cardinality (else a "validated" model maps state numbers to names that do not exist / misses names)
    for s_ in raises:
        for t, pol in s_.conds:
            if pol and (tm.is_(t, "len(_c.state_names[_v]) != _k") is not None or tm.is_(t, "_k != len(_c.state_names[_v])") is not None):
                kinds["state names count"] = s_
                rc.ob(f"check_model raises unless state names count: guard `{norm(t, 70)}`")
    for need in ("cpd present", "evidence == parents", "state names defined", "state names count", "columns sum to one", "parent cardinality", "parent state names"):
        if need not in kinds:
            rc.fail(f, f.node, f"check_model no longer rejects a model that violates: {need}", construct=f"missing check: {need}")
    # return True only at the very end
    rets = sites(f.node, lambda n: isinstance(n, ast.Return))
    for s in rets:
        v = s.node.value
        if isinstance(v, ast.Constant) and v.value is True and (s.loops or s.conds):
            rc.fail(f, s.node, "check_model returns True before all nodes have been checked", construct="early True")
    if not any(isinstance(s.node.value, ast.Constant) and s.node.value.value is True for s in rets):
        rc.fail(f, f.node, "check_model must return True for a valid model", construct="return True")
    loops = [n for n in f.body if isinstance(n, ast.For)]
    for lp in loops:
        if "self.nodes()" not in norm(lp.iter):
            rc.fail(f, lp, "every node of the model must be checked", construct="all nodes")
    rc.ob(f"check_model: {len(loops)} passes over all nodes")
    # every self.method() of the factor / CPD classes resolves in the class that calls it
    shared.undefined_self_method_rule(rc, (DF, CPD, "pgmpy/factors/base.py", "pgmpy/factors/discrete/JointProbabilityDistribution.py"))
    # is_valid_cpd
    g = repo.func(DF, "DiscreteFactor.is_valid_cpd")
    r = returns_of(g)[-1].value
    txt = norm(r, 1000)
    tol = kwarg(r, "atol") if isinstance(r, ast.Call) else None
    rc.ob(f"is_valid_cpd: {txt[:150]}")
    if not (isinstance(r, ast.Call) and call_name(r) == "allclose"):
        rc.fail(g, g.node, "is_valid_cpd must compare the column sums with ones within a tolerance", construct="allclose")
    else:
        if "marginalize(self.scope()[:1]" not in txt and "marginalize([self.variables[0]]" not in txt and "marginalize(self.variables[:1]" not in txt \
                and "DiscreteFactor.marginalize(self, self.scope()[:1]" not in txt:
            rc.fail(g, r, "column sums are obtained by summing out the FIRST variable (the child)", construct="sum over child")
        if "ones(" not in txt:
            rc.fail(g, r, "column sums must be compared with 1", construct="compare with ones")
        if not (isinstance(tol, ast.Constant) and tol.value == 0.01):
            rc.fail(g, r, "the documented tolerance of the column-sum test is 0.01", construct="tolerance")
        if "inplace=False" not in txt and "to_factor()" not in txt:
            rc.fail(g, r, "the validity test must not modify the CPD", construct="purity")



@rule("C05.defuse", "anchored files: no parameter is accepted and ignored (generic def-use detector, triaged exemptions)", floor=2)
def defuse(rc):
    from . import shared as _sh
    _sh.defuse_rule(rc, _sh.anchor_files("C05"))

MUTANTS = [
    dict(kind="repair", name="check-model-checks-state-name-count", file=BN, gone="C05.validate", construct="missing check: state names count",
         old="                # Check if the values of the CPD sum to 1.\n",
         new="                if isinstance(cpd, TabularCPD):\n                    for var, card in zip(cpd.variables, cpd.cardinality):\n                        if len(cpd.state_names[var]) != card:\n"
             "                            raise ValueError(f\"CPD for {node}: number of state names of {var} doesn't match its cardinality.\")\n\n"
             "                # Check if the values of the CPD sum to 1.\n"),
    dict(kind="break", name="is-valid-cpd-needs-subclass-method", file=DF, expect="C05.validate",
         old="            DiscreteFactor.marginalize(\n                self, self.scope()[:1], inplace=False\n            ).values.flatten(),", new="            self.to_factor().marginalize(self.scope()[:1], inplace=False).values.flatten(),"),
    dict(kind="break", name="ctor-fortran-flatten", file=CPD, expect="C05.layout",
         old="variables, cardinality, values.flatten(), state_names=state_names", new="variables, cardinality, values.flatten(\"F\"), state_names=state_names"),
    dict(kind="break", name="get-values-transposed", file=CPD, expect="C05.layout",
         old="            return self.values.reshape(\n                tuple([self.cardinality[0], np.prod(self.cardinality[1:])])\n            )",
         new="            return self.values.reshape(\n                tuple([np.prod(self.cardinality[1:]), self.cardinality[0]])\n            ).T"),
    dict(kind="break", name="normalize-rows", file=CPD, expect="C05.layout",
         old="tabular_cpd.values = (cpd / cpd.sum(axis=0)).reshape(", new="tabular_cpd.values = (cpd / cpd.sum(axis=1, keepdims=True)).reshape("),
    dict(kind="break", name="reorder-inverse-permutation", file=CPD, expect="C05.layout",
         old="                old_pos_map = dict(zip(evidence, range(len(evidence))))\n                trans_ord = [0] + [(old_pos_map[letter] + 1) for letter in new_order]",
         new="                new_pos_map = dict(zip(new_order, range(len(new_order))))\n                trans_ord = [0] + [(new_pos_map[letter] + 1) for letter in evidence]"),
    dict(kind="break", name="reorder-cards-old-order", file=CPD, expect="C05.layout",
         old="                    cardinality = [self.variable_card] + [\n                        card_map[var] for var in new_order\n                    ]",
         new="                    cardinality = [self.variable_card] + [\n                        card_map[var] for var in evidence\n                    ]"),
    dict(kind="break", name="reorder-drops-state-names", file=CPD, expect="C05.statenames",
         old="                        new_values.flatten(),\n                        state_names={var: self.state_names[var] for var in variables},\n", new="                        new_values.flatten(),\n"),
    dict(kind="break", name="copy-evidence-card-shifted", file=CPD, expect="C05.layout",
         old="evidence_card = self.cardinality[1:] if len(self.variables) > 1 else None", new="evidence_card = self.cardinality[:-1] if len(self.variables) > 1 else None"),
    dict(kind="break", name="marginalize-no-renormalise", file=CPD, expect="C05.inplace",
         old="        super(TabularCPD, tabular_cpd).marginalize(variables)\n        tabular_cpd.normalize()", new="        super(TabularCPD, tabular_cpd).marginalize(variables)"),
    dict(kind="break", name="reduce-on-self", file=CPD, expect="C05.inplace",
         old="        super(TabularCPD, tabular_cpd).reduce(values, show_warnings=show_warnings)", new="        super(TabularCPD, self).reduce(values, show_warnings=show_warnings)"),
    dict(kind="break", name="check-model-skips-state-name-comparison", file=BN, expect="C05.validate",
         old="                if parent_cpd.state_names[node] != cpd.state_names[node]:\n                    raise ValueError(\n                        f\"The state names of {node} doesn't match in it's child nodes.\"\n                    )\n", new=""),
    dict(kind="break", name="check-model-early-true", file=BN, expect="C05.validate",
         old="                if not cpd.is_valid_cpd():\n                    raise ValueError(\n                        f\"Sum or integral of conditional probabilities for node {node} is not equal to 1.\"\n                    )\n",
         new="                if not cpd.is_valid_cpd():\n                    raise ValueError(\n                        f\"Sum or integral of conditional probabilities for node {node} is not equal to 1.\"\n                    )\n                if not parents:\n                    return True\n"),
    dict(kind="break", name="valid-cpd-loose-tolerance", file=DF, expect="C05.validate",
         old="            atol=0.01,\n        )", new="            atol=0.1,\n        )"),
    dict(kind="break", name="valid-cpd-sums-over-last", file=DF, expect="C05.validate",
         old="                self, self.scope()[:1], inplace=False", new="                self, self.scope()[-1:], inplace=False"),
    dict(kind="twin", name="ctor-ravel", file=CPD,
         old="variables, cardinality, values.flatten(), state_names=state_names", new="variables, cardinality, values.ravel(), state_names=state_names"),
    dict(kind="twin", name="get-values-reshape-minus-one", file=CPD,
         old="            return self.values.reshape(\n                tuple([self.cardinality[0], np.prod(self.cardinality[1:])])\n            )",
         new="            return self.values.reshape(self.cardinality[0], -1)"),
    dict(kind="twin", name="reorder-via-index", file=CPD,
         old="                trans_ord = [0] + [(old_pos_map[letter] + 1) for letter in new_order]", new="                trans_ord = [0] + [evidence.index(letter) + 1 for letter in new_order]"),
]
