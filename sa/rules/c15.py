"""C15 — models stay structurally consistent under any edit history."""
from __future__ import annotations

import ast

from ..core import AnalysisError, call_name, dotted, kwarg, norm, walk_no_nested
from ..effects import Flow, analyse
from ..guards import A, And, Not, Or, T, implies, path_formula, show_formula, sites, terminates
from ..registry import describe, rule
from .. import tmatch as tm
from ..util import calls_named, peel, returns_of
from . import shared

BN = "pgmpy/models/BayesianNetwork.py"
DBN = "pgmpy/models/DynamicBayesianNetwork.py"
JT = "pgmpy/models/JunctionTree.py"
CG = "pgmpy/models/ClusterGraph.py"
MN = "pgmpy/models/MarkovNetwork.py"
DAGF = "pgmpy/base/DAG.py"

describe(
    "C15",
    "no edge reaches the underlying networkx graph of a BayesianNetwork / DynamicBayesianNetwork / JunctionTree unless the path "
    "condition of that call implies 'no path back' and 'no self loop' (formula comparison); bulk and constructor routes dispatch "
    "through the guarded override or are followed by a cycle check that raises; nobody calls the unguarded base editor on such a "
    "model; in single-element editors no `raise` is reachable after the first mutation of the same element (rejected operation "
    "leaves the model unchanged); BayesianNetwork.remove_node marginalises each child's CPD over the node, removes the node's CPD, "
    "updates latents and removes the node; copy() of every model class shares no in-place-mutated container or CPD/factor object.",
    ["numeric validity of CPDs after arbitrary edit sequences", "behaviour of networkx itself"],
)


def _super_calls(f, name):
    out = []
    for s in sites(f.node, lambda n: isinstance(n, ast.Call) and isinstance(n.func, ast.Attribute) and n.func.attr == name
                   and isinstance(n.func.value, ast.Call) and call_name(n.func.value) == "super"):
        out.append(s)
    return out


@rule("C15.guard", "every path to the base-class add_edge is dominated by the cycle test; bulk/constructor routes are guarded; no bypass call sites", floor=6)
def guard(rc):
    repo = rc.repo
    for rel, cname, directed in ((BN, "BayesianNetwork", True), (DBN, "DynamicBayesianNetwork", True), (JT, "JunctionTree", False)):
        f = repo.func(rel, f"{cname}.add_edge")
        p = f.params
        ss = _super_calls(f, "add_edge")
        if not ss:
            rc.fail(f, f.node, f"{cname}.add_edge no longer delegates to the base class", construct="delegate")
            continue
        first = True
        for s in ss:
            args = [dotted(a) for a in s.node.args[:2]]
            if None in args:
                if not first:
                    rc.ob(f"{cname}.add_edge: mirrored edge {norm(s.node, 90)} (same guards as the first call)")
                    continue
                raise AnalysisError(f"{cname}.add_edge: cannot read the edge passed to the base class")
            a, b = args

            def atomize(e, a=a, b=b):
                if isinstance(e, ast.Compare) and len(e.ops) == 1:
                    l, o, r = e.left, e.ops[0], e.comparators[0]
                    if isinstance(o, ast.Eq) and {dotted(l), dotted(r)} == {a, b}:
                        return A("selfloop")
                    if isinstance(o, ast.In) and dotted(l) in (a, b) and isinstance(r, ast.Call) and call_name(r) == "nodes":
                        return A("in_" + ("a" if dotted(l) == a else "b"))
                if isinstance(e, ast.Call) and call_name(e) == "has_path" and len(e.args) == 3:
                    x, y = dotted(e.args[1]), dotted(e.args[2])
                    if (x, y) == (b, a):
                        return A("path_back")
                    if (x, y) == (a, b):
                        return A("path_back") if not directed else A("path_fwd")
                return None

            fm = path_formula(s, atomize)
            rc.ob(f"{cname}.add_edge -> base add_edge({a}, {b}) under {show_formula(fm)}")
            # the edge that was checked must be the edge that is added: no re-binding of its endpoints in between
            guard_lines = [t.lineno for t, pol in s.conds if any(isinstance(x, ast.Call) and call_name(x) == "has_path" for x in ast.walk(t))]
            if guard_lines:
                lo, hi = min(guard_lines), s.node.lineno
                for n in walk_no_nested(f.node):
                    if isinstance(n, (ast.Assign, ast.AugAssign)) and lo < n.lineno < hi:
                        tg = n.targets if isinstance(n, ast.Assign) else [n.target]
                        names = {x.id for t in tg for x in ast.walk(t) if isinstance(x, ast.Name)}
                        if names & {a, b}:
                            rc.fail(f, n, f"{cname}.add_edge re-binds `{sorted(names & {a, b})[0]}` after the cycle test: the edge handed to the graph is not the edge that was checked",
                                    construct=f"{cname} endpoint re-bound after guard")
            need = Not(And(A("in_a"), A("in_b"), A("path_back")))
            ok, cx, rows = implies(fm, need, extra_atoms=("in_a", "in_b", "path_back"))
            rc.report.rows += rows
            if not ok:
                rc.fail(f, s.node, f"{cname}.add_edge can hand an edge to the graph although a path {b}~>{a} exists (condition {show_formula(fm)}): "
                        f"the model may become cyclic", construct=f"{cname} unguarded add_edge")
            if directed:
                ok2, _, rows = implies(fm, Not(A("selfloop")), extra_atoms=("selfloop",))
                rc.report.rows += rows
                if not ok2:
                    rc.fail(f, s.node, f"{cname}.add_edge accepts a self loop", construct=f"{cname} self loop")
            # the rejecting branch raises
            first = False
        raises = [n for n in walk_no_nested(f.node) if isinstance(n, ast.Raise)]
        if not raises:
            rc.fail(f, f.node, f"{cname}.add_edge never rejects an edge", construct=f"{cname} no raise")
    # bulk routes
    for rel, q in ((DAGF, "DAG.add_edges_from"), (DBN, "DynamicBayesianNetwork.add_edges_from"), ("pgmpy/models/NaiveBayes.py", "NaiveBayes.add_edges_from"),
                   ("pgmpy/base/UndirectedGraph.py", "UndirectedGraph.add_edges_from")):  # JunctionTree / ClusterGraph / MarkovNetwork guard their add_edge and inherit this bulk editor
        f = repo.func(rel, q)
        cs = calls_named(f, "add_edge")
        ok = cs and all(dotted(c.func.value) == "self" for c in cs)
        for c in repo.calls_in(f):
            if call_name(c) in ("add_edges_from", "add_weighted_edges_from", "add_edge", "update") and not (isinstance(c.func, ast.Attribute) and dotted(c.func.value) == "self"):
                if isinstance(c.func, ast.Attribute) and (isinstance(c.func.value, ast.Call) and call_name(c.func.value) == "super" or (dotted(c.func.value) or "").startswith("nx.")):
                    ok = False
                    rc.fail(f, c, f"{q} hands edges to the base-class editor `{norm(c.func)}`: subclasses' cycle guards (BayesianNetwork.add_edge, ...) are bypassed on this path",
                            construct=f"{q} bypass {call_name(c)}")
        rc.ob(f"{q} dispatches through self.add_edge: {bool(ok)}")
        if not ok:
            rc.fail(f, f.node, f"{q} must add each edge through self.add_edge (the guarded override)", construct="bulk route")
    for rel, q in ((DBN, "DynamicBayesianNetwork.__init__"), (JT, "JunctionTree.__init__"), (CG, "ClusterGraph.__init__")):
        f = repo.func(rel, q)
        ok = any(dotted(c.func.value) == "self" for c in calls_named(f, "add_edges_from"))
        sup = [c for c in repo.calls_in(f) if call_name(c) == "__init__" and c.args]
        rc.ob(f"{q}: edges go through self.add_edges_from: {ok}; base __init__ receives edges: {bool(sup)}")
        if sup or not ok:
            rc.fail(f, f.node, f"{q} must not hand its edges to the unguarded base constructor", construct="constructor route")
    # DAG.__init__ (used by BayesianNetwork(ebunch)): edges go to networkx directly, so a cycle check that raises must follow
    f = repo.func(DAGF, "DAG.__init__")
    has_check = any(call_name(c) in ("find_cycle", "is_directed_acyclic_graph", "simple_cycles") for c in repo.calls_in(f))
    has_raise = any(isinstance(n, ast.Raise) for n in walk_no_nested(f.node))
    rc.ob(f"DAG.__init__: cycle check {has_check}, raises {has_raise}")
    if not (has_check and has_raise):
        rc.fail(f, f.node, "DAG(ebunch) adds edges without the guarded add_edge and must therefore reject cyclic input itself", construct="constructor cycle check")
    # who-may-call: unbound base editors applied to a model
    n_sites = 0
    for fn in repo.all_functions():
        for c in repo.calls_in(fn):
            d = dotted(c.func)
            if d in ("nx.DiGraph.add_edge", "nx.Graph.add_edge", "DAG.add_edge", "nx.DiGraph.add_edges_from", "nx.Graph.add_edges_from", "DAG.add_edges_from") and c.args \
                    and dotted(c.args[0]) is not None:
                n_sites += 1
                rc.fail(fn, c, f"unbound call {d}(...) bypasses the cycle guard of the model's own add_edge", construct=f"bypass {d}")
            if isinstance(c.func, ast.Attribute) and c.func.attr in ("add_edge", "add_edges_from") and isinstance(c.func.value, ast.Call) and call_name(c.func.value) == "super" \
                    and fn.cls is not None and fn.cls.name in ("BayesianNetwork", "DynamicBayesianNetwork", "JunctionTree", "NaiveBayes") \
                    and fn.name not in ("add_edge", "add_edges_from", "__init__"):
                rc.fail(fn, c, f"{fn.qual} reaches the base-class {c.func.attr} directly, bypassing the cycle guard", construct=f"bypass in {fn.name}")
    rc.ob(f"who-may-call scan: {n_sites} unbound base-editor call(s) in the package")
    rc.report.exhaustive = True


def _self_mutation_nodes(repo, f):
    fl = analyse(shared.summaries(repo), f)
    return {id(m.node): m for m in fl.mutations if m.root == "self" or m.root.startswith("self.")}


@rule("C15.atomic", "single-element editors: no raise after the first mutation of the same element", floor=8)
def atomic(rc):
    repo = rc.repo
    targets = [
        (BN, "BayesianNetwork.add_edge"), (BN, "BayesianNetwork.add_cpds"), (BN, "BayesianNetwork.remove_cpds"), (BN, "BayesianNetwork.remove_node"),
        (DBN, "DynamicBayesianNetwork.add_edge"), (DBN, "DynamicBayesianNetwork.add_cpds"), (DBN, "DynamicBayesianNetwork.remove_cpds"),
        (JT, "JunctionTree.add_edge"), (CG, "ClusterGraph.add_edge"), (CG, "ClusterGraph.add_node"), (CG, "ClusterGraph.add_factors"),
        (MN, "MarkovNetwork.add_edge"), (MN, "MarkovNetwork.add_factors"), (DAGF, "DAG.add_node"), (DAGF, "DAG.add_edge"),
    ]
    for rel, q in targets:
        f = repo.try_func(rel, q)
        if f is None:
            continue
        muts = _self_mutation_nodes(repo, f)
        found = []

        def contains_mut(node):
            return any(id(x) in muts for x in ast.walk(node))

        def walk(stmts, dirty):
            for st in stmts:
                if isinstance(st, ast.Raise):
                    if dirty:
                        found.append(st)
                    return dirty, True
                if isinstance(st, ast.Return):
                    return dirty, True
                if isinstance(st, ast.If):
                    if contains_mut(st.test):
                        dirty = True
                    d1, t1 = walk(st.body, dirty)
                    d2, t2 = walk(st.orelse, dirty)
                    if t1 and t2:
                        return dirty, True
                    dirty = (d1 and not t1) or (d2 and not t2) or (dirty and False)
                    if not t1 and not t2:
                        dirty = d1 or d2
                    continue
                if isinstance(st, (ast.For, ast.While)):
                    # per-element atomicity: each iteration starts clean
                    d, _ = walk(st.body, False)
                    walk(st.orelse, dirty or d)
                    dirty = dirty or d
                    continue
                if isinstance(st, ast.Try):
                    d, t = walk(st.body, dirty)
                    for h in st.handlers:
                        walk(h.body, dirty)
                    dirty = d
                    continue
                if isinstance(st, ast.With):
                    dirty, t = walk(st.body, dirty)
                    if t:
                        return dirty, True
                    continue
                if contains_mut(st):
                    dirty = True
            return dirty, False

        walk(f.body, False)
        rc.ob(f"{q}: {len(muts)} mutation site(s) of self, {len(found)} raise(s) reachable after one")
        for r in found:
            rc.fail(f, r, f"{q} can raise after it has already modified the model: a rejected operation does not leave the model unchanged", construct=f"raise after mutation: {norm(r, 80)}")


@rule("C15.remove", "BayesianNetwork.remove_node: children's CPDs marginalised over the node, node's CPD removed, latents updated, node removed", floor=4)
def remove(rc):
    repo = rc.repo
    f = repo.func(BN, "BayesianNetwork.remove_node")
    node = f.params[1]
    body = f.node
    marg = [s for s in sites(body, lambda n: isinstance(n, ast.Call) and call_name(n) == "marginalize")]
    ok_m = False
    for s in marg:
        c = s.node
        arg = c.args[0] if c.args else kwarg(c, "variables")
        targets_node = isinstance(arg, (ast.List, ast.Tuple, ast.Set)) and [dotted(x) for x in arg.elts] == [node]
        ip = kwarg(c, "inplace")
        inplace = ip is None or (isinstance(ip, ast.Constant) and ip.value is True)
        # receiver: CPD of a child
        child_loop = False
        for t, it in s.loops:
            src = it
            if isinstance(it, ast.Name):
                for n in walk_no_nested(body):
                    if isinstance(n, ast.Assign) and dotted(n.targets[0]) == it.id:
                        src = n.value
            B = {"_n": node}
            if any(tm.is_(src, t_, B) is not None for t_ in ("self.successors(_n)", "list(self.successors(_n))", "self.get_children(_n)", "list(self.get_children(_n))",
                                                              "[_v for _u, _v in self.edges() if _u == _n]", "[_v for _u, _v in self.edges if _u == _n]",
                                                              "[_v for _u, _v in self.edges() if _n == _u]", "self[_n]", "list(self[_n])")):
                child_loop = True
        # the children must be cleaned up whether or not the removed node itself has a CPD
        own = [t for t, pol in s.conds if any(isinstance(x, ast.Call) and call_name(x) == "get_cpds" and
                                                 (dotted(kwarg(x, "node")) == node or (x.args and dotted(x.args[0]) == node)) for x in ast.walk(t))]
        rc.ob(f"remove_node: {norm(c)} in child loop: {child_loop}, in place: {inplace}, conditioned on the removed node's own CPD: {bool(own)}")
        if own:
            rc.fail(f, c, "the children's CPDs are marginalised only if the removed node itself has a CPD: after remove_cpds(node) (or in a partially parameterised model) the children "
                    "keep a parent that no longer exists and check_model raises", construct="marginalise children conditioned on own cpd")
        if targets_node and inplace and child_loop:
            ok_m = True
    if not ok_m:
        rc.fail(f, f.node, "remove_node must marginalise (in place) the CPD of every child over the removed node", construct="marginalise children")
    rm = [c for c in calls_named(f, "remove_cpds") if c.args and dotted(c.args[0]) == node]
    rc.ob(f"remove_node: removes the node's CPD: {bool(rm)}")
    if not rm:
        rc.fail(f, f.node, "remove_node must remove the node's own CPD", construct="remove cpd")
    lat = [n for n in walk_no_nested(body) if (isinstance(n, ast.Assign) and norm(n.targets[0]) == "self.latents") or
           (isinstance(n, ast.Call) and call_name(n) in ("discard", "difference_update") and norm(n.func.value) == "self.latents")]
    rc.ob(f"remove_node: updates latents: {bool(lat)}")
    if not lat:
        rc.fail(f, f.node, "remove_node must drop the node from the latent set", construct="latents")
    sup = _super_calls(f, "remove_node")
    rc.ob(f"remove_node: graph removal {[norm(s.node) for s in sup]}")
    if not sup or dotted(sup[0].node.args[0]) != node or sup[0].conds:
        rc.fail(f, f.node, "remove_node must finally remove the node from the graph (unconditionally)", construct="graph removal")
    elif marg and marg[0].node.lineno > sup[0].node.lineno:
        rc.fail(f, f.node, "children must be looked up before the node leaves the graph", construct="order")


@rule("C15.onecpd", "add_cpds never leaves two CPDs for the same variable (a new CPD replaces the previous one), in every model class", floor=2)
def onecpd(rc):
    """get_cpds(node) returns the first match and check_model / inference read every stored CPD: a second CPD for a variable is either ignored or used twice.
    Every add_cpds that stores into self.cpds must first look for a CPD of the same variable (sibling implementations judged by one rule)."""
    repo = rc.repo
    n = 0
    for rel, cname in ((BN, "BayesianNetwork"), (DBN, "DynamicBayesianNetwork")):
        f = repo.func(rel, f"{cname}.add_cpds")
        n += 1
        stores = [c for c in repo.calls_in(f) if call_name(c) in ("append", "extend", "insert") and norm(c.func.value) == "self.cpds"]
        stores += [x for x in walk_no_nested(f.node) if isinstance(x, ast.AugAssign) and norm(x.target) == "self.cpds"]
        looks = [x for x in ast.walk(f.node) if isinstance(x, ast.Compare) and isinstance(x.ops[0], ast.Eq) and ".variable" in norm(x.left) and ".variable" in norm(x.comparators[0])]
        rc.ob(f"{cname}.add_cpds: stores {[norm(x, 50) for x in stores]}; looks for an existing CPD of the same variable: {bool(looks)}")
        if stores and not looks:
            rc.fail(f, stores[0], f"{cname}.add_cpds appends to self.cpds without looking for an existing CPD of the same variable: adding a CPD for a node that already has one leaves two "
                    "(get_cpds keeps answering with the old one)", construct=f"{cname}.add_cpds duplicates")
        for x in stores:
            if call_name(x) == "extend" if isinstance(x, ast.Call) else True:
                rc.fail(f, x, f"{cname}.add_cpds bulk-stores the new CPDs (`{norm(x, 50)}`): duplicates within the call and against stored CPDs are kept", construct=f"{cname}.add_cpds bulk store")


@rule("C15.copy", "copy() of model classes shares no in-place-mutated container and no CPD/factor object with the original", floor=5)
def copy(rc):
    repo = rc.repo
    classes = [repo.cls(BN, "BayesianNetwork"), repo.cls(DBN, "DynamicBayesianNetwork"), repo.cls(MN, "MarkovNetwork"),
               repo.cls(JT, "JunctionTree"), repo.cls(CG, "ClusterGraph"), repo.cls(DAGF, "PDAG")]
    shared.copy_rule(rc, classes)
    # every model copy re-adds nodes (isolated ones survive) and edges
    for ci in classes[:5]:
        f = ci.methods.get("copy")
        if f is None:
            rc.fail(None, None, f"{ci.name}.copy vanished", construct=f"{ci.name}.copy", file=ci.module.rel, func=ci.name)
            continue
        txt = norm(f.node, 100000)
        if not any(call_name(c_) == "edges" for c_ in repo.calls_in(f)):
            rc.fail(f, f.node, f"{ci.name}.copy must carry over the edges", construct="edges")
        if ci.name in ("BayesianNetwork", "MarkovNetwork", "JunctionTree", "DynamicBayesianNetwork", "ClusterGraph") and not any(call_name(c_) == "add_nodes_from" for c_ in repo.calls_in(f)):
            rc.fail(f, f.node, f"{ci.name}.copy must carry over isolated nodes", construct="nodes")
        objs = "cpds" if ci.name in ("BayesianNetwork", "DynamicBayesianNetwork") else "factors"
        per_elem = any(isinstance(n, (ast.ListComp, ast.GeneratorExp)) and isinstance(n.elt, ast.Call) and call_name(n.elt) == "copy" for n in ast.walk(f.node))
        if not per_elem:
            rc.fail(f, f.node, f"{ci.name}.copy must copy each of its {objs}", construct=f"copy each {objs}")
    shared.copy_completeness_rule(rc, [(DAGF, "DAG"), (DAGF, "PDAG"), (BN, "BayesianNetwork"), (MN, "MarkovNetwork"), (JT, "JunctionTree"), (CG, "ClusterGraph"),
                                       (DBN, "DynamicBayesianNetwork"), ("pgmpy/models/FactorGraph.py", "FactorGraph")])
    shared.rebuilt_from_edges_rule(rc, ("pgmpy/models/", "pgmpy/base/"), only=lambda f: f.name == "copy")
    bn = repo.func(BN, "BayesianNetwork.copy")
    if "latents" not in norm(bn.node, 100000):
        rc.fail(bn, bn.node, "BayesianNetwork.copy must carry over the latent set", construct="latents carried")


_BN_ADD = '        if u in self.nodes() and v in self.nodes() and nx.has_path(self, v, u):\n            raise ValueError(\n                "Loops are not allowed. Adding the edge from (%s->%s) forms a loop."'


@rule("C15.defuse", "anchored files: no parameter is accepted and ignored (generic def-use detector, triaged exemptions)", floor=2)
def defuse(rc):
    from . import shared as _sh
    _sh.defuse_rule(rc, _sh.anchor_files("C15"))

MUTANTS = [
    dict(kind="break", name="dbn-add-cpds-extends", file=DBN, expect="C15.onecpd",
         old="        for cpd in cpds:\n            for index, prev_cpd in enumerate(self.cpds):\n                if prev_cpd.variable == cpd.variable:\n                    self.cpds[index] = cpd\n                    break\n            else:\n                self.cpds.append(cpd)\n",
         new="        self.cpds.extend(cpds)\n"),
    dict(kind="break", name="dag-copy-loses-latents", file=DAGF, expect="C15.copy",
         old="        if not as_view:\n            dag.latents = set(self.latents)\n", new=""),
    dict(kind="break", name="markov-copy-loses-latents", file=MN, expect="C15.copy",
         old="        clone_graph = MarkovNetwork(self.edges(), latents=self.latents)", new="        clone_graph = MarkovNetwork(self.edges())"),
    dict(kind="break", name="cluster-copy-loses-isolated-cliques", file=CG, expect="C15.copy",
         old="        copy = ClusterGraph(self.edges())\n        copy.add_nodes_from(self.nodes())\n", new="        copy = ClusterGraph(self.edges())\n"),
    dict(kind="break", name="bn-path-check-wrong-direction", file=BN, expect="C15.guard",
         old=_BN_ADD, new=_BN_ADD.replace("nx.has_path(self, v, u)", "nx.has_path(self, u, v)")),
    dict(kind="break", name="bn-no-self-loop-check", file=BN, expect="C15.guard",
         old='        if u == v:\n            raise ValueError("Self loops are not allowed.")\n        if u in self.nodes()', new='        if u in self.nodes()'),
    dict(kind="break", name="jt-no-cycle-check", file=JT, expect="C15.guard",
         old="        if u in self.nodes() and v in self.nodes() and nx.has_path(self, u, v):", new="        if u in self.nodes() and v in self.nodes() and self.has_edge(u, v):"),
    dict(kind="break", name="dbn-bulk-bypasses-guard", file=DBN, expect="C15.guard",
         old="        for edge in ebunch:\n            self.add_edge(edge[0], edge[1])", new="        for edge in ebunch:\n            super(DynamicBayesianNetwork, self).add_edge(DynamicNode(*edge[0]), DynamicNode(*edge[1]))"),
    dict(kind="break", name="dag-weighted-bulk-bypass", file=DAGF, expect="C15.guard",
         old="            for index in range(len(ebunch)):\n                self.add_edge(ebunch[index][0], ebunch[index][1], weight=weights[index])",
         new="            super(DAG, self).add_edges_from((e[0], e[1], {\"weight\": w}) for e, w in zip(ebunch, weights))"),
    dict(kind="break", name="dbn-fold-after-guard", file=DBN, expect="C15.guard",
         old="        super(DynamicBayesianNetwork, self).add_edge(start, end, **kwargs)\n\n        if start[1] == end[1]:",
         new="        end = DynamicNode(end[0], end[1] - start[1])\n        start = DynamicNode(start[0], 0)\n        super(DynamicBayesianNetwork, self).add_edge(start, end, **kwargs)\n\n        if start[1] == end[1]:"),
    dict(kind="break", name="dag-constructor-no-cycle-check", file=DAGF, expect="C15.guard",
         old="        cycles = []\n        try:\n            cycles = list(nx.find_cycle(self))\n        except nx.NetworkXNoCycle:\n            pass\n        else:", new="        cycles = []\n        if False:"),
    dict(kind="break", name="add-cpds-validates-after-append", file=BN, expect="C15.atomic",
         old="            if set(cpd.scope()) - set(cpd.scope()).intersection(set(self.nodes())):\n                raise ValueError(\"CPD defined on variable not in the model\", cpd)\n\n            for prev_cpd_index in range(len(self.cpds)):\n                if self.cpds[prev_cpd_index].variable == cpd.variable:\n                    logger.warning(f\"Replacing existing CPD for {cpd.variable}\")\n                    self.cpds[prev_cpd_index] = cpd\n                    break\n            else:\n                self.cpds.append(cpd)",
         new="            for prev_cpd_index in range(len(self.cpds)):\n                if self.cpds[prev_cpd_index].variable == cpd.variable:\n                    logger.warning(f\"Replacing existing CPD for {cpd.variable}\")\n                    self.cpds[prev_cpd_index] = cpd\n                    break\n            else:\n                self.cpds.append(cpd)\n\n            if set(cpd.scope()) - set(cpd.scope()).intersection(set(self.nodes())):\n                raise ValueError(\"CPD defined on variable not in the model\", cpd)"),
    dict(kind="break", name="remove-node-keeps-child-cpds", file=BN, expect="C15.remove",
         old="            if node_cpd:\n                node_cpd.marginalize([node], inplace=True)", new="            if node_cpd:\n                node_cpd.marginalize([node], inplace=False)"),
    dict(kind="break", name="remove-node-keeps-own-cpd", file=BN, expect="C15.remove",
         old="        if self.get_cpds(node=node):\n            self.remove_cpds(node)\n", new=""),
    dict(kind="break", name="bn-copy-shares-latents", file=BN, expect="C15.copy",
         old="model_copy.latents = self.latents.copy()", new="model_copy.latents = self.latents"),
    dict(kind="break", name="bn-copy-shares-cpds", file=BN, expect="C15.copy",
         old="            model_copy.add_cpds(*[cpd.copy() for cpd in self.cpds])", new="            model_copy.add_cpds(*self.cpds)"),
    dict(kind="break", name="mn-copy-shares-factors", file=MN, expect="C15.copy",
         old="            factors_copy = [factor.copy() for factor in self.factors]\n            clone_graph.add_factors(*factors_copy)", new="            clone_graph.add_factors(*self.factors)"),
    dict(kind="twin", name="bn-guard-as-elif-chain", file=BN,
         old='        if u == v:\n            raise ValueError("Self loops are not allowed.")\n        if u in self.nodes()', new='        if v == u:\n            raise ValueError("Self loops are not allowed.")\n        elif u in self.nodes()'),
    dict(kind="twin", name="bn-copy-latents-set-constructor", file=BN,
         old="model_copy.latents = self.latents.copy()", new="model_copy.latents = set(self.latents)"),
]
