"""C18 — independence reasoning is sound: equivalence, closure and I-maps."""
from __future__ import annotations

import ast
import itertools

from ..core import AnalysisError, call_name, dotted, kwarg, norm, walk_no_nested
from ..guards import sites, terminates
from ..registry import describe, rule
from .. import tmatch as tm
from ..util import calls_named, peel, resolve, returns_of

DAGF = "pgmpy/base/DAG.py"
IND = "pgmpy/independencies/Independencies.py"
JPD = "pgmpy/factors/discrete/JointProbabilityDistribution.py"

describe(
    "C18",
    "the v-structure objects compared by DAG.is_iequivalent carry the collider (identity flow from the loop node into the "
    "compared key) together with a skeleton comparison; the guard of the contraction step in Independencies.closure is exactly "
    "the axiom's precondition (decided by exhaustive valuation of the 2^7 Venn-region occupancies of the three sets involved), "
    "decomposition / weak union produce the axioms' shapes, both sides are tried, and the closure loop is a fixed point over "
    "new x all pairs, and decomposition / weak union are APPLIED to every assertion whose second event has several variables (path "
    "condition compared as a formula); IndependenceAssertion equality and hash agree on the symmetry they accept; independence "
    "queries on a joint table never edit the table; minimal_imap has an edge-adding path that does not depend on a positive "
    "independence test (a variable depending on all its predecessors gets all of them as parents) and asks X ⟂ pred∖S | S.",
    ["numeric independence checks on joint tables (tolerances)", "minimality of I-maps", "termination/complexity of closure",
     "independence of a variable from a SET of variables (check_independence tests pairs)"],
)


# ---------------------------------------------------------------------------------------------
def _flows_to(expr, name: str, defs) -> bool:
    """does the value of local `name` flow (through tuples/sorted/frozenset/arithmetics) into expr?"""
    seen = set()

    def rec(e, d=0):
        if d > 8:
            return False
        for n in ast.walk(e):
            if isinstance(n, ast.Name):
                if n.id == name:
                    return True
                if n.id in defs and n.id not in seen:
                    seen.add(n.id)
                    if rec(defs[n.id], d + 1):
                        return True
        return False

    return rec(expr)


@rule("C18.collider", "the v-structures compared by is_iequivalent identify the collider, and the skeletons are compared", floor=2)
def collider(rc):
    repo = rc.repo
    fi = repo.func(DAGF, "DAG.is_iequivalent")
    other = fi.params[1]
    # what is compared?
    compares = [n for n in walk_no_nested(fi.node) if isinstance(n, ast.Compare) and isinstance(n.ops[0], (ast.Eq, ast.NotEq))]
    vs_calls = []
    skel = False
    for c in compares:
        l, r = c.left, c.comparators[0]
        if isinstance(l, ast.Call) and isinstance(r, ast.Call) and call_name(l) == call_name(r):
            if "undirected" in norm(l) or "skeleton" in norm(l):
                skel = True
                rc.ob(f"skeleton comparison {norm(c)}")
            else:
                vs_calls.append((c, call_name(l)))
                rc.ob(f"v-structure comparison {norm(c)}")
    if not skel:
        rc.fail(fi, fi.node, "I-equivalence must compare the skeletons", construct="skeleton comparison")
    if not vs_calls:
        rc.fail(fi, fi.node, "I-equivalence must compare the v-structures", construct="v-structure comparison")
    dag = repo.cls(DAGF, "DAG")
    for c, meth in vs_calls:
        m = repo.resolve_method(dag, meth)
        if m is None:
            raise AnalysisError(f"DAG.{meth} not found")
        # in the producer: each element added to the result must carry the node whose parents are combined
        adds = sites(m.node, lambda n: isinstance(n, ast.Call) and call_name(n) in ("add", "append"))
        if not adds:
            raise AnalysisError(f"{meth}: no accumulation site")
        for s in adds:
            node_var = None
            pair_var = None
            for t, it in s.loops:
                itp = peel(it)
                if isinstance(itp, ast.Call) and call_name(itp) == "nodes":
                    node_var = dotted(t)
                if isinstance(itp, ast.Call) and call_name(itp) == "combinations":
                    pair_var = dotted(t)
            if node_var is None:
                raise AnalysisError(f"{meth}: cannot find the loop over nodes")
            elem = s.node.args[0]
            carries = _flows_to(elem, node_var, s.defs)
            rc.ob(f"{meth}: element {norm(elem)} carries collider `{node_var}`: {carries}")
            if not carries:
                rc.fail(fi, c, f"is_iequivalent compares {meth}(), whose elements {norm(elem)} omit the collider `{node_var}`: the same parent pair "
                        f"colliding at different children compares equal", construct=f"compares {meth}() without collider")
            # unshielded: the path condition of the accumulation is (as a truth table over the two edge atoms) "neither direction present"
            _unshielded(rc, m, s, pair_var)
    # the sibling producer get_immoralities obeys the same condition
    gi = repo.resolve_method(dag, "get_immoralities")
    if gi is not None:
        for s in sites(gi.node, lambda n: isinstance(n, ast.Call) and call_name(n) in ("add", "append")):
            pv = None
            for t, it in s.loops:
                if isinstance(peel(it), ast.Call) and call_name(peel(it)) == "combinations":
                    pv = dotted(t)
            _unshielded(rc, gi, s, pv)


def _unshielded(rc, m, s, pair_var):
    from ..guards import A, And, Not, equivalent, path_formula, show_formula
    # the two parents: elements of the loop variable over combinations(…, 2) — `pair[0]`, `pair[1]` or a tuple target `x, y`
    p0 = p1 = None
    for t, it in s.loops:
        if isinstance(peel(it), ast.Call) and call_name(peel(it)) == "combinations":
            if isinstance(t, ast.Name):
                p0, p1 = f"{t.id}[0]", f"{t.id}[1]"
            elif isinstance(t, (ast.Tuple, ast.List)) and len(t.elts) == 2:
                p0, p1 = norm(t.elts[0]), norm(t.elts[1])
    if p0 is None:
        raise AnalysisError(f"{m.qual}: cannot find the loop over parent pairs")

    def edge(a, b):
        if (a, b) == (p0, p1):
            return A("e01")
        if (a, b) == (p1, p0):
            return A("e10")
        return None

    def atomize(e):
        if isinstance(e, ast.Call) and call_name(e) == "has_edge" and len(e.args) == 2:
            return edge(norm(e.args[0]), norm(e.args[1]))
        if isinstance(e, ast.Compare) and len(e.ops) == 1 and isinstance(e.ops[0], (ast.In, ast.NotIn)):
            c = e.comparators[0]
            a = None
            if isinstance(c, ast.Subscript) and norm(c.value) in ("self", "self.adj", "self.succ", "self._adj", "self._succ"):
                a = edge(norm(c.slice), norm(e.left))
            elif isinstance(c, ast.Call) and call_name(c) in ("successors", "neighbors", "get_children") and c.args:
                a = edge(norm(c.args[0]), norm(e.left))
            elif isinstance(c, ast.Call) and call_name(c) in ("predecessors", "get_parents") and c.args:
                a = edge(norm(e.left), norm(c.args[0]))
            if a is not None:
                return Not(a) if isinstance(e.ops[0], ast.NotIn) else a
        return None
    fm = path_formula(s, atomize)
    ok = equivalent(fm, And(Not(A("e01")), Not(A("e10"))), extra_atoms=("e01", "e10"))
    ok = ok[0] if isinstance(ok, tuple) else ok
    rc.ob(f"{m.qual}: a pair of parents is recorded under {show_formula(fm)}; equivalent to 'no edge in either direction': {bool(ok)}")
    if not ok:
        rc.fail(m, s.node, f"{m.qual}: an immorality requires the two parents to be non-adjacent in BOTH directions; the pair is recorded under `{show_formula(fm)}` "
                "(a shielded collider — a triangle — is counted as a v-structure, or an unshielded one is missed)", construct=f"{m.qual} unshielded test")


# ---------------------------------------------------------------------------------------------
# Venn-region evaluation of set predicates

SETS3 = None


def _eval_set(e, env):
    if isinstance(e, ast.Name):
        if e.id not in env:
            raise AnalysisError("unknown set name in guard: " + e.id)
        return env[e.id]
    if isinstance(e, ast.BinOp):
        l, r = _eval_set(e.left, env), _eval_set(e.right, env)
        if isinstance(e.op, ast.BitOr):
            return l | r
        if isinstance(e.op, ast.BitAnd):
            return l & r
        if isinstance(e.op, ast.Sub):
            return l - r
        if isinstance(e.op, ast.BitXor):
            return l ^ r
    if isinstance(e, ast.Call) and isinstance(e.func, ast.Attribute) and len(e.args) == 1:
        l, r = _eval_set(e.func.value, env), _eval_set(e.args[0], env)
        m = e.func.attr
        if m == "union":
            return l | r
        if m == "intersection":
            return l & r
        if m == "difference":
            return l - r
    if isinstance(e, ast.Call) and isinstance(e.func, ast.Name) and e.func.id in ("set", "frozenset") and len(e.args) <= 1:
        return _eval_set(e.args[0], env) if e.args else frozenset()
    raise AnalysisError("unsupported set expression in guard: " + norm(e))


def _eval_bool(e, env):
    if isinstance(e, ast.BoolOp):
        vals = [_eval_bool(v, env) for v in e.values]
        return all(vals) if isinstance(e.op, ast.And) else any(vals)
    if isinstance(e, ast.UnaryOp) and isinstance(e.op, ast.Not):
        return not _eval_bool(e.operand, env)
    if isinstance(e, ast.Compare):
        left = e.left
        res = True
        for op, right in zip(e.ops, e.comparators):
            l, r = _eval_set(left, env), _eval_set(right, env)
            if isinstance(op, ast.Lt):
                ok = l < r
            elif isinstance(op, ast.LtE):
                ok = l <= r
            elif isinstance(op, ast.Gt):
                ok = l > r
            elif isinstance(op, ast.GtE):
                ok = l >= r
            elif isinstance(op, ast.Eq):
                ok = l == r
            elif isinstance(op, ast.NotEq):
                ok = l != r
            else:
                raise AnalysisError("unsupported comparison in guard: " + norm(e))
            res = res and ok
            left = right
        return res
    if isinstance(e, ast.Call) and isinstance(e.func, ast.Attribute) and len(e.args) == 1:
        l, r = _eval_set(e.func.value, env), _eval_set(e.args[0], env)
        m = e.func.attr
        if m == "isdisjoint":
            return not (l & r)
        if m == "issubset":
            return l <= r
        if m == "issuperset":
            return l >= r
    if isinstance(e, ast.Constant) and isinstance(e.value, bool):
        return e.value
    # truthiness of a set expression
    try:
        return bool(_eval_set(e, env))
    except AnalysisError:
        raise AnalysisError("unsupported predicate in guard: " + norm(e))


def _sig(rows):
    import hashlib
    return hashlib.sha1(repr(rows).encode()).hexdigest()[:10] + f"/{len(rows)} rows"


def _conds_to_expr(conds):
    parts = []
    for t, pol in conds:
        parts.append(t if pol else ast.UnaryOp(op=ast.Not(), operand=t))
    if not parts:
        return ast.Constant(value=True)
    return ast.BoolOp(op=ast.And(), values=parts) if len(parts) > 1 else parts[0]


def _find_inner(fi, name):
    for n in ast.walk(fi.node):
        if isinstance(n, ast.FunctionDef) and n.name == name and n is not fi.node:
            return n
    raise AnalysisError(f"closure: inner rule `{name}` vanished")


def _field(e, defs):
    """ind1.event3 -> ('ind1','event3') following local aliases"""
    e = resolve(e, defs)
    if isinstance(e, ast.Attribute) and isinstance(e.value, ast.Name):
        return (e.value.id, e.attr)
    return None


@rule("C18.contraction", "closure(): the contraction guard is exactly the axiom's precondition (Venn-region valuation); decomposition and weak union have the axioms' shapes; fixed-point loop", floor=6)
def contraction(rc):
    repo = rc.repo
    fi = repo.func(IND, "Independencies.closure")
    sg3 = _find_inner(fi, "sg3")
    a1, a2 = [a.arg for a in sg3.args.args]
    rets = sites(sg3, lambda n: isinstance(n, ast.Return) and isinstance(n.value, (ast.List, ast.ListComp)) and (not isinstance(n.value, ast.List) or n.value.elts))
    if len(rets) != 1:
        raise AnalysisError("sg3: expected exactly one productive return")
    s = rets[0]
    out = s.node.value.elts[0]
    if not (isinstance(out, ast.Call) and call_name(out) == "IndependenceAssertion" and len(out.args) == 3):
        raise AnalysisError("sg3: output is not IndependenceAssertion(a, b, c)")
    defs = s.defs
    # roles: which local names denote  Y=ind2.event2, Z=ind2.event3, YZ=ind1.event3, W=ind1.event2, X=ind1.event1
    # identify by fields; the premise with the larger conditioning set is the one whose event3 is compared as superset.
    fields = {}
    for nm, v in defs.items():
        f = _field(ast.Name(id=nm), defs)
        if f:
            fields[nm] = f
    # same first event required
    eq_guard = any(isinstance(t, ast.Compare) and {norm(t.left), norm(t.comparators[0])} == {f"{a1}.event1", f"{a2}.event1"}
                   and ((isinstance(t.ops[0], ast.NotEq) and not pol) or (isinstance(t.ops[0], ast.Eq) and pol)) for t, pol in s.conds)
    rc.ob(f"sg3 requires equal first events: {eq_guard}")
    if not eq_guard:
        rc.fail(fi, sg3, "contraction needs both premises to be about the same X (event1 equal)", construct="sg3 same-X guard")
    # output shape: (X, W ∪ Y, Z) with  premise1 = X ⟂ W | Y∪Z, premise2 = X ⟂ Y | Z
    o1, o2, o3 = out.args
    f3 = _field(o3, defs)
    if f3 is None or f3[1] != "event3":
        rc.fail(fi, out, "contraction output must be conditioned on the second premise's conditioning set Z", construct="sg3 output")
        return
    p2 = f3[0]
    p1 = a1 if p2 == a2 else a2
    ok_shape = _field(o1, defs) in ((p1, "event1"), (p2, "event1"))
    u = resolve(o2, defs)
    ok_union = isinstance(u, ast.BinOp) and isinstance(u.op, ast.BitOr) and {_field(u.left, defs), _field(u.right, defs)} == {(p1, "event2"), (p2, "event2")}
    rc.ob(f"sg3 output {norm(out)}: X ok {ok_shape}, W∪Y ok {ok_union}, Z = {p2}.event3")
    if not (ok_shape and ok_union):
        rc.fail(fi, out, "contraction output must be X ⟂ (W ∪ Y) | Z", construct="sg3 output")
    # guard over the three sets  Y = p2.event2, Z = p2.event3, YZ = p1.event3
    role_of = {(p2, "event2"): "Y", (p2, "event3"): "Z", (p1, "event3"): "YZ", (p1, "event2"): "W", (p1, "event1"): "X", (p2, "event1"): "X"}
    guard_conds = [(t, pol) for t, pol in s.conds if not (isinstance(t, ast.Compare) and "event1" in norm(t))]
    gexpr = _conds_to_expr(guard_conds)

    class Ren(ast.NodeTransformer):
        def visit_Name(self, n):
            f = _field(n, defs)
            if f and f in role_of:
                return ast.Name(id=role_of[f], ctx=ast.Load())
            return n

        def visit_Attribute(self, n):
            f = _field(n, defs)
            if f and f in role_of:
                return ast.Name(id=role_of[f], ctx=ast.Load())
            return self.generic_visit(n)

    import copy
    g2 = Ren().visit(copy.deepcopy(gexpr))
    ast.fix_missing_locations(g2)
    rc.ob(f"sg3 guard over (Y, Z, YZ): {norm(g2)}")
    # regions: non-empty subsets of {Y, Z, YZ}; occupancy patterns 2^7
    names = ["Y", "Z", "YZ"]
    regions = [frozenset(c) for k in (1, 2, 3) for c in itertools.combinations(names, k)]
    rows = 0
    unsound = incomplete = None
    sig_u, sig_i = [], []
    for occ in itertools.product([False, True], repeat=len(regions)):
        env = {n: frozenset(i for i, (r, o) in enumerate(zip(regions, occ)) if o and n in r) for n in names}
        env["W"] = frozenset({"w"})
        env["X"] = frozenset({"x"})
        if not env["Y"]:
            continue  # event2 of an assertion is never empty
        rows += 1
        got = _eval_bool(g2, env)
        want = (env["Y"] | env["Z"]) == env["YZ"] and not (env["Y"] & env["Z"])
        if got and not want:
            sig_u.append(rows)
        if want and not got:
            sig_i.append(rows)
        if got and not want and unsound is None:
            unsound = {n: sorted("".join(sorted(regions[i])) for i in env[n]) for n in names}
        if want and not got and incomplete is None:
            incomplete = {n: sorted("".join(sorted(regions[i])) for i in env[n]) for n in names}
    rc.report.rows += rows
    rc.report.exhaustive = True
    if unsound is not None:
        rc.fail(fi, s.node, "the contraction guard admits premises that do not match the axiom (needs Y ∪ Z = conditioning set of the first premise, "
                f"Y ∩ Z = ∅): e.g. region occupancy {unsound} — an underivable independence is added to the closure", construct=f"sg3 guard unsound [truth-table signature {_sig(sig_u)}]")
    if incomplete is not None:
        rc.fail(fi, s.node, f"the contraction guard rejects valid premises (e.g. region occupancy {incomplete}; typically Z = ∅): "
                f"derivable statements are missing from the closure", construct=f"sg3 guard incomplete [truth-table signature {_sig(sig_i)}]")

    # sg1 / sg2 shapes
    for name, third in (("sg1", "same"), ("sg2", "plus")):
        f = _find_inner(fi, name)
        arg = f.args.args[0].arg
        comps = [n for n in ast.walk(f) if isinstance(n, ast.ListComp)]
        ok = False
        for lc in comps:
            e = lc.elt
            g = lc.generators[0]
            if not (isinstance(e, ast.Call) and call_name(e) == "IndependenceAssertion" and len(e.args) == 3):
                continue
            el = dotted(g.target)
            x_ok = norm(e.args[0]) == f"{arg}.event1" and norm(g.iter) == f"{arg}.event2"
            y_ok = norm(e.args[1]) == f"{arg}.event2 - {{{el}}}"
            z = norm(e.args[2])
            z_ok = z == f"{arg}.event3" if third == "same" else z in (f"{{{el}}} | {arg}.event3", f"{arg}.event3 | {{{el}}}")
            ok = x_ok and y_ok and z_ok
            rc.ob(f"{name} output {norm(e)}")
        if not ok:
            rc.fail(fi, f, f"{name} must produce X ⟂ Y−{{e}} | " + ("Z" if third == "same" else "Z ∪ {e}") + " for every e in Y", construct=f"{name} shape")
        # the rule must fire for EVERY assertion whose second event has at least two elements: its path condition is implied by ¬single(event2)
        from ..guards import A, Not, implies, path_formula, show_formula

        def atomize(e_, arg=arg):
            t = norm(e_)
            if t == f"single_var({arg}.event2)" or t in (f"len({arg}.event2) == 1", f"len({arg}.event2) <= 1", f"len({arg}.event2) < 2"):
                return A("single2")
            if t in (f"len({arg}.event2) > 1", f"len({arg}.event2) >= 2", f"len({arg}.event2) != 1"):
                return Not(A("single2"))
            return None

        for s_ in sites(f, lambda n: isinstance(n, ast.Return) and isinstance(n.value, ast.ListComp)):
            fm = path_formula(s_, atomize)
            okg, _, rws = implies(Not(A("single2")), fm, extra_atoms=("single2",))
            rc.report.rows += rws
            rc.ob(f"{name} fires under {show_formula(fm)}")
            if not okg:
                rc.fail(fi, s_.node, f"{name} must be applied to every assertion whose second event has several variables; here it fires only under `{show_formula(fm)}` — "
                        "derivable statements are missing from the closure (entails / is_equivalent answer wrongly)", construct=f"{name} guard")

    # both sides: decorator applies the rule to all symmetric variants
    dec = _find_inner(fi, "apply_left_and_right")
    n_calls = len([n for n in ast.walk(dec) if isinstance(n, ast.Call) and isinstance(n.func, ast.Name) and n.func.id == dec.args.args[0].arg])
    rc.ob(f"symmetric application: {n_calls} applications (2 for unary + 4 for binary rules)")
    if n_calls < 6:
        rc.fail(fi, dec, "rules must be applied to both orientations of each premise (2 + 4 combinations)", construct="symmetric application")
    for name in ("sg1", "sg2", "sg3"):
        f = _find_inner(fi, name)
        if not any(dotted(d) == "apply_left_and_right" for d in f.decorator_list):
            rc.fail(fi, f, f"{name} must be applied on both sides (symmetry is not a separate axiom here)", construct=f"{name} decorator")

    # fixed-point loop
    loops = [n for n in fi.node.body if isinstance(n, ast.While)]
    if len(loops) != 1:
        raise AnalysisError("closure: expected one fixed-point loop")
    lp = loops[0]
    new = dotted(lp.test)
    txt = norm(lp, 100000)
    acc = None
    for n in ast.walk(lp):
        if isinstance(n, ast.AugAssign) and isinstance(n.op, ast.BitOr) and dotted(n.value) == new:
            acc = dotted(n.target)
    rc.ob(f"fixed point: new={new} accumulated into {acc}")
    if acc is None:
        rc.fail(fi, lp, "closure must accumulate the newly derived statements", construct="accumulate")
        return
    need = [f"permutations({new}, 2)", f"product({new}, {acc})", f"product({acc}, {new})"]
    alt = [f"product({new}, {new})"]
    pairs_ok = all(x in txt for x in need[1:]) and (need[0] in txt or alt[0] in txt)
    if not pairs_ok:
        rc.fail(fi, lp, "pairs for contraction must cover new×new, new×all and all×new", construct="pair coverage")
    applied = {name: (f"{name}(" in txt) for name in ("sg1", "sg2", "sg3")}
    if not all(applied.values()):
        rc.fail(fi, lp, f"every axiom must be applied in each round: {applied}", construct="axioms applied")
    sub = any(isinstance(n, ast.AugAssign) and isinstance(n.op, ast.Sub) and dotted(n.target) == new and dotted(n.value) == acc for n in ast.walk(lp))
    if not sub:
        rc.fail(fi, lp, "already known statements must be removed from the new set (termination and fixed point)", construct="subtract known")
    r = returns_of(fi)
    rr = [x for x in r if x.value is not None and acc in norm(x.value)]
    if not rr:
        rc.fail(fi, fi.node, "closure must return the accumulated set", construct="return")
    # entails / is_equivalent go through closure
    ent = repo.func(IND, "Independencies.entails")
    if not calls_named(ent, "closure"):
        rc.fail(ent, ent.node, "entails must test membership in the closure", construct="entails via closure")
    rc.ob("entails -> closure")
    eqv = repo.func(IND, "Independencies.is_equivalent")
    if len(calls_named(eqv, "entails")) < 2:
        rc.fail(eqv, eqv.node, "is_equivalent must be mutual entailment", construct="mutual entailment")
    rc.ob("is_equivalent -> entails both ways")


@rule("C18.pure", "independence queries on a joint distribution (check_independence, get_independencies, minimal_imap, is_imap, out-of-place marginal/conditional) never edit the distribution", floor=5)
def pure(rc):
    from ..effects import analyse
    from . import shared
    repo = rc.repo
    summ = shared.summaries(repo)
    cls = repo.cls(JPD, "JointProbabilityDistribution")
    for name in ("check_independence", "get_independencies", "minimal_imap", "is_imap", "marginal_distribution", "conditional_distribution", "to_factor"):
        f = cls.methods.get(name)
        if f is None:
            raise AnalysisError(f"JointProbabilityDistribution.{name} vanished")
        fold = {"inplace": False} if "inplace" in f.params else None
        fl = analyse(summ, f, fold=fold)
        bad = [m for m in fl.mutations if not m.order_only]
        rc.ob(f"{f.qual}{' [inplace=False]' if fold else ''}: {len(bad)} mutation(s) of self/arguments")
        for m in bad:
            what = "the distribution itself" if m.root.startswith("self") else f"the argument `{m.root}`"
            rc.fail(f, m.node, f"{f.qual} modifies {what}: `{norm(m.node, 70)}` ({m.how}) — later independence queries on the same object answer for another distribution",
                    construct=f"{name} {m.root}: {norm(m.node, 100)}")


@rule("C18.imap", "minimal_imap gives every variable a parent set: when no proper subset of its predecessors screens off the rest, all predecessors become parents", floor=2)
def imap(rc):
    """Necessary for the result to be an I-map: a variable that depends on ALL of its predecessors (no proper subset S with X ⟂ pred∖S | S) must get
    all of them as parents.  Structurally: some edge-adding site of the per-variable loop must be reachable on a path that is not conditioned on a
    positive answer of check_independence; otherwise such a variable gets no parents and the graph asserts independencies that do not hold."""
    from ..guards import A, Not, implies, path_formula, show_formula
    repo = rc.repo
    f = repo.func(JPD, "JointProbabilityDistribution.minimal_imap")
    adds = sites(f.node, lambda n: isinstance(n, ast.Call) and call_name(n) in ("add_edges_from", "add_edge"))
    if not adds:
        raise AnalysisError("minimal_imap: no edge-adding site")

    def atomize(e):
        if isinstance(e, ast.Call) and call_name(e) == "check_independence":
            return A("independent")
        return None

    uncond = False
    for s_ in adds:
        fm = path_formula(s_, atomize)
        needs_indep = implies(fm, A("independent"), extra_atoms=("independent",))[0]
        rc.ob(f"minimal_imap: {norm(s_.node, 70)} under {show_formula(fm)} (requires a positive independence test: {needs_indep})")
        if not needs_indep:
            uncond = True
    if not uncond:
        rc.fail(f, adds[0].node, "minimal_imap adds parents only for subsets that pass check_independence and only tries PROPER subsets of the predecessors: a variable that "
                "depends on all its predecessors gets no parents at all, so the returned graph encodes independencies that do not hold (two dependent variables -> no edge; "
                "a generic joint -> the empty graph)", construct="minimal_imap no fallback to all predecessors")
    calls = [c for c in repo.calls_in(f) if call_name(c) == "check_independence"]
    for c in calls:
        okc = len(c.args) >= 3 and tm.is_(c.args[1], "set(_u) - set(_s)") is not None and dotted(c.args[2]) == tm.is_(c.args[1], "set(_u) - set(_s)")["_s"]
        rc.ob(f"minimal_imap: independence asked as X ⟂ pred∖S | S: {bool(okc)}")
        if not okc:
            rc.fail(f, c, "the screening test must be X ⟂ (predecessors ∖ S) | S for the candidate parent set S", construct="minimal_imap screening test")


@rule("C18.imapeq", "is_imap compares the joint with the product of the CPDs in one state-name space", floor=2)
def imapeq(rc):
    """A JointProbabilityDistribution has no state names (positions only).  DiscreteFactor equality aligns states by NAME, so comparing a factor rebuilt from the
    joint WITHOUT names with the product of CPD factors that carry names is False for every network whose CPDs name their states."""
    repo = rc.repo
    for rel, q in ((JPD, "JointProbabilityDistribution.is_imap"), ("pgmpy/models/BayesianNetwork.py", "BayesianNetwork.is_imap")):
        f = repo.func(rel, q)
        cmps = [n for n in walk_no_nested(f.node) if isinstance(n, ast.Compare) and isinstance(n.ops[0], ast.Eq)]
        if not cmps:
            raise AnalysisError(f"{q}: equality test not found")
        from ..util import single_defs
        d = {}
        for n in sorted([x for x in walk_no_nested(f.node) if isinstance(x, ast.Assign) and isinstance(x.targets[0], ast.Name)], key=lambda x: (x.lineno, x.col_offset)):
            d.setdefault(n.targets[0].id, []).append(n.value)

        def nameless(e):
            defs_ = d.get(e.id, []) if isinstance(e, ast.Name) else [e]
            last = defs_[-1] if defs_ else None
            return isinstance(last, ast.Call) and call_name(last) == "DiscreteFactor" and kwarg(last, "state_names") is None and len(last.args) <= 3

        for c in cmps:
            l, r = c.left, c.comparators[0]
            nl, nr = nameless(l), nameless(r)
            rc.ob(f"{q}: compares `{norm(l)}` (rebuilt without names: {nl}) with `{norm(r)}` (rebuilt without names: {nr})")
            if nl != nr:
                rc.fail(f, c, f"{q}: one side of `{norm(c)}` is rebuilt without state names (positions 0..k-1) and the other keeps the CPDs' state names; factor equality aligns states "
                        "by name, so the answer is False for every network whose CPDs name their states", construct="is_imap mixes state-name spaces")


@rule("C18.symmetry", "IndependenceAssertion: __eq__ accepts the swap of the first two events iff __hash__ is invariant under it", floor=2)
def symmetry(rc):
    repo = rc.repo
    eq = repo.func(IND, "IndependenceAssertion.__eq__")
    hs = repo.func(IND, "IndependenceAssertion.__hash__")
    txt = norm(eq.node, 10000)
    swap = "(self.event2, self.event1, self.event3)" in txt.replace("\n", "") or "event2, self.event1" in txt
    direct = "(self.event1, self.event2, self.event3)" in txt
    h = returns_of(hs)[0].value
    htxt = norm(h)
    inv = "frozenset((self.event1, self.event2))" in htxt or "frozenset([self.event1, self.event2])" in htxt or "frozenset({self.event1, self.event2})" in htxt
    third = "self.event3" in htxt
    rc.ob(f"__eq__ accepts direct={direct} swapped={swap}")
    rc.ob(f"__hash__ = {htxt}: swap-invariant={inv}, depends on event3={third}")
    if not direct:
        rc.fail(eq, eq.node, "equality must accept the identical triple", construct="eq direct")
    if swap != inv:
        rc.fail(hs, hs.node, "__eq__ and __hash__ disagree about the symmetry X⟂Y|Z == Y⟂X|Z (equal objects must hash equal; "
                "set-based closure/entailment relies on it)", construct="eq/hash symmetry")
    if not swap:
        rc.fail(eq, eq.node, "X⟂Y|Z and Y⟂X|Z must compare equal (symmetry axiom is built into equality)", construct="eq symmetric")
    # the third event takes part in equality
    if txt.count("event3") < 2:
        rc.fail(eq, eq.node, "the conditioning set must take part in equality", construct="eq event3")



@rule("C18.defuse", "anchored files: no parameter is accepted and ignored (generic def-use detector, triaged exemptions)", floor=2)
def defuse(rc):
    from . import shared as _sh
    _sh.defuse_rule(rc, _sh.anchor_files("C18"))

MUTANTS = [
    dict(kind="break", name="is-imap-mixes-name-spaces", file=JPD, expect="C18.imapeq",
         old="        factor_prod = DiscreteFactor(\n            factor_prod.variables, factor_prod.cardinality, factor_prod.values\n        )\n        JPD_fact = DiscreteFactor(self.variables", new="        JPD_fact = DiscreteFactor(self.variables"),
    dict(kind="repair", name="minimal-imap-falls-back-to-all-predecessors", file=JPD, gone="C18.imap",
         old="                    G.add_edges_from(\n                        [(variable, order[variable_index]) for variable in subset]\n                    )\n        return G",
         new="                    G.add_edges_from(\n                        [(variable, order[variable_index]) for variable in subset]\n                    )\n                    separated = True\n            if not separated:\n                G.add_edges_from([(variable, order[variable_index]) for variable in u])\n        return G"),
    dict(kind="break", name="minimal-imap-conditions-on-the-removed-set", file=JPD, expect="C18.imap",
         old="[order[variable_index]], set(u) - set(subset), subset, True", new="[order[variable_index]], set(u) - set(subset), set(u) - set(subset), True"),
    dict(kind="break", name="check-independence-on-self", file=JPD, expect="C18.pure",
         old="        JPD = self.copy()\n        if isinstance(event1, str):", new="        JPD = self\n        if isinstance(event1, str):"),
    dict(kind="break", name="weak-union-only-for-single-left", file=IND, expect="C18.contraction",
         old="            \"Weak Union rule: 'X ⟂ Y,W | Z' -> 'X ⟂ Y | W,Z', 'X ⟂ W | Y,Z'\"\n            if single_var(ind.event2):",
         new="            \"Weak Union rule: 'X ⟂ Y,W | Z' -> 'X ⟂ Y | W,Z', 'X ⟂ W | Y,Z'\"\n            if single_var(ind.event2) or not single_var(ind.event1):"),
    dict(kind="twin", name="decomposition-guard-by-len", file=IND,
         old="            \"Decomposition rule: 'X ⟂ Y,W | Z' -> 'X ⟂ Y | Z', 'X ⟂ W | Z'\"\n            if single_var(ind.event2):",
         new="            \"Decomposition rule: 'X ⟂ Y,W | Z' -> 'X ⟂ Y | Z', 'X ⟂ W | Z'\"\n            if len(ind.event2) <= 1:"),
    dict(kind="break", name="immorality-without-collider", file=DAGF, expect="C18.collider",
         old="vstructures.add((frozenset(parents), node))", new="vstructures.add(frozenset(parents))"),
    dict(kind="break", name="iequivalent-compares-immoralities", file=DAGF, expect="C18.collider",
         old="self._get_vstructures() == model._get_vstructures()", new="self.get_immoralities() == model.get_immoralities()"),
    dict(kind="break", name="contraction-no-disjoint", file=IND, expect="C18.contraction",
         old="if Y < Y_Z and Z < Y_Z and Y.isdisjoint(Z):", new="if Y < Y_Z and Z < Y_Z:"),
    dict(kind="break", name="contraction-y-only", file=IND, expect="C18.contraction",
         old="if Y < Y_Z and Z < Y_Z and Y.isdisjoint(Z):", new="if Y < Y_Z and Y.isdisjoint(Z):"),
    dict(kind="repair", name="contraction-axiom-guard", file=IND, gone="C18.contraction",
         old="if Y < Y_Z and Z < Y_Z and Y.isdisjoint(Z):", new="if Y | Z == Y_Z and Y.isdisjoint(Z):"),
    dict(kind="repair", name="contraction-axiom-guard-rewritten", file=IND, gone="C18.contraction",
         old="if Y < Y_Z and Z < Y_Z and Y.isdisjoint(Z):", new="if not (Y & Z) and Y_Z == Z | Y:"),
    dict(kind="break", name="contraction-output-conditioned-on-yz", file=IND, expect="C18.contraction",
         old="return [IndependenceAssertion(ind1.event1, ind1.event2 | Y, Z)]", new="return [IndependenceAssertion(ind1.event1, ind1.event2 | Y, Y_Z)]"),
    dict(kind="break", name="weak-union-forgets-elem", file=IND, expect="C18.contraction",
         old="ind.event1, ind.event2 - {elem}, {elem} | ind.event3", new="ind.event1, ind.event2 - {elem}, ind.event3 | ind.event1"),
    dict(kind="break", name="closure-misses-all-x-new", file=IND, expect="C18.contraction",
         old="                | set(itertools.product(all_independencies, new_inds))\n", new=""),
    dict(kind="break", name="hash-not-symmetric", file=IND, expect="C18.symmetry",
         old="return hash((frozenset((self.event1, self.event2)), self.event3))", new="return hash((self.event1, self.event2, self.event3))"),
    dict(kind="twin", name="contraction-guard-reordered", file=IND,
         old="if Y < Y_Z and Z < Y_Z and Y.isdisjoint(Z):", new="if Z < Y_Z and not (Y & Z) and Y < Y_Z:"),
    dict(kind="twin", name="immorality-helper-renamed-local", file=DAGF,
         old="                    vstructures.add((frozenset(parents), node))\n        return vstructures",
         new="                    key = (frozenset(parents), node)\n                    vstructures.add(key)\n        return vstructures"),
]
