"""C01 — exact posterior queries equal the conditional of the CPD-product joint."""
from __future__ import annotations

import ast

from ..core import AnalysisError, call_name, dotted, kwarg, norm, walk_no_nested
from ..guards import A, And, Not, Or, T, implies, path_formula, show_formula, sites
from ..registry import describe, rule
from ..util import calls_named, const_str, returns_of
from .. import tmatch as tm

EI = "pgmpy/inference/ExactInference.py"
IB = "pgmpy/inference/base.py"
EO = "pgmpy/inference/EliminationOrder.py"

describe(
    "C01",
    "on every path on which the model is a Bayesian network, every value VariableElimination.query / _variable_elimination returns "
    "(joint or per-variable) is `.normalize(inplace=False)` of the contracted factor; the result factor's variables, the einsum output "
    "subscripts and its state names come from one `variables` list and from the (pruned) model's own state names; all six exact-query "
    "entry points reject overlapping variables/evidence before any model work; the elimination order handed to the loop is a "
    "permutation of the variables to eliminate (heuristic table exact, each heuristic overrides cost, the worklist removes one node per "
    "round from both working graphs, an explicit order is checked for overlap and for completeness); the working factor sets tag "
    "factors by identity so equal factors are not merged; pruning keeps latent nodes on active trails, conditions on the evidence, takes "
    "the ancestral graph of query+evidence and marginalises CPDs out of place; virtual evidence is encoded as a binary child fixed to 0.",
    ["that the einsum contraction / elimination loop computes the right numbers", "irrelevance of pruned nodes as a probabilistic fact",
     "equality across elimination orders as a numeric identity"],
)


def _isbn(e):
    """isinstance(self.model, BayesianNetwork) / (BayesianNetwork, ...) -> formula"""
    if isinstance(e, ast.Call) and isinstance(e.func, ast.Name) and e.func.id == "isinstance" and len(e.args) == 2 and norm(e.args[0]) == "self.model":
        t = e.args[1]
        names = [dotted(x) for x in t.elts] if isinstance(t, ast.Tuple) else [dotted(t)]
        parts = [A("isBN") if n == "BayesianNetwork" else A("is" + (n or "?")) for n in names]
        return Or(*parts)
    return None


def _atomize(e):
    r = _isbn(e)
    if r is not None:
        return r
    if dotted(e) in ("joint", "variables"):
        return A(dotted(e))
    if isinstance(e, ast.Compare) and dotted(e.left) == "elimination_order" and isinstance(e.comparators[0], ast.Constant):
        return A("greedy")
    return None


def _normalised(v):
    return isinstance(v, ast.Call) and call_name(v) == "normalize" and isinstance(kwarg(v, "inplace"), ast.Constant) and kwarg(v, "inplace").value is False


@rule("C01.norm", "values returned for a Bayesian network are normalised (joint and per-variable modes, both algorithms)", floor=6)
def norm_rule(rc):
    repo = rc.repo
    for q in ("VariableElimination.query", "VariableElimination._variable_elimination"):
        f = repo.func(EI, q)
        dict_names = set()
        for r in returns_of(f):
            if isinstance(r.value, ast.Name):
                for n in walk_no_nested(f.node):
                    if isinstance(n, ast.Assign) and dotted(n.targets[0]) == r.value.id and isinstance(n.value, ast.Dict):
                        dict_names.add(r.value.id)
        cand = []
        for s in sites(f.node, lambda n: isinstance(n, ast.Return) and n.value is not None):
            v = s.node.value
            if isinstance(v, ast.Name):
                from_callee = any(isinstance(n, ast.Assign) and dotted(n.targets[0]) == v.id and isinstance(n.value, ast.Call) and call_name(n.value) == "_variable_elimination"
                                  for n in walk_no_nested(f.node))
                # a name that (also) holds the classic branch's result, returned outside the greedy branch: the value comes
                # from _variable_elimination and is checked there
                if from_callee and not any(isinstance(t, ast.Compare) and dotted(t.left) == "elimination_order" and pol for t, pol in s.conds):
                    continue
                if v.id in dict_names:
                    continue
            if isinstance(v, ast.Call) and call_name(v) == "query" and dotted(v.func.value) == "self":
                continue  # recursion (virtual evidence)
            cand.append((s, v, s.node))
        for s in sites(f.node, lambda n: isinstance(n, ast.Assign) and isinstance(n.targets[0], ast.Subscript) and dotted(n.targets[0].value) in dict_names):
            cand.append((s, s.node.value, s.node))
        for s, v, node in cand:
            fm = path_formula(s, _atomize, drop_validation=True)
            may_be_bn = not implies(fm, Not(A("isBN")), extra_atoms=("isBN",))[0]
            exempt = any(dotted(t) == "variables" and not pol for t, pol in s.conds)
            rc.ob(f"{q}: {norm(node, 70)} under {show_formula(fm)} (BN possible: {may_be_bn}; no-variables branch: {exempt})")
            if exempt or not may_be_bn:
                continue
            forced_bn = implies(fm, A("isBN"), extra_atoms=("isBN",))[0] or implies(fm, Or(A("isBN"), A("isJunctionTree"), A("isDynamicBayesianNetwork")), extra_atoms=("isBN",))[0]
            if not _normalised(v):
                if forced_bn or not any(a for a in ("isBN",) if a in show_formula(fm)):
                    rc.fail(f, node, f"{q}: for a Bayesian network this path returns `{norm(v, 60)}` without normalising — the answer is not P(query | evidence)",
                            construct=f"{q} unnormalised: {norm(v, 70)}")
    rc.report.exhaustive = True


@rule("C01.labels", "result variables, einsum output subscripts and state names come from one list and from the model's own states", floor=2)
def labels(rc):
    repo = rc.repo
    f = repo.func(EI, "VariableElimination.query")
    ctor = [c for c in repo.calls_in(f) if call_name(c) == "DiscreteFactor"]
    if len(ctor) != 1:
        raise AnalysisError("VariableElimination.query: result factor construction not found")
    c = ctor[0]
    b = tm.is_(c, "DiscreteFactor(variables, _RV.shape, _RV, state_names={_v: _M.states[_v] for _v in variables})")
    rc.ob(f"result factor {norm(c, 150)}")
    if b is None:
        b2 = tm.is_(c, "DiscreteFactor(variables, _RV.shape, _RV, state_names=__SN)") or tm.is_(c, "DiscreteFactor(variables, _RV.shape, _RV)")
        if b2 is None:
            rc.fail(f, c, "the result factor must be built over the requested `variables` with the contracted values and their shape", construct="result factor args")
        else:
            rc.fail(f, c, "the result must be labelled with the model's own state names for exactly the query variables", construct="result state_names")
        b = b2 or {}
    elif b["_M"] not in ("model_reduced",) and not tm.has(f.node, "_M, evidence = self._prune_bayesian_model(variables, evidence)", {"_M": b["_M"]}) \
            and not tm.has(f.node, "_M = self.model", {"_M": b["_M"]}):
        rc.fail(f, c, "the state names must come from the (pruned) model of this query", construct="result state_names model")
    con = [x for x in repo.calls_in(f) if call_name(x) == "contract"]
    if not con:
        raise AnalysisError("VariableElimination.query: contraction call not found")
    out = con[0].args[-1] if con[0].args else None
    oko = tm.is_(out, "[_VM[_v] for _v in variables]") is not None
    rc.ob(f"einsum output subscripts {norm(out) if out is not None else None}")
    if not oko:
        rc.fail(f, con[0], "the contraction's output axes must follow the same `variables` list that labels the result", construct="einsum output order")
    rv = b.get("_RV")
    if rv and not tm.has(f.node, "_RV = contract(*__A)", {"_RV": rv}) and not any(dotted(getattr(con[0], "_parent", None).targets[0]) == rv for _ in [0] if isinstance(getattr(con[0], "_parent", None), ast.Assign)):
        rc.fail(f, c, "the result values must be the contraction's output", construct="result values source")
    # each factor's subscripts: its own variables minus evidence, in the factor's axis order, values reduced at the evidence states
    n_sub = len(tm.find_all(f.node, "[_VM[_v] for _v in _P.variables if _v not in evidence.keys()]")) + len(tm.find_all(f.node, "[_VM[_v] for _v in _P.variables if _v not in evidence]"))
    n_val = len(tm.find_all(f.node, "_P.values[_RI[_i]]"))
    if n_sub < 2 or n_val < 2:
        rc.fail(f, f.node, "each factor enters the contraction with its values sliced at the evidence states and subscripts for its remaining variables in axis order", construct="factor subscripts")
    if not tm.has(f.node, "_IX[_i] = _P.get_state_no(_P.variables[_i], evidence[_P.variables[_i]])"):
        rc.fail(f, f.node, "evidence states must be translated with the factor's own state names", construct="evidence state numbers")
    rc.ob("factor operands: sliced at evidence, subscripts in axis order")


ENTRY = [("VariableElimination", "query"), ("VariableElimination", "map_query"), ("VariableElimination", "max_marginal"),
         ("BeliefPropagation", "query"), ("BeliefPropagation", "map_query"), ("BeliefPropagationWithMessagePassing", "query")]


@rule("C01.disjoint", "every exact-query entry point rejects overlapping variables and evidence before any model work", floor=6)
def disjoint(rc):
    repo = rc.repo
    for cname, m in ENTRY:
        f = repo.func(EI, f"{cname}.{m}")
        d = sorted([(n, b) for n, b in tm.find_all(f.node, "_C = set(__EV).intersection(__VARS)") if "evidence" in norm(b["__EV"]) and "variables" in norm(b["__VARS"])],
                   key=lambda x: x[0].lineno)
        cname_ = d[0][1]["_C"] if d else None
        rs = sorted([s for s in sites(f.node, lambda n: isinstance(n, ast.Raise)) if any(dotted(t) == cname_ and pol for t, pol in s.conds)], key=lambda s: s.node.lineno)
        okd = bool(d)
        work = [c for c in repo.calls_in(f) if call_name(c) in ("_prune_bayesian_model", "_virtual_evidence", "_query", "_variable_elimination", "_initialize_structures", "run",
                                                                "_RecursiveMessageSchedulingQuery")]
        first_work = min([c.lineno for c in work], default=10 ** 9)
        rc.ob(f"{cname}.{m}: overlap test {bool(okd)}, raise {bool(rs)}, before first model work: {bool(rs) and rs[0].node.lineno < first_work}")
        if not okd or not rs:
            rc.fail(f, f.node, f"{cname}.{m} must reject a variable that is both queried and observed", construct=f"{cname}.{m} overlap check")
        elif rs[0].node.lineno > first_work:
            rc.fail(f, rs[0].node, f"{cname}.{m}: the overlap check must come before the model is pruned/augmented", construct=f"{cname}.{m} overlap check order")


@rule("C01.order", "the elimination order is a permutation of the variables to eliminate", floor=7)
def order(rc):
    repo = rc.repo
    f = repo.func(EI, "VariableElimination._get_elimination_order")
    d = {n.targets[0].id: n.value for n in walk_no_nested(f.node) if isinstance(n, ast.Assign) and isinstance(n.targets[0], ast.Name)}
    te_b = tm.find(f.node, "_TE = set(self.variables) - set(variables) - set(evidence.keys() if evidence else [])")[1] or tm.find(f.node, "_TE = set(self.variables) - set(variables) - set(evidence)")[1]
    rc.ob(f"to_eliminate = model variables - query - evidence: {te_b is not None}")
    if te_b is None:
        rc.fail(f, f.node, "variables to eliminate = model variables minus query minus evidence", construct="to_eliminate")
        return
    TE = te_b["_TE"]
    tbls = [v for v in walk_no_nested(f.node) if isinstance(v, ast.Dict) and v.keys and all(isinstance(k, ast.Constant) and isinstance(k.value, str) for k in v.keys) and any(dotted(x) == "MinFill" for x in v.values)]
    tbl = tbls[0] if tbls else None
    tname = ([k for k, v in d.items() if v is tbl] or [None])[0] if tbl is not None else None
    want = {"weightedminfill": "WeightedMinFill", "minneighbors": "MinNeighbors", "minweight": "MinWeight", "minfill": "MinFill"}
    if not isinstance(tbl, ast.Dict):
        raise AnalysisError("_get_elimination_order: heuristic table not found")
    got = {const_str(k): dotted(v) for k, v in zip(tbl.keys, tbl.values)}
    rc.ob(f"heuristic table {got}")
    if got != want:
        rc.fail(f, tbl, f"heuristic names must map to the heuristic of that name: {got}", construct="heuristic table")
    look = [n for n in walk_no_nested(f.node) if isinstance(n, ast.Subscript) and (n.value is tbl or (tname is not None and dotted(n.value) == tname))]
    if not look or norm(look[0].slice) != "elimination_order.lower()":
        rc.fail(f, f.node, "the heuristic is selected by the lower-cased name", construct="heuristic lookup")
    call = [c for c in repo.calls_in(f) if call_name(c) == "get_elimination_order"]
    if not call or dotted(kwarg(call[0], "nodes")) != TE:
        rc.fail(f, f.node, "the heuristic must order exactly the variables to eliminate", construct="heuristic nodes")
    base = repo.cls(EO, "BaseEliminationOrder")
    for name in want.values():
        ci = repo.module(EO).classes.get(name)
        okc = ci is not None and "cost" in ci.methods and base in repo.mro(ci)
        rc.ob(f"{name}: subclass of BaseEliminationOrder overriding cost: {okc}")
        if not okc:
            rc.fail(None, None, f"{name} must be a BaseEliminationOrder that overrides cost", construct=f"heuristic {name}", file=EO, func=name)
    g = repo.func(EO, "BaseEliminationOrder.get_elimination_order")
    wl = [n for n in walk_no_nested(g.node) if isinstance(n, ast.While)]
    okw = False
    if wl:
        w = wl[0]
        nodes_v = dotted(w.test)
        n1, b1 = tm.find(w, "_S = {_n: self.cost(_n) for _n in _W}", {"_W": nodes_v})
        if n1 is not None:
            n2, b2 = tm.find(w, "_M = min(_S, key=_S.get)", {"_S": b1["_S"]})
            if n2 is not None:
                M = b2["_M"]
                app = tm.find(w, "_O.append(_M)", {"_M": M})
                okw = app[0] is not None and tm.has(w, "_W.remove(_M)", {"_W": nodes_v, "_M": M}) and tm.has(w, "self.bayesian_model.remove_node(_M)", {"_M": M}) \
                    and tm.has(w, "self.moralized_model.remove_node(_M)", {"_M": M})
                if okw and not any(dotted(r.value) == app[1]["_O"] for r in returns_of(g)):
                    rc.fail(g, g.node, "the ordering must be returned", construct="return ordering")
    rc.ob(f"worklist: one minimum-cost node per round, removed from the worklist and both working graphs: {bool(okw)}")
    if not okw:
        rc.fail(g, g.node, "each round must pick the minimum-cost remaining node, append it, and remove it from the worklist AND from both working graphs (coupled update)",
                construct="elimination worklist")
    init = repo.func(EO, "BaseEliminationOrder.__init__")
    if "model.copy()" not in norm(init.node, 5000):
        rc.fail(init, init.node, "the heuristic must work on a copy of the model (it removes nodes)", construct="heuristic copy")
    # explicit list: overlap and completeness
    rs = sites(f.node, lambda n: isinstance(n, ast.Raise))
    def _ov(t):
        b = tm.is_(t, "any((_v in elimination_order for _v in __S))")
        return b is not None and "variables" in norm(b["__S"], 300) and "evidence" in norm(b["__S"], 300)
    overlap = any(any(_ov(t) and pol for t, pol in s.conds) for s in rs)
    complete = any(any(norm(t) == f"{TE} != set(elimination_order)" and pol for t, pol in s.conds) for s in rs)
    rc.ob(f"explicit order: overlap rejected {overlap}, incompleteness rejected {complete}")
    # the completeness test must be reached on every path that keeps an explicit order (it must not be an `elif` behind the branch that filters unknown names)
    for s_ in rs:
        if any(norm(t) == f"{TE} != set(elimination_order)" and pol for t, pol in s_.conds):
            skipped_by = [t for t, pol in s_.conds if not pol and not _ov(t) and not (isinstance(t, ast.Call) and call_name(t) == "isinstance")
                          and any(isinstance(x, ast.Name) and x.id == "elimination_order" for x in ast.walk(t)) and norm(t) != f"{TE} != set(elimination_order)"]
            for t in skipped_by:
                rc.fail(f, s_.node, f"the completeness check of an explicit elimination order is skipped whenever `{norm(t, 70)}` holds (it sits in an elif behind that branch): an order that "
                        "contains an unknown name and misses a variable is accepted, and the query returns a table over extra variables", construct="explicit order completeness skipped")
    if not overlap:
        rc.fail(f, f.node, "an explicit order containing query or evidence variables must be rejected", construct="explicit overlap")
    if not complete:
        rc.fail(f, f.node, "an explicit order that does not cover exactly the variables to eliminate must be rejected", construct="explicit completeness")
    # the loop eliminates each variable of the order exactly once
    ve = repo.func(EI, "VariableElimination._variable_elimination")
    okl = False
    for lp in [n for n in walk_no_nested(ve.node) if isinstance(n, ast.For) and isinstance(n.target, ast.Name)]:
        v_ = lp.target.id
        n1, b1 = tm.find(lp, "_P = getattr(_P, operation)([_v], inplace=False)", {"_v": v_})
        if n1 is None:
            continue
        okl = tm.has(lp, "del _WF[_v]", {"_v": v_}) and tm.has(lp, "_EL.add(_v)", {"_v": v_}) and tm.has(lp, "_P = factor_product(*__F)", {"_P": b1["_P"]}) \
            and bool(tm.find_all(lp, "not set(_f.variables).intersection(_EL)"))
    rc.ob(f"elimination loop: product of the live factors of var, eliminate var out of place, retire var: {okl}")
    if not okl:
        rc.fail(ve, ve.node, "each step must multiply the live factors mentioning the variable, eliminate exactly that variable (out of place) and retire it", construct="elimination loop")


@rule("C01.once", "working factor sets tag factors by identity: equal factors are not merged", floor=3)
def once(rc):
    repo = rc.repo
    f = repo.func(EI, "VariableElimination._get_working_factors")
    comps = [n for n in walk_no_nested(f.node) if isinstance(n, ast.SetComp)]
    for c in comps:
        e = c.elt
        fv = dotted(c.generators[0].target)
        rc.ob(f"working set element {norm(e)} for {fv} in {norm(c.generators[0].iter)}")
        ok = isinstance(e, ast.Tuple) and len(e.elts) == 2 and dotted(e.elts[0]) == fv and norm(e.elts[1]) == f"id({fv})"
        if not ok:
            rc.fail(f, c, f"working factors are kept in a set of `{norm(e)}`: DiscreteFactor hashes and compares by value, so two equal factors of the model collapse into one",
                    construct="working set keyed by factor value")
    if not comps:
        lists = [n for n in walk_no_nested(f.node) if isinstance(n, (ast.ListComp,)) and "self.factors[node]" in norm(n)]
        if not lists:
            rc.fail(f, f.node, "cannot find how the working factors are collected", construct="working factors")
    adds = [c for c in repo.calls_in(f) if call_name(c) == "add" and "factor_reduced" in norm(c)]
    for c in adds:
        e = c.args[0]
        rc.ob(f"reduced factor re-inserted as {norm(e)}")
        ok = isinstance(e, ast.Tuple) and len(e.elts) == 2 and "origin" in norm(e.elts[1])
        if not ok:
            rc.fail(f, c, "factors reduced by the same evidence variable get the same tag: equal reduced factors collapse", construct="reduced factor tag")
    ve = repo.func(EI, "VariableElimination._variable_elimination")
    for n in walk_no_nested(ve.node):
        if isinstance(n, ast.Call) and call_name(n) == "factor_product" and n.args and isinstance(n.args[0], ast.Starred) and isinstance(n.args[0].value, ast.Call) \
                and isinstance(n.args[0].value.func, ast.Name) and n.args[0].value.func.id in ("set", "frozenset"):
            rc.fail(ve, n, f"`{norm(n)}` multiplies a value-keyed set of factors: equal factors are dropped", construct="product of a set of factors")
        if isinstance(n, ast.Call) and call_name(n) == "add" and dotted(n.func.value) == "final_distribution":
            e = n.args[0]
            rc.ob(f"final distribution element {norm(e)}")
            if not (isinstance(e, ast.Tuple) and len(e.elts) == 2):
                rc.fail(ve, n, "the remaining factors are collected in a set of bare factors: equal factors collapse", construct="final set of bare factors")
    rc.ob("no product over a set of factors in _variable_elimination")
    from . import shared as _sh
    _sh.value_keyed_factor_rule(rc, [(EI, "VariableElimination._get_working_factors"), (EI, "VariableElimination._variable_elimination"), (EI, "VariableElimination.query"),
                                     (EI, "VariableElimination.induced_graph"), (EI, "BeliefPropagation._query"), (IB, "Inference._initialize_structures"),
                                     (IB, "Inference._prune_bayesian_model")])


@rule("C01.states", "evidence states reach the factors as NAMES exactly once: a value already translated to a state number is never handed to a name-taking sink", floor=2)
def states(rc):
    from . import shared as _sh
    _sh.state_domain_rule(rc, ("pgmpy/inference/", "pgmpy/models/", "pgmpy/sampling/"))


@rule("C01.prune", "pruning and virtual evidence keep what the posterior depends on", floor=4)
def prune(rc):
    repo = rc.repo
    f = repo.func(IB, "Inference._prune_bayesian_model")
    at = [c for c in repo.calls_in(f) if call_name(c) == "active_trail_nodes"]
    ok1 = at and norm(kwarg(at[0], "variables")) == "variables" and norm(kwarg(at[0], "observed")) == "list(evidence.keys())" and norm(kwarg(at[0], "include_latents")) == "True"
    rc.ob(f"prune: {norm(at[0], 120) if at else None}")
    if not ok1:
        rc.fail(f, at[0] if at else f.node, "pruning must keep every node d-connected to the query given the evidence, latent nodes included", construct="prune active trails")
    n, b = tm.find(f.node, "_D = set.union(*_D.values()).union(evidence.keys())")
    if n is None:
        rc.fail(f, f.node, "the evidence nodes themselves must be kept", construct="prune keeps evidence")
        return
    D = b["_D"]
    ok3 = tm.has(f.node, "_G = _G.get_ancestral_graph(list(variables) + list(evidence.keys()))")
    rc.ob(f"prune: ancestral graph of query + evidence: {ok3}")
    if not ok3:
        rc.fail(f, f.node, "the model is reduced to the ancestral graph of query and evidence variables", construct="prune ancestral")
    n, b = tm.find(f.node, "_SD = set(_c.scope()) - set(_G.nodes())")
    ok4 = n is not None and tm.has(f.node, "_L.append(_c.marginalize(_SD, inplace=False))", {"_c": b["_c"], "_SD": b["_SD"]})
    if not ok4:
        rc.fail(f, f.node, "CPDs whose parents were pruned must be marginalised over exactly the pruned parents, out of place", construct="prune cpds")
    ok5 = tm.has(f.node, "evidence = {_v: _s for _v, _s in evidence.items() if _v in _D}", {"_D": D})
    if not ok5:
        rc.fail(f, f.node, "evidence on pruned nodes must be dropped consistently with the pruned model", construct="prune evidence")
    v = repo.func(IB, "Inference._virtual_evidence")
    nb, bb = tm.find(v.node, "_B = self.model.copy()")
    okv = nb is not None and bool(tm.find_all(v.node, "__F.vstack((_c.values, 1 - _c.values))", nested=True)) and tm.has(v.node, "_B.add_edge(_x, _nx)", {"_B": bb["_B"]}) \
        and any(norm(kwarg(c, "variable_card")) == "2" and tm.is_(kwarg(c, "evidence"), "[_x]") is not None and "state_names[" in norm(kwarg(c, "state_names") or ast.Constant(value=None), 300)
                for c in repo.calls_in(v) if call_name(c) == "TabularCPD")
    rc.ob(f"virtual evidence: binary child with rows (likelihood, 1 - likelihood) on a copy of the model: {okv}")
    if not okv:
        rc.fail(v, v.node, "virtual evidence on X must become a binary child of X whose first row is the given likelihood, on a COPY of the model", construct="virtual evidence encoding")
    # the helper nodes are NEW nodes, one per virtual evidence: a name derived from the variable alone is shared by two evidences on one variable (add_cpds then
    # replaces the first likelihood) and may be a node of the user's model; and the callers observe exactly the nodes the helper created
    from .shared import fresh_helper_nodes
    fresh_helper_nodes(rc, [v, repo.func("pgmpy/models/BayesianNetwork.py", "BayesianNetwork.simulate")])
    returns_names = any(isinstance(r.value, ast.Name) for r in walk_no_nested(v.node) if isinstance(r, ast.Return) and r.value is not None)
    for qn in ("VariableElimination.query", "VariableElimination.map_query", "BeliefPropagation.query", "BeliefPropagation.map_query"):
        q = repo.func("pgmpy/inference/ExactInference.py", qn)
        inner = qn.split(".")[1]
        nq, bq = tm.find(q.node, "_VE = self._virtual_evidence(virtual_evidence)")
        own = False
        if nq is None:
            nq, bq = tm.find(q.node, "_VE = {__K: 0 for _c in virtual_evidence}")
            own = nq is not None
        ok = nq is not None and any(tm.is_(kwarg(c, "evidence"), "{**evidence, **_VE}", {"_VE": bq["_VE"]}) is not None for c in repo.calls_in(q) if call_name(c) == inner)
        rc.ob(f"{qn}: helper nodes observed at state 0 next to the user's evidence: {ok}; names {'recomputed by the caller' if own else 'taken from the helper'}")
        if not ok:
            rc.fail(q, q.node, f"{qn}: the virtual-evidence children must be observed in state 0 in addition to the user's evidence", construct=f"{qn} virtual evidence observed")
        elif own and returns_names:
            rc.fail(q, nq, f"{qn}: the names of the helper nodes are recomputed (`{norm(nq, 70)}`) although `_virtual_evidence` chooses fresh names and returns them: "
                    "the observed nodes are not the ones that were added", construct=f"{qn} helper names recomputed")
    ck = repo.func(IB, "Inference._check_virtual_evidence")
    if len([n for n in walk_no_nested(ck.node) if isinstance(n, ast.Raise)]) < 4:
        rc.fail(ck, ck.node, "virtual evidence must be validated (type, single variable, in model, cardinality)", construct="virtual evidence checks")
    rc.ob("virtual evidence validated and observed at state 0")



@rule("C01.defuse", "anchored files: no parameter is accepted and ignored (generic def-use detector, triaged exemptions)", floor=2)
def defuse(rc):
    from . import shared as _sh
    _sh.defuse_rule(rc, _sh.anchor_files("C01"))

MUTANTS = [
    dict(kind="break", name="virtual-evidence-helper-name-from-variable-only", file=IB, expect="C01.prune",
         old="            while new_var in bn.nodes():\n                new_var += \"_\"\n", new=""),
    dict(kind="break", name="simulate-helper-name-from-variable-only", file="pgmpy/models/BayesianNetwork.py", expect="C01.prune",
         old="                while new_var in model.nodes():\n                    new_var += \"_\"\n", new=""),
    dict(kind="break", name="virtual-evidence-names-recomputed-by-caller", file=EI, expect="C01.prune",
         old="            virt_evidence = self._virtual_evidence(virtual_evidence)\n            try:\n                return self.query(\n                    variables=variables,\n                    evidence={**evidence, **virt_evidence},\n                    virtual_evidence=None,\n                    elimination_order=elimination_order,\n                    joint=joint,",
         new="            self._virtual_evidence(virtual_evidence)\n            virt_evidence = {\"__\" + str(cpd.variables[0]): 0 for cpd in virtual_evidence}\n            try:\n                return self.query(\n                    variables=variables,\n                    evidence={**evidence, **virt_evidence},\n                    virtual_evidence=None,\n                    elimination_order=elimination_order,\n                    joint=joint,"),
    dict(kind="break", name="virtual-evidence-helper-name-without-str", file=IB, expect="C01.prune",
         old='            new_var = "__" + str(var)', new='            new_var = "__" + var'),
    dict(kind="twin", name="virtual-evidence-helper-fresh-by-if-and-index", file=IB,
         old="            while new_var in bn.nodes():\n                new_var += \"_\"\n", new="            if new_var in bn.nodes():\n                new_var = f\"{new_var}_{len(bn.nodes())}\"\n"),
    dict(kind="break", name="completeness-check-behind-elif", file=EI, expect="C01.order",
         old="            # Step 1.3: Check if the elimination_order has all the variables that need to be eliminated.\n            if to_eliminate != set(elimination_order):",
         new="            # Step 1.3: Check if the elimination_order has all the variables that need to be eliminated.\n            elif to_eliminate != set(elimination_order):"),
    dict(kind="break", name="evidence-translated-twice", file=EI, expect="C01.states",
         old="        if evidence:\n            for evidence_var in evidence:\n                for factor, origin in working_factors[evidence_var]:",
         new="        if evidence:\n            evidence = {var: self.factors[var][0].name_to_no[var].get(state, state) for var, state in evidence.items()}\n            for evidence_var in evidence:\n                for factor, origin in working_factors[evidence_var]:"),
    dict(kind="break", name="greedy-joint-unnormalised", file=EI, expect="C01.norm",
         old="                    return result.normalize(inplace=False)\n                else:\n                    return result\n            else:\n                result_dict = {}",
         new="                    return result\n                else:\n                    return result\n            else:\n                result_dict = {}"),
    dict(kind="break", name="classic-per-variable-unnormalised", file=EI, expect="C01.norm",
         old="                    query_var_factor[query_var] = phi.marginalize(\n                        list(set(variables) - set([query_var])), inplace=False\n                    ).normalize(inplace=False)",
         new="                    query_var_factor[query_var] = phi.marginalize(\n                        list(set(variables) - set([query_var])), inplace=False\n                    )"),
    dict(kind="break", name="result-labelled-sorted", file=EI, expect="C01.labels",
         old="                *einsum_expr, [var_int_map[var] for var in variables], optimize=\"greedy\"", new="                *einsum_expr, [var_int_map[var] for var in sorted(variables)], optimize=\"greedy\""),
    dict(kind="break", name="result-without-model-names", file=EI, expect="C01.labels",
         old="                state_names={var: model_reduced.states[var] for var in variables},\n", new=""),
    dict(kind="break", name="map-query-no-overlap-check", file=EI, expect="C01.disjoint",
         old="        if common_vars:\n            raise ValueError(\n                f\"Can't have the same variables in both `variables` and `evidence`. Found in both: {common_vars}\"\n            )\n\n        if isinstance(self.model, BayesianNetwork) and (virtual_evidence is not None):\n            orig_model = self.model\n            virt_evidence = self._virtual_evidence(virtual_evidence)\n            try:\n                return self.map_query(",
         new="        if isinstance(self.model, BayesianNetwork) and (virtual_evidence is not None):\n            orig_model = self.model\n            virt_evidence = self._virtual_evidence(virtual_evidence)\n            try:\n                return self.map_query("),
    dict(kind="break", name="heuristic-table-swapped", file=EI, expect="C01.order",
         old='                "minweight": MinWeight,\n                "minfill": MinFill,', new='                "minweight": MinFill,\n                "minfill": MinWeight,'),
    dict(kind="break", name="worklist-forgets-moral-graph", file=EO, expect="C01.order",
         old="            self.moralized_model.remove_node(min_score_node)\n", new=""),
    dict(kind="break", name="explicit-order-completeness-unchecked", file=EI, expect="C01.order",
         old="            if to_eliminate != set(elimination_order):\n                raise ValueError(\n                    f\"Elimination order doesn't contain all the variables\"\n                    f\"which need to be eliminated. The variables which need to\"\n                    f\"be eliminated are {to_eliminate}\"\n                )\n", new=""),
    dict(kind="break", name="working-set-untagged", file=EI, expect="C01.once",
         old="node: {(factor, id(factor)) for factor in self.factors[node]}", new="node: {(factor, None) for factor in self.factors[node]}"),
    dict(kind="break", name="final-set-of-bare-factors", file=EI, expect="C01.once",
         old="                    final_distribution.add((factor, origin))\n        final_distribution = [factor for factor, _ in final_distribution]", new="                    final_distribution.add(factor)\n        final_distribution = list(final_distribution)"),
    dict(kind="break", name="prune-excludes-latents", file=IB, expect="C01.prune",
         old="variables=variables, observed=list(evidence.keys()), include_latents=True", new="variables=variables, observed=list(evidence.keys())"),
    dict(kind="break", name="prune-marginalises-in-place", file=IB, expect="C01.prune",
         old="cpds.append(cpd.marginalize(scope_diff, inplace=False))", new="cpd.marginalize(scope_diff)\n                cpds.append(cpd)"),
]
