"""C02 — junction-tree belief propagation is exact and calibrated."""
from __future__ import annotations

import ast

from ..core import AnalysisError, call_name, dotted, kwarg, norm, walk_no_nested
from ..guards import sites
from ..registry import describe, rule
from .. import tmatch as tm
from ..util import resolved_fn, calls_named, returns_of
from . import c14, c16

EI = "pgmpy/inference/ExactInference.py"
MN = "pgmpy/models/MarkovNetwork.py"

describe(
    "C02",
    "every factor of the model reaches exactly one clique potential, by position and never through a value-keyed container, and the "
    "clique potentials carry the model's state names (so evidence by state name resolves whatever the multiplication order); the "
    "clique tree is a maximum-sepset spanning tree behind the cycle/sepset guards; the message update is the Shafer-Shenoy/HUGIN "
    "form: sigma = marginal (or max-marginal) of the sending belief over the clique minus the sepset, computed out of place, the "
    "receiving belief is multiplied by sigma / previous sepset belief, the sepset belief becomes sigma, with the same operation name "
    "throughout a calibration (sum for calibrate, max for max_calibrate), an upward pass from every neighbour and a downward pass "
    "along BFS edges from the root; the convergence test compares both adjacent marginals with the sepset belief; query potentials "
    "of the sub-tree are belief(child)/sepset(parent, child); a query re-calibrates unless the tree is calibrated for this operation; "
    "the clique tree is built only at construction from the full model (a pruned, possibly disconnected network has no junction "
    "tree because clique trees reject empty sepsets — premise checked); the engine restores its model on every exit.",
    ["numeric calibration (beliefs proportional to marginals)", "tolerance of the convergence test", "agreement of numbers with variable elimination"],
)


@rule("C02.multiplicity", "every factor reaches exactly one clique potential by position (shared with C14.once)", floor=6)
def multiplicity(rc):
    c14.once(rc)
    for f in rc.report.findings:
        f.prop, f.rule = "C02", "C02.multiplicity"


@rule("C02.statenames", "clique potentials carry the model's state names (shared with C14.statenames)", floor=1)
def statenames(rc):
    c14.statenames(rc)
    for f in rc.report.findings:
        f.prop, f.rule = "C02", "C02.statenames"


@rule("C02.tree", "maximum-sepset spanning tree behind the guards (shared with C14.tree)", floor=5)
def tree(rc):
    c14.tree(rc)
    for f in rc.report.findings:
        f.prop, f.rule = "C02", "C02.tree"


@rule("C02.messages", "message update, schedule, convergence test and query potentials have the calibrated-clique-tree form", floor=8)
def messages(rc):
    repo = rc.repo
    cls = repo.cls(EI, "BeliefPropagation")
    u = cls.methods["_update_beliefs"]
    p = u.params  # self, sending_clique, receiving_clique, operation
    snd, rcv, op = p[1], p[2], p[3]
    P = {"_snd": snd, "_rcv": rcv, "_op": op}
    _, bs = tm.find(u.node, "_SEP = frozenset(_snd).intersection(frozenset(_rcv))", P)
    if bs is None:
        _, bs = tm.find(u.node, "_SEP = frozenset(_rcv).intersection(frozenset(_snd))", P)
    rc.ob(f"_update_beliefs: sepset = intersection of the two cliques: {bs is not None}")
    if bs is None:
        rc.fail(u, u.node, "the sepset is the intersection of the two cliques", construct="sepset")
        bs = dict(P, _SEP="sepset")
    bk = None
    for t in ("_KEY = frozenset((_snd, _rcv))", "_KEY = frozenset((_rcv, _snd))", "_KEY = frozenset([_snd, _rcv])", "_KEY = frozenset([_rcv, _snd])"):
        bk = bk or tm.find(u.node, t, bs)[1]
    rc.ob(f"_update_beliefs: sepset key = unordered clique pair: {bk is not None}")
    if bk is None:
        rc.fail(u, u.node, "sepset beliefs are stored under the unordered pair of cliques", construct="sepset key")
        bk = dict(bs, _KEY="sepset_key")
    nsig, bg = tm.find(u.node, "_SIG = getattr(self.clique_beliefs[_snd], _op)(list(frozenset(_snd) - _SEP), inplace=False)", bk)
    rc.ob(f"_update_beliefs: sigma = sending belief with the non-sepset variables eliminated by `{op}`, out of place: {bg is not None}")
    if bg is None:
        anysig = [n for n in walk_no_nested(u.node) if isinstance(n, ast.Assign) and isinstance(n.value, ast.Call) and isinstance(n.value.func, ast.Call) and call_name(n.value.func) == "getattr"]
        rc.fail(u, anysig[0] if anysig else u.node, "sigma must be the SENDING clique's belief with the variables outside the sepset eliminated by the requested operation, out of place",
                construct="sigma")
        bg = dict(bk, _SIG=dotted(anysig[0].targets[0]) if anysig else "sigma")
    upd = [n for n in walk_no_nested(u.node) if isinstance(n, ast.AugAssign) and tm.is_(n.target, "self.clique_beliefs[_rcv]", P) is not None]
    oku = upd and isinstance(upd[0].op, ast.Mult) and tm.is_(upd[0].value, "_SIG / self.sepset_beliefs[_KEY] if self.sepset_beliefs[_KEY] else _SIG", bg) is not None
    rc.ob(f"_update_beliefs: receiving update {norm(upd[0], 140) if upd else None}")
    if not oku:
        rc.fail(u, upd[0] if upd else u.node, "the RECEIVING clique's belief must be multiplied by sigma divided by the previous sepset belief (or by sigma when there is none yet)",
                construct="receiving update")
    st = tm.find_all(u.node, "self.sepset_beliefs[_KEY] = _SIG", bg)
    if not st or (upd and st[0][0].lineno < upd[0].lineno):
        rc.fail(u, u.node, "after the update the sepset belief becomes sigma", construct="sepset update")
    # schedule
    c = cls.methods["_calibrate_junction_tree"]
    init = tm.has(c.node, "self.clique_beliefs = {_c: self.junction_tree.get_factors(_c) for _c in self.junction_tree.nodes()}")
    crn = resolved_fn(c)
    calls = sites(crn, lambda n: isinstance(n, ast.Call) and call_name(n) == "_update_beliefs")
    up = down = False
    roots = [n for n in walk_no_nested(crn) if isinstance(n, ast.For) and tm.is_(n.iter, "self.junction_tree.nodes()") is not None and isinstance(n.target, ast.Name)]
    root = roots[0].target.id if roots else None
    for s in calls:
        opk = dotted(kwarg(s.node, "operation"))
        lv = s.loops[-1] if s.loops else None
        rc.ob(f"schedule: {norm(s.node, 100)} in {(norm(lv[0]), norm(lv[1])) if lv else None}")
        if opk != "operation":
            rc.fail(c, s.node, "every message of one calibration must use the same operation", construct="schedule operation")
        # sweeps from further root cliques continue until the tree IS calibrated: the messages of a sweep are sent under `not _is_converged(operation)`; any
        # cheaper stopping criterion ("no message changed in this sweep") stops one sweep too early for some clique orders
        gated = [(t, pol) for t, pol in s.conds if tm.is_(t, "self._is_converged(operation=operation)") is not None]
        if not any(not pol for t, pol in gated):
            others = [norm(t, 40) for t, pol in s.conds]
            rc.fail(c, s.node, f"the calibration sweeps are not gated by the calibration test `_is_converged(operation)` (conditions: {others or 'none'}): the schedule may stop "
                    "before adjacent cliques agree on their sepsets", construct="schedule gated by calibration test")
        if lv is None or not isinstance(lv[0], ast.Name) or root is None:
            continue
        lvn = lv[0].id
        b1 = tm.is_(s.node, "self._update_beliefs(_n, _root, operation=operation)", {"_n": lvn, "_root": root})
        if b1 is not None and tm.is_(lv[1], "self.junction_tree.neighbors(_root)", {"_root": root}) is not None:
            up = True
        b2 = tm.is_(s.node, "self._update_beliefs(_e[0], _e[1], operation=operation)", {"_e": lvn})
        if b2 is not None and tm.is_(lv[1], "__F.bfs_edges(self.junction_tree, _root)", {"_root": root}) is not None:
            down = True
    if not init:
        rc.fail(c, c.node, "clique beliefs start as the clique potentials of the junction tree", construct="initial beliefs")
    if not up:
        rc.fail(c, c.node, "upward pass: every neighbour sends to the root clique", construct="upward pass")
    if not down:
        rc.fail(c, c.node, "downward pass: messages along BFS edges from the root, parent to child", construct="downward pass")
    if not tm.has(c.node, "self.sepset_beliefs = {frozenset(_e): None for _e in self.junction_tree.edges()}"):
        rc.fail(c, c.node, "sepset beliefs start empty for every tree edge", construct="initial sepsets")
    for name, want in (("calibrate", "marginalize"), ("max_calibrate", "maximize")):
        m = cls.methods[name]
        cs = calls_named(m, "_calibrate_junction_tree")
        got = norm(kwarg(cs[0], "operation")) if cs else None
        rc.ob(f"{name} -> operation {got}")
        if got != repr(want):
            rc.fail(m, m.node, f"{name} must calibrate with `{want}`", construct=f"{name} operation")
    # convergence
    k = cls.methods["_is_converged"]
    okk = False
    krn = resolved_fn(k)
    SEP = "frozenset(_e[0]).intersection(frozenset(_e[1]))"
    MA = f"getattr(self.clique_beliefs[_e[0]], operation)(list(frozenset(_e[0]) - {SEP}), inplace=False)"
    MB = f"getattr(self.clique_beliefs[_e[1]], operation)(list(frozenset(_e[1]) - {SEP}), inplace=False)"
    for s_ in sites(krn, lambda n: isinstance(n, ast.Return) and isinstance(n.value, ast.Constant) and n.value.value is False):
        if not any(tm.is_(it, "self.junction_tree.edges()") is not None for _, it in s_.loops):
            continue
        ev = [dotted(t_) for t_, it in s_.loops if tm.is_(it, "self.junction_tree.edges()") is not None][-1]
        cs = [(t, pol) for t, pol in s_.conds]
        # either one disjunction, or the walker's split of it into alternatives
        if any(pol and tm.is_(t, f"{MA} != {MB} or {MA} != self.sepset_beliefs[frozenset(_e)]", {"_e": ev}) is not None for t, pol in cs):
            okk = True
    rc.ob(f"_is_converged compares both adjacent marginals and the sepset belief: {okk}")
    if not okk:
        rc.fail(k, k.node, "calibration = for every edge both cliques' marginals over the sepset agree with each other and with the sepset belief", construct="convergence test")
    # query potentials
    q = cls.methods["_query"]
    _, b0 = tm.find(q.node, "_L = [self.clique_beliefs[_root]]")
    okq = False
    if b0 is not None:
        for n, bq in tm.find_all(q.node, "_L.append(self.clique_beliefs[_ch] / self.sepset_beliefs[frozenset([_pa, _ch])])", b0):
            okq = okq or tm.has(q.node, "_ST.add_factors(*_L)", {"_L": b0["_L"]})
    rc.ob(f"_query: sub-tree potentials = root belief, then belief(child)/sepset(parent, child): {okq}")
    if not okq:
        rc.fail(q, q.node, "query sub-tree potentials must be the root's belief and, for every other clique, its belief divided by the sepset belief towards its parent",
                construct="query potentials")
    cal = sites(q.node, lambda n: isinstance(n, ast.Call) and tm.is_(n, "self.calibrate()") is not None)
    cal = sites(resolved_fn(q), lambda n: isinstance(n, ast.Call) and tm.is_(n, "self.calibrate()") is not None)
    if not cal or not any(tm.is_(t, "self._is_converged(operation=operation)") is not None and not pol for s_ in cal for t, pol in s_.conds):
        rc.fail(q, q.node, "a query must calibrate the tree first", construct="calibrate before query")


@rule("C02.pruned", "queries run on the clique tree built at construction: a pruned (possibly disconnected) network never reaches to_junction_tree", floor=3)
def pruned(rc):
    """Premise (checked): clique trees reject cliques without a common variable (ClusterGraph.add_edge raises), so a DISCONNECTED network has
    no junction tree.  Pruning for a query keeps the ancestral graph of the d-connected part, which falls apart whenever query and evidence
    variables are a-priori independent.  Hence BeliefPropagation may build its clique tree only from the full model (in __init__); building it
    from `self.model` after _prune_bayesian_model makes such queries raise."""
    repo = rc.repo
    ca = repo.func("pgmpy/models/ClusterGraph.py", "ClusterGraph.add_edge")
    guard = any(isinstance(n, ast.Raise) for n in walk_no_nested(ca.node)) and "isdisjoint" in norm(ca.node, 5000)
    rc.ob(f"premise: ClusterGraph.add_edge rejects cliques with an empty sepset: {guard}")
    cls = repo.cls(EI, "BeliefPropagation")
    for name, m in cls.methods.items():
        if name == "__init__":
            continue
        prunes = [n.lineno for n in walk_no_nested(m.node) if isinstance(n, ast.Call) and call_name(n) == "_prune_bayesian_model"]
        for n in walk_no_nested(m.node):
            if isinstance(n, ast.Assign) and any(norm(t) == "self.junction_tree" for t in (x for tg in n.targets for x in (tg.elts if isinstance(tg, ast.Tuple) else [tg]))):
                src = norm(n.value, 80)
                from_pruned = bool(prunes) and n.lineno > min(prunes) and "self.model" in src
                if guard and (from_pruned or "to_junction_tree" in src):
                    rc.fail(m, n, f"BeliefPropagation.{name} re-builds the clique tree (`{norm(n, 80)}`)" + (" from the PRUNED network" if from_pruned else "") +
                            ": the pruned ancestral graph can be disconnected (independent query/evidence variables), and a disconnected network has no junction tree — such queries raise",
                            construct=f"{name} rebuilds junction tree")
        # re-running the constructor on anything but the saved original model rebuilds the clique tree as well
        saved = {b_["_OM"] for _, b_ in tm.find_all(m.node, "_OM = self.model.copy()")}
        pruned_names = set()
        for n in walk_no_nested(m.node):
            if isinstance(n, ast.Assign) and isinstance(n.value, ast.Call) and call_name(n.value) == "_prune_bayesian_model":
                tg = n.targets[0]
                for x in (tg.elts if isinstance(tg, ast.Tuple) else [tg]):
                    pruned_names.add(norm(x))
        for n in walk_no_nested(m.node):
            if isinstance(n, ast.Call) and norm(n.func) == "self.__init__" and n.args:
                a0 = norm(n.args[0])
                if a0 in saved:
                    continue
                from_pruned = a0 in pruned_names or (a0 == "self.model" and bool(prunes) and n.lineno > min(prunes)) or \
                    (isinstance(n.args[0], ast.Call) and call_name(n.args[0]) == "_prune_bayesian_model")
                if guard and from_pruned:
                    rc.fail(m, n, f"BeliefPropagation.{name} re-initialises the engine on the PRUNED network (`{norm(n, 70)}`): the constructor rebuilds the clique tree from it, and the pruned "
                            "ancestral graph can be disconnected (independent query/evidence variables) — a disconnected network has no junction tree, such queries raise",
                            construct=f"{name} rebuilds junction tree")
        rc.ob(f"BeliefPropagation.{name}: prune sites {len(prunes)}; clique tree left as built at construction")
    init = cls.methods["__init__"]
    if not any(isinstance(n, ast.Assign) and any(norm(t) == "self.junction_tree" for t in n.targets) for n in walk_no_nested(init.node)):
        raise AnalysisError("BeliefPropagation.__init__: clique tree construction not found")


@rule("C02.restore", "BeliefPropagation restores its model on every exit of a query (shared with C16.engine)", floor=2)
def restore(rc):
    c16.engine(rc)
    rc.report.findings = [f for f in rc.report.findings if "BeliefPropagation" in f.func]
    rc.report.instances = [i for i in rc.report.instances if "BeliefPropagation" in i or "helpers" in i]
    for f in rc.report.findings:
        f.prop, f.rule = "C02", "C02.restore"



@rule("C02.defuse", "anchored files: no parameter is accepted and ignored (generic def-use detector, triaged exemptions)", floor=2)
def defuse(rc):
    from . import shared as _sh
    _sh.defuse_rule(rc, _sh.anchor_files("C02"))

MUTANTS = [
    dict(kind="break", name="bp-engine-reinitialised-on-pruned-network", file=EI, expect="C02.pruned",
         old="                self.model, evidence = self._prune_bayesian_model(variables, evidence)\n            self._initialize_structures()\n\n            # Step 4: Run inference.",
         new="                pruned_model, evidence = self._prune_bayesian_model(variables, evidence)\n                self.__init__(pruned_model)\n            self._initialize_structures()\n\n            # Step 4: Run inference."),
    dict(kind="break", name="bp-tree-from-pruned-network", file=EI, expect="C02.pruned",
         old="                self.model, evidence = self._prune_bayesian_model(variables, evidence)\n            self._initialize_structures()\n\n            # Step 4: Run inference.",
         new="                self.model, evidence = self._prune_bayesian_model(variables, evidence)\n                self.junction_tree = self.model.to_junction_tree()\n                self.clique_beliefs, self.sepset_beliefs = {}, {}\n            self._initialize_structures()\n\n            # Step 4: Run inference."),
    dict(kind="break", name="jt-bookkeeping-by-value", file=MN, expect="C02.multiplicity",
         old="        is_used = [False] * len(self.factors)\n", new="        is_used = {factor: False for factor in self.factors}\n"),
    dict(kind="break", name="jt-potential-without-names", file=MN, expect="C02.statenames",
         old="                np.ones(np.prod(var_card)),\n                state_names={\n                    var: states.get(var, list(range(card)))\n                    for var, card in zip(node, var_card)\n                },\n", new="                np.ones(np.prod(var_card)),\n"),
    dict(kind="break", name="sigma-from-receiver", file=EI, expect="C02.messages",
         old="        sigma = getattr(self.clique_beliefs[sending_clique], operation)(", new="        sigma = getattr(self.clique_beliefs[receiving_clique], operation)("),
    dict(kind="break", name="no-division-by-old-sepset", file=EI, expect="C02.messages",
         old="            sigma / self.sepset_beliefs[sepset_key]\n            if self.sepset_beliefs[sepset_key]\n            else sigma", new="            sigma"),
    dict(kind="break", name="downward-pass-reversed", file=EI, expect="C02.messages",
         old="self._update_beliefs(edge[0], edge[1], operation=operation)", new="self._update_beliefs(edge[1], edge[0], operation=operation)"),
    dict(kind="break", name="max-calibrate-sums", file=EI, expect="C02.messages",
         old='self._calibrate_junction_tree(operation="maximize")', new='self._calibrate_junction_tree(operation="marginalize")'),
    dict(kind="break", name="query-forgets-sepset-division", file=EI, expect="C02.messages",
         old="                    self.clique_beliefs[child_node]\n                    / self.sepset_beliefs[frozenset([parent_node, child_node])]", new="                    self.clique_beliefs[child_node]"),
    dict(kind="break", name="bp-restore-only-on-success", file=EI, expect="C02.restore",
         old="        finally:\n            # Rebind the engine to the original model even if the query fails.\n            self.__init__(orig_model)\n\n        if joint:",
         new="        except KeyError:\n            raise\n        self.__init__(orig_model)\n\n        if joint:"),
]
