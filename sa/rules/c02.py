"""C02 — junction-tree belief propagation is exact and calibrated."""
from __future__ import annotations

import ast

from ..core import AnalysisError, call_name, dotted, kwarg, norm, walk_no_nested
from ..guards import sites
from ..registry import describe, rule
from ..util import calls_named, returns_of
from . import c14, c16

EI = "pgmpy/inference/ExactInference.py"
MN = "pgmpy/models/MarkovNetwork.py"

describe(
    "C02",
    "every factor of the model reaches exactly one clique potential, by position and never through a value-keyed container, and the "
    "clique potentials carry the model's state names (so evidence by state name resolves whatever the multiplication order); the "
    "clique tree is a maximum-sepset spanning tree behind the cycle/sepset guards; the message update is the Shafer-Shenoy/HUGIN "
    "form: sigma = marginal (or max-marginal) of the sending belief over the clique minus the sepset, computed out of place, the "
    "receiving belief is multiplied by sigma / previous sepset belief, the sepset belief becomes sigma, with the same operation name "
    "throughout a calibration (sum for calibrate, max for max_calibrate), an upward pass from every neighbour and a downward pass "
    "along BFS edges from the root; the convergence test compares both adjacent marginals with the sepset belief; query potentials "
    "of the sub-tree are belief(child)/sepset(parent, child); the engine restores its model on every exit.",
    ["numeric calibration (beliefs proportional to marginals)", "tolerance of the convergence test", "agreement of numbers with variable elimination"],
)


@rule("C02.multiplicity", "every factor reaches exactly one clique potential by position (shared with C14.once)", floor=6)
def multiplicity(rc):
    c14.once(rc)
    for f in rc.report.findings:
        f.prop, f.rule = "C02", "C02.multiplicity"


@rule("C02.statenames", "clique potentials carry the model's state names (shared with C14.statenames)", floor=1)
def statenames(rc):
    c14.statenames(rc)
    for f in rc.report.findings:
        f.prop, f.rule = "C02", "C02.statenames"


@rule("C02.tree", "maximum-sepset spanning tree behind the guards (shared with C14.tree)", floor=5)
def tree(rc):
    c14.tree(rc)
    for f in rc.report.findings:
        f.prop, f.rule = "C02", "C02.tree"


@rule("C02.messages", "message update, schedule, convergence test and query potentials have the calibrated-clique-tree form", floor=8)
def messages(rc):
    repo = rc.repo
    cls = repo.cls(EI, "BeliefPropagation")
    u = cls.methods["_update_beliefs"]
    p = u.params  # self, sending_clique, receiving_clique, operation
    d = {n.targets[0].id: n.value for n in walk_no_nested(u.node) if isinstance(n, ast.Assign) and isinstance(n.targets[0], ast.Name)}
    snd, rcv, op = p[1], p[2], p[3]
    sep = norm(d.get("sepset", ast.Constant(value=None)))
    key = norm(d.get("sepset_key", ast.Constant(value=None)))
    sig = d.get("sigma")
    rc.ob(f"_update_beliefs: sepset = {sep}; key = {key}; sigma = {norm(sig, 140) if sig is not None else None}")
    if sep != f"frozenset({snd}).intersection(frozenset({rcv}))" and sep != f"frozenset({rcv}).intersection(frozenset({snd}))":
        rc.fail(u, u.node, "the sepset is the intersection of the two cliques", construct="sepset")
    if key not in (f"frozenset(({snd}, {rcv}))", f"frozenset(({rcv}, {snd}))", f"frozenset([{snd}, {rcv}])"):
        rc.fail(u, u.node, "sepset beliefs are stored under the unordered pair of cliques", construct="sepset key")
    oks = isinstance(sig, ast.Call) and isinstance(sig.func, ast.Call) and call_name(sig.func) == "getattr" and norm(sig.func.args[0]) == f"self.clique_beliefs[{snd}]" \
        and dotted(sig.func.args[1]) == op and norm(sig.args[0]) == f"list(frozenset({snd}) - sepset)" and isinstance(kwarg(sig, "inplace"), ast.Constant) and kwarg(sig, "inplace").value is False
    if not oks:
        rc.fail(u, sig if sig is not None else u.node, "sigma must be the SENDING clique's belief with the variables outside the sepset eliminated by the requested operation, out of place",
                construct="sigma")
    upd = [n for n in walk_no_nested(u.node) if isinstance(n, ast.AugAssign) and norm(n.target) == f"self.clique_beliefs[{rcv}]"]
    oku = upd and isinstance(upd[0].op, ast.Mult) and norm(upd[0].value).replace("\n", " ") == "sigma / self.sepset_beliefs[sepset_key] if self.sepset_beliefs[sepset_key] else sigma"
    rc.ob(f"_update_beliefs: receiving update {norm(upd[0], 140) if upd else None}")
    if not oku:
        rc.fail(u, upd[0] if upd else u.node, "the RECEIVING clique's belief must be multiplied by sigma divided by the previous sepset belief (or by sigma when there is none yet)",
                construct="receiving update")
    st = [n for n in walk_no_nested(u.node) if isinstance(n, ast.Assign) and norm(n.targets[0]) == "self.sepset_beliefs[sepset_key]"]
    if not st or dotted(st[0].value) != "sigma" or (upd and st[0].lineno < upd[0].lineno):
        rc.fail(u, u.node, "after the update the sepset belief becomes sigma", construct="sepset update")
    # schedule
    c = cls.methods["_calibrate_junction_tree"]
    t = norm(c.node, 100000)
    init = "clique: self.junction_tree.get_factors(clique) for clique in self.junction_tree.nodes()" in t
    calls = sites(c.node, lambda n: isinstance(n, ast.Call) and call_name(n) == "_update_beliefs")
    up = down = False
    for s in calls:
        a = [norm(x) for x in s.node.args]
        opk = dotted(kwarg(s.node, "operation"))
        lv = [(norm(tg), norm(it)) for tg, it in s.loops]
        rc.ob(f"schedule: _update_beliefs({', '.join(a)}, operation={opk}) in {lv[-1] if lv else None}")
        if opk != "operation":
            rc.fail(c, s.node, "every message of one calibration must use the same operation", construct="schedule operation")
        if a == ["neighbor_clique", "clique"] and lv and lv[-1] == ("neighbor_clique", "neighbors"):
            up = True
        if a == ["edge[0]", "edge[1]"] and lv and lv[-1] == ("edge", "bfs_edges"):
            down = True
    if not init:
        rc.fail(c, c.node, "clique beliefs start as the clique potentials of the junction tree", construct="initial beliefs")
    if not up:
        rc.fail(c, c.node, "upward pass: every neighbour sends to the root clique", construct="upward pass")
    if not down or "bfs_edges(self.junction_tree, clique)" not in t.replace("\n", " ").replace("  ", " "):
        rc.fail(c, c.node, "downward pass: messages along BFS edges from the root, parent to child", construct="downward pass")
    if "frozenset(edge): None for edge in self.junction_tree.edges()" not in t:
        rc.fail(c, c.node, "sepset beliefs start empty for every tree edge", construct="initial sepsets")
    for name, want in (("calibrate", "marginalize"), ("max_calibrate", "maximize")):
        m = cls.methods[name]
        cs = calls_named(m, "_calibrate_junction_tree")
        got = norm(kwarg(cs[0], "operation")) if cs else None
        rc.ob(f"{name} -> operation {got}")
        if got != repr(want):
            rc.fail(m, m.node, f"{name} must calibrate with `{want}`", construct=f"{name} operation")
    # convergence
    k = cls.methods["_is_converged"]
    tk = norm(k.node, 100000)
    okk = "marginal_1 != marginal_2 or marginal_1 != self.sepset_beliefs[sepset_key]" in tk and "list(frozenset(edge[0]) - sepset)" in tk and "list(frozenset(edge[1]) - sepset)" in tk \
        and tk.count("inplace=False") >= 2
    rc.ob(f"_is_converged compares both adjacent marginals and the sepset belief: {okk}")
    if not okk:
        rc.fail(k, k.node, "calibration = for every edge both cliques' marginals over the sepset agree with each other and with the sepset belief", construct="convergence test")
    # query potentials
    q = cls.methods["_query"]
    tq = norm(q.node, 100000)
    okq = "self.clique_beliefs[child_node] / self.sepset_beliefs[frozenset([parent_node, child_node])]" in tq.replace("\n", " ") and "clique_potential_list = [self.clique_beliefs[root_node]]" in tq
    rc.ob(f"_query: sub-tree potentials = root belief, then belief(child)/sepset(parent, child): {okq}")
    if not okq:
        rc.fail(q, q.node, "query sub-tree potentials must be the root's belief and, for every other clique, its belief divided by the sepset belief towards its parent",
                construct="query potentials")
    if "if not is_calibrated" not in tq or "self.calibrate()" not in tq:
        rc.fail(q, q.node, "a query must calibrate the tree first", construct="calibrate before query")


@rule("C02.restore", "BeliefPropagation restores its model on every exit of a query (shared with C16.engine)", floor=2)
def restore(rc):
    c16.engine(rc)
    rc.report.findings = [f for f in rc.report.findings if "BeliefPropagation" in f.func]
    rc.report.instances = [i for i in rc.report.instances if "BeliefPropagation" in i or "helpers" in i]
    for f in rc.report.findings:
        f.prop, f.rule = "C02", "C02.restore"



@rule("C02.defuse", "anchored files: no parameter is accepted and ignored (generic def-use detector, triaged exemptions)", floor=2)
def defuse(rc):
    from . import shared as _sh
    _sh.defuse_rule(rc, _sh.anchor_files("C02"))

MUTANTS = [
    dict(kind="break", name="jt-bookkeeping-by-value", file=MN, expect="C02.multiplicity",
         old="        is_used = [False] * len(self.factors)\n", new="        is_used = {factor: False for factor in self.factors}\n"),
    dict(kind="break", name="jt-potential-without-names", file=MN, expect="C02.statenames",
         old="                np.ones(np.prod(var_card)),\n                state_names={\n                    var: states.get(var, list(range(card)))\n                    for var, card in zip(node, var_card)\n                },\n", new="                np.ones(np.prod(var_card)),\n"),
    dict(kind="break", name="sigma-from-receiver", file=EI, expect="C02.messages",
         old="        sigma = getattr(self.clique_beliefs[sending_clique], operation)(", new="        sigma = getattr(self.clique_beliefs[receiving_clique], operation)("),
    dict(kind="break", name="no-division-by-old-sepset", file=EI, expect="C02.messages",
         old="            sigma / self.sepset_beliefs[sepset_key]\n            if self.sepset_beliefs[sepset_key]\n            else sigma", new="            sigma"),
    dict(kind="break", name="downward-pass-reversed", file=EI, expect="C02.messages",
         old="self._update_beliefs(edge[0], edge[1], operation=operation)", new="self._update_beliefs(edge[1], edge[0], operation=operation)"),
    dict(kind="break", name="max-calibrate-sums", file=EI, expect="C02.messages",
         old='self._calibrate_junction_tree(operation="maximize")', new='self._calibrate_junction_tree(operation="marginalize")'),
    dict(kind="break", name="query-forgets-sepset-division", file=EI, expect="C02.messages",
         old="                    self.clique_beliefs[child_node]\n                    / self.sepset_beliefs[frozenset([parent_node, child_node])]", new="                    self.clique_beliefs[child_node]"),
    dict(kind="break", name="bp-restore-only-on-success", file=EI, expect="C02.restore",
         old="        finally:\n            # Rebind the engine to the original model even if the query fails.\n            self.__init__(orig_model)\n\n        if joint:",
         new="        except KeyError:\n            raise\n        self.__init__(orig_model)\n\n        if joint:"),
]
