"""C06 — parameter learning returns the closed-form estimates."""
from __future__ import annotations

import ast
import re

from ..core import AnalysisError, call_name, dotted, kwarg, norm, walk_no_nested, has_starstar
from ..guards import sites
from ..registry import describe, rule
from ..util import calls_named, deep_resolve, peel, returns_of, single_defs
from .. import tmatch as tm

EB = "pgmpy/estimators/base.py"
MLE = "pgmpy/estimators/MLE.py"
BE = "pgmpy/estimators/BayesianEstimator.py"
EM = "pgmpy/estimators/EM.py"
BN = "pgmpy/models/BayesianNetwork.py"

describe(
    "C06",
    "one parent-order convention at every producer and consumer of a count / pseudo-count table (the count table's column index, the "
    "CPD's evidence list, its evidence_card list and any table added to the counts derive from the same deterministic expression, and "
    "a table taken from an existing CPD is re-ordered to it first); CPDs are labelled with, and count tables re-indexed by, the DECLARED "
    "state names; unseen parent configurations are filled uniformly before normalising (MLE); the K2/BDeu pseudo counts have the "
    "documented form and are ADDED to the counts; `weighted` travels from get_parameters to the counting code and selects the "
    "_weight sums; EM's M-step is a weighted MLE on the expanded data whose weights are normalised per observed row.",
    ["the count arithmetic done by pandas", "numeric values of the estimates", "EM monotonicity (a statement about iterates)"],
)


def _defs(f):
    d = {}
    for n in walk_no_nested(f.node):
        if isinstance(n, ast.Assign) and len(n.targets) == 1 and isinstance(n.targets[0], ast.Name):
            d.setdefault(n.targets[0].id, []).append(n.value)
    return d


def _parents_name(repo, f):
    """the local that plays the role of the parent list: the CPD constructor's `evidence=` or the `parents=` handed to the counting code"""
    for c in repo.calls_in(f):
        if call_name(c) == "TabularCPD" and isinstance(kwarg(c, "evidence"), ast.Name):
            return kwarg(c, "evidence").id
    for c in repo.calls_in(f):
        if call_name(c) == "state_counts" and isinstance(kwarg(c, "parents"), ast.Name):
            return kwarg(c, "parents").id
    return None


def _parents_expr(repo, f):
    """the defining expression of the parent list (through a local name or written in place)"""
    d = _defs(f)
    for c in repo.calls_in(f):
        e = None
        if call_name(c) == "TabularCPD":
            e = kwarg(c, "evidence")
        elif call_name(c) == "state_counts":
            e = kwarg(c, "parents")
        if e is None:
            continue
        if isinstance(e, ast.Name):
            if e.id in d and len(d[e.id]) == 1:
                return d[e.id][0]
            continue
        return e
    return None


def _canon_parents(expr, nodevar):
    return re.sub(r"\b%s\b" % re.escape(nodevar), "NODE", norm(expr, 400))


def counts_primitive(rc, repo):
    """BaseEstimator.state_counts: the conditional count table is `groupby([variable] + parents, observed=True)` — for categorical columns only the
    OBSERVED combinations become columns (the scores' "observed parent configurations" is the number of columns of this table; the estimators re-index
    to the declared product afterwards).  Another counting primitive (value_counts, crosstab, groupby without observed=True) changes which columns exist."""
    f = repo.func(EB, "BaseEstimator.state_counts")
    gbs = [c for c in repo.calls_in(f) if call_name(c) == "groupby"]
    with_par = [c for c in gbs if c.args and "parents" in norm(c.args[0])]
    rc.ob(f"state_counts: conditional counts from {[norm(c, 70) for c in with_par]}")
    if len(with_par) < 2:
        rc.fail(f, f.node, "the conditional count table (weighted and unweighted) must be built by groupby([variable] + parents, observed=True): with another primitive the set of "
                "columns (observed parent configurations) differs for categorical data", construct="conditional counts primitive")
    for c in gbs:
        ob = kwarg(c, "observed")
        if not (isinstance(ob, ast.Constant) and ob.value is True):
            rc.fail(f, c, f"`{norm(c, 70)}` must pass observed=True: for categorical columns unobserved combinations would become all-zero columns and count as observed parent configurations",
                    construct="groupby observed")


@rule("C06.parentorder", "one parent-order convention at every producer/consumer of count tables", floor=6)
def parentorder(rc):
    repo = rc.repo
    # producers of the convention
    srcs = {}
    for rel, q in ((EB, "ParameterEstimator.state_counts"), (MLE, "MaximumLikelihoodEstimator.estimate_cpd"), (BE, "BayesianEstimator.estimate_cpd")):
        f = repo.func(rel, q)
        d = _defs(f)
        pe = _parents_expr(repo, f)
        if pe is None:
            raise AnalysisError(f"{q}: cannot find the single definition of the parent list")
        nodevar = f.params[1]
        srcs[q] = (_canon_parents(pe, nodevar), pe, f)
        rc.ob(f"{q}: parents = {norm(pe)}")
    canon = {v[0] for v in srcs.values()}
    if len(canon) != 1:
        for q, (c, e, f) in srcs.items():
            rc.fail(f, e, f"parent order differs between the count table and the CPD built from it: {q} uses `{c}`; all sites: { {k: v[0] for k, v in srcs.items()} }",
                    construct=f"{q} parents = {c}")
    for q, (c, e, f) in srcs.items():
        e0 = e
        det = isinstance(e0, ast.Call) and call_name(e0) == "sorted"
        if not det:
            rc.fail(f, e, f"{q}: the parent order `{c}` is not deterministic/canonical (graph iteration order differs between equivalent models)", construct=f"{q} unsorted parents")
    # consumers inside estimate_cpd: evidence=parents, evidence_card over the same list, counts from self.state_counts(node)
    for rel, q in ((MLE, "MaximumLikelihoodEstimator.estimate_cpd"), (BE, "BayesianEstimator.estimate_cpd")):
        f = repo.func(rel, q)
        d = _defs(f)
        ctor = [c for c in repo.calls_in(f) if call_name(c) == "TabularCPD"]
        if len(ctor) != 1:
            raise AnalysisError(f"{q}: expected one TabularCPD construction")
        c = ctor[0]
        ev, evc = kwarg(c, "evidence"), kwarg(c, "evidence_card")
        rc.ob(f"{q}: TabularCPD(evidence={norm(ev)}, evidence_card={norm(evc)})")
        pn = _parents_name(repo, f)
        if not isinstance(ev, ast.Name) or ev.id != pn:
            rc.fail(f, c, f"{q}: the CPD's evidence list must be the very list that ordered the count table's columns", construct=f"{q} evidence")
        cards = d.get(dotted(evc), [None])[0] if dotted(evc) else evc
        ok = isinstance(cards, ast.ListComp) and dotted(cards.generators[0].iter) == pn and "self.state_names" in norm(cards.elt)
        if not ok:
            rc.fail(f, c, f"{q}: evidence_card must list the declared cardinalities of the same `parents` list, in the same order", construct=f"{q} evidence_card")
        cnt = [x for x in calls_named(f, "state_counts") if dotted(x.func.value) == "self"]
        if not cnt or dotted(cnt[0].args[0]) != f.params[1]:
            rc.fail(f, f.node, f"{q}: counts must be taken for the estimated node", construct=f"{q} counts")
    # BaseEstimator.state_counts: group-by / unstack / reindex all on the same list
    f = repo.func(EB, "BaseEstimator.state_counts")
    txt = norm(f.node, 100000)
    gb = [c for c in repo.calls_in(f) if call_name(c) == "groupby"]
    us = [c for c in repo.calls_in(f) if call_name(c) == "unstack"]
    mi = [c for c in repo.calls_in(f) if call_name(c) == "from_product"]
    rc.ob(f"BaseEstimator.state_counts: groupby {[norm(c.args[0]) for c in gb]}, unstack {[norm(c.args[0]) for c in us]}, column index {[norm(c, 80) for c in mi]}")
    counts_primitive(rc, repo)
    for c in gb:
        if norm(c.args[0]) not in ("[variable] + parents", "[variable]"):
            rc.fail(f, c, "counts must be grouped by the variable followed by its parents in the given order", construct="groupby order")
    for c in us:
        if dotted(c.args[0]) != "parents":
            rc.fail(f, c, "the count table must be unstacked over exactly the `parents` list", construct="unstack order")
    for c in mi:
        names = kwarg(c, "names")
        d = _defs(f)
        ps = d.get(dotted(c.args[0]), [None])[0]
        ok = dotted(names) == "parents" and isinstance(ps, ast.ListComp) and dotted(ps.generators[0].iter) == "parents" and "self.state_names" in norm(ps.elt)
        if not ok:
            rc.fail(f, c, "the column index must be the product of the parents' DECLARED states in the order of `parents`", construct="column index")
    if not mi:
        rc.fail(f, f.node, "missing parent configurations must be added by re-indexing with the full product of declared states", construct="no column reindex")
    # fit_update: the previous CPD's table must be brought into the estimator's order
    fu = repo.func(BN, "BayesianNetwork.fit_update")
    stores = [s for s in sites(fu.node, lambda n: isinstance(n, ast.Call) and call_name(n) in ("get_values", "reorder_parents"))]
    ok_any = False
    for s in stores:
        c = s.node
        if call_name(c) == "reorder_parents":
            arg = c.args[0] if c.args else kwarg(c, "new_order")
            a = arg
            d = _defs(fu)
            if isinstance(a, ast.Name) and a.id in d:
                a = d[a.id][0]
            ip = kwarg(c, "inplace")
            rc.ob(f"fit_update: prior table {norm(c)} with order {norm(a)}")
            if not (isinstance(a, ast.Call) and call_name(a) == "sorted") or not (isinstance(ip, ast.Constant) and ip.value is False):
                rc.fail(fu, c, "fit_update must re-order the previous CPD's table to the estimator's (sorted) parent order, out of place", construct="fit_update reorder")
            else:
                ok_any = True
        else:
            dfu = _defs(fu)
            guarded = any(("sorted(" in norm(t) or any("sorted(" in norm(v) for x in ast.walk(t) if isinstance(x, ast.Name) for v in dfu.get(x.id, [])))
                          for t, pol in s.conds)
            rc.ob(f"fit_update: prior table {norm(c)} used as is (guarded by an order comparison: {guarded})")
            # the comparison must be between the sorted order and the TABLE's own column order, i.e. cpd.variables[1:]
            # (TabularCPD.get_evidence() lists the parents reversed)
            sdf = single_defs(fu)
            recv = dotted(c.func.value)
            for t, pol in s.conds:
                tr = deep_resolve(t, sdf)
                if not (isinstance(tr, ast.Compare) and len(tr.ops) == 1 and isinstance(tr.ops[0], (ast.Eq, ast.NotEq))):
                    continue
                sides = [tr.left, tr.comparators[0]]
                srt = [x for x in sides if isinstance(x, ast.Call) and call_name(x) == "sorted"]
                oth = [x for x in sides if x not in srt]
                if len(srt) != 1 or len(oth) != 1:
                    continue
                own = peel(oth[0], ("list", "tuple"))
                recv_e = deep_resolve(c.func.value, sdf)
                ok_own = tm.is_(own, "__R.variables[1:]", {"__R": recv_e}) is not None
                rev = tm.is_(own, "__R.get_evidence()", {"__R": recv_e}) is not None
                if rev:
                    ge = repo.func("pgmpy/factors/discrete/CPD.py", "TabularCPD.get_evidence")
                    rev_is_reversed = any(tm.is_(r_.value, "self.variables[:0:-1]") is not None for r_ in returns_of(ge) if r_.value is not None)
                    if rev_is_reversed:
                        rc.fail(fu, t, "fit_update decides whether the previous table needs re-ordering by comparing the sorted parents with `get_evidence()`, which lists the parents "
                                "REVERSED; the table's columns follow `variables[1:]` — a CPD whose parents are in reverse-sorted order keeps its table un-reordered", construct="fit_update order test on reversed list")
                elif not ok_own:
                    rc.fail(fu, t, f"fit_update compares the sorted parents with `{norm(own, 60)}`, not with the table's own column order `variables[1:]`", construct="fit_update order test")
            if not guarded:
                rc.fail(fu, c, "fit_update takes the previous CPD's table in the CPD's own parent order, but the estimator lays counts out by sorted parents: "
                        "a CPD whose parents are not listed in sorted order gets its prior columns permuted", construct="fit_update prior order")
    est = [c for c in repo.calls_in(fu) if call_name(c) == "get_parameters"]
    pcn = dotted(kwarg(est[0], "pseudo_counts")) if est else None
    pc_stores = [n for n in ast.walk(fu.node) if isinstance(n, ast.Assign) and isinstance(n.targets[0], ast.Subscript) and pcn is not None and dotted(n.targets[0].value) == pcn]
    if not est or norm(kwarg(est[0], "prior_type")) != "'dirichlet'" or not pc_stores:
        rc.fail(fu, fu.node, "fit_update = Bayesian estimation with the scaled previous CPDs as Dirichlet pseudo counts", construct="fit_update estimator")
    if not any(isinstance(n.value, ast.BinOp) and isinstance(n.value.op, ast.Mult) and "n_prev_samples" in (dotted(n.value.left), dotted(n.value.right)) for n in pc_stores):
        rc.fail(fu, fu.node, "the previous CPDs must be scaled by the previous sample size", construct="fit_update scale")
    sn = [c for c in repo.calls_in(fu) if call_name(c) == "BayesianEstimator"]
    if not sn or kwarg(sn[0], "state_names") is None:
        rc.fail(fu, fu.node, "fit_update must pass the CPDs' state-name order to the estimator (row alignment of the pseudo counts)", construct="fit_update state names")


@rule("C06.declared", "CPDs carry, and count tables are indexed by, the declared state names; unseen configurations uniform; priors as documented", floor=6)
def declared(rc):
    repo = rc.repo
    for rel, q in ((MLE, "MaximumLikelihoodEstimator.estimate_cpd"), (BE, "BayesianEstimator.estimate_cpd")):
        f = repo.func(rel, q)
        c = [x for x in repo.calls_in(f) if call_name(x) == "TabularCPD"][0]
        sn = kwarg(c, "state_names")
        t = norm(sn) if sn is not None else ""
        rc.ob(f"{q}: state_names={t[:80]}")
        pn = _parents_name(repo, f) or "?"
        if "self.state_names[" not in t or not any(isinstance(x, ast.Name) and x.id == pn for x in ast.walk(sn)) or not any(isinstance(x, ast.Name) and x.id == f.params[1] for x in ast.walk(sn)):
            rc.fail(f, c, f"{q}: the CPD must be labelled with the declared state names of the node and its parents", construct=f"{q} state_names")
        card = c.args[1] if len(c.args) > 1 else kwarg(c, "variable_card")
        d = _defs(f)
        cv = d.get(dotted(card), [card])[0]
        if "len(self.state_names[" not in norm(cv):
            rc.fail(f, c, f"{q}: the cardinality must be the number of DECLARED states", construct=f"{q} cardinality")
        nrm = [x for x in calls_named(f, "normalize")]
        if not nrm:
            rc.fail(f, f.node, f"{q}: counts must be normalised per parent configuration", construct=f"{q} normalise")
    f = repo.func(EB, "BaseEstimator.state_counts")
    rix = [c for c in repo.calls_in(f) if call_name(c) == "reindex"]
    rows = [c for c in rix if any("self.state_names[variable]" in norm(a) for a in list(c.args) + [k.value for k in c.keywords]) or
            any(k.arg == "index" and "self.state_names[variable]" in norm(deep_resolve(k.value, single_defs(f))) for k in c.keywords)]
    rc.ob(f"state_counts re-indexes rows by declared states at {len(rows)} site(s)")
    if len(rows) < 2:
        rc.fail(f, f.node, "both the parent-free and the conditional count table must be re-indexed by the declared states of the variable", construct="row reindex")
    # MLE: uniform fill of unseen parent configurations before normalising
    f = repo.func(MLE, "MaximumLikelihoodEstimator.estimate_cpd")
    scn = {b["_SC"] for _, b in tm.find_all(f.node, "_SC = self.state_counts(_n, weighted=weighted)")} | {b["_SC"] for _, b in tm.find_all(f.node, "_SC = self.state_counts(_n)")}
    fills = [n for n in walk_no_nested(f.node) if isinstance(n, ast.Assign) and isinstance(n.targets[0], ast.Subscript)
             and any(tm.is_(n.targets[0], "_SC.iloc[:, (_SC.values == 0).all(axis=0)]", {"_SC": x}) is not None for x in scn)]
    ok = False
    for n in fills:
        t = norm(n.targets[0], 200)
        rc.ob(f"MLE unseen-configuration fill: {norm(n, 110)}")
        if isinstance(n.value, ast.Constant) and isinstance(n.value.value, (int, float)) and n.value.value > 0:
            ok = True
    if not ok:
        rc.fail(f, f.node, "MLE: a parent configuration that never occurs (all-zero column) must be filled with a constant so that it normalises to uniform",
                construct="uniform fill")
    # Bayesian priors
    f = repo.func(BE, "BayesianEstimator.estimate_cpd")
    d = _defs(f)
    sd = single_defs(f)
    node = f.params[1]
    ones = [c for c in repo.calls_in(f) if call_name(c) == "ones" and c.args and isinstance(c.args[0], ast.Name)]
    SH = ones[0].args[0].id if ones else None
    shape_e = deep_resolve(ast.Name(id=SH, ctx=ast.Load()), sd) if SH else None
    shape = norm(shape_e, 400) if shape_e is not None else "None"
    rc.ob(f"Bayesian pseudo-count shape {shape}")
    pn = _parents_name(repo, f) or "?"
    pdef = norm(deep_resolve(ast.Name(id=pn, ctx=ast.Load()), sd), 200)
    okshape = isinstance(shape_e, ast.Tuple) and len(shape_e.elts) == 2 and norm(shape_e.elts[0]) == f"len(self.state_names[{node}])" \
        and isinstance(shape_e.elts[1], ast.Call) and call_name(shape_e.elts[1]) == "prod" and shape_e.elts[1].args \
        and tm.is_(shape_e.elts[1].args[0], "[len(self.state_names[_p]) for _p in __PS]") is not None \
        and norm(tm.is_(shape_e.elts[1].args[0], "[len(self.state_names[_p]) for _p in __PS]")["__PS"], 200) == pdef
    if not okshape:
        rc.fail(f, f.node, "pseudo counts must have the shape (node cardinality, #parent configurations)", construct="pseudo shape")
    pri = {}
    pri_e = {}
    for s in sites(f.node, lambda n: isinstance(n, ast.Assign) and dotted(n.targets[0]) == "pseudo_counts"):
        tag = None
        for t, pol in s.conds:
            if pol and isinstance(t, ast.Compare) and dotted(t.left) == "prior_type" and isinstance(t.comparators[0], ast.Constant):
                tag = t.comparators[0].value
        if tag and tag not in pri:
            pri[tag] = norm(s.node.value, 200)
            pri_e[tag] = s.node.value
    rc.ob(f"priors {pri}")
    k2 = pri_e.get("k2")
    if not (isinstance(k2, ast.Call) and call_name(k2) == "ones" and k2.args and dotted(k2.args[0]) == SH):
        rc.fail(f, f.node, "K2 prior = pseudo count 1 for every cell", construct="k2 prior")
    bd = pri_e.get("bdeu")
    alpha = "None"
    okbd = False
    if isinstance(bd, ast.BinOp) and isinstance(bd.op, ast.Mult):
        sides = [bd.left, bd.right]
        one = [x for x in sides if isinstance(x, ast.Call) and call_name(x) == "ones" and x.args and dotted(x.args[0]) == SH]
        other = [x for x in sides if x not in one]
        if one and other:
            # the bdeu branch defines alpha right before: take the definition on that branch
            adefs = d.get(dotted(other[0]), []) if isinstance(other[0], ast.Name) else [other[0]]
            a_e = deep_resolve(adefs[0], sd) if adefs else None
            alpha = norm(a_e, 400) if a_e is not None else "None"
            nc = f"len(self.state_names[{node}])"
            pcs = norm(shape_e.elts[1].args[0], 300) if okshape else "?"
            okbd = alpha in (f"float(equivalent_sample_size) / ({nc} * np.prod({pcs}))", f"equivalent_sample_size / ({nc} * np.prod({pcs}))",
                             f"float(equivalent_sample_size) / (np.prod({pcs}) * {nc})", f"float(equivalent_sample_size) / np.prod({pcs}) / {nc}",
                             f"float(equivalent_sample_size) / {nc} / np.prod({pcs})")
    if not okbd:
        rc.fail(f, f.node, f"BDeu prior = equivalent_sample_size / (node cardinality x #parent configurations) per cell; found alpha = {alpha}", construct="bdeu prior")
    # user-given real pseudo counts must not be forced into an integer array
    for s2 in sites(f.node, lambda n: isinstance(n, ast.Assign) and dotted(n.targets[0]) == "pseudo_counts"):
        if not any(pol and isinstance(t, ast.Compare) and dotted(t.left) == "prior_type" and isinstance(t.comparators[0], ast.Constant) and t.comparators[0].value == "dirichlet"
                   for t, pol in s2.conds):
            continue
        v = s2.node.value
        for c in [x for x in ast.walk(v) if isinstance(x, ast.Call)]:
            dt = kwarg(c, "dtype")
            is_int = dt is not None and norm(dt) in ("int", "'int'", "np.int64", "np.int32", "np.int_")
            mentions = any(isinstance(x, ast.Name) and x.id == "pseudo_counts" for a in list(c.args) + [k.value for k in c.keywords] for x in ast.walk(a))
            if is_int and mentions or (call_name(c) == "astype" and c.args and norm(c.args[0]) in ("int", "'int'") and "pseudo_counts" in norm(c)):
                rc.fail(f, c, "explicit Dirichlet pseudo counts are real numbers: `" + norm(c, 70) + "` truncates them to integers (0.5 becomes 0)", construct="dirichlet pseudo counts forced to int")
        rc.ob(f"dirichlet pseudo counts: {norm(v, 80)}")
    ctor = [c for c in repo.calls_in(f) if call_name(c) == "TabularCPD"][0]
    tbl = ctor.args[2] if len(ctor.args) > 2 else kwarg(ctor, "values")
    bc = deep_resolve(tbl, {k: v for k, v in sd.items() if not (isinstance(v, ast.Call) and call_name(v) == "state_counts")})
    bc = bc.args[0] if isinstance(bc, ast.Call) and call_name(bc) in ("array", "asarray") and bc.args else bc
    scn = {b_["_SC"] for _, b_ in tm.find_all(f.node, "_SC = self.state_counts(_n, weighted=weighted)")} | {b_["_SC"] for _, b_ in tm.find_all(f.node, "_SC = self.state_counts(_n)")}
    rc.ob(f"posterior counts = {norm(bc) if bc is not None else None}")
    def _is_counts(x):
        return dotted(x) in scn or (isinstance(x, ast.Call) and call_name(x) == "state_counts" and dotted(x.func.value) == "self")
    if not (isinstance(bc, ast.BinOp) and isinstance(bc.op, ast.Add) and "pseudo_counts" in (dotted(bc.left), dotted(bc.right)) and (_is_counts(bc.left) or _is_counts(bc.right))):
        rc.fail(f, f.node, "Bayesian estimate = (count + pseudo count) normalised", construct="posterior counts")
    shp = [s for s in sites(f.node, lambda n: isinstance(n, ast.Raise)) if any(tm.is_(t, "pseudo_counts.shape != _SH", {"_SH": SH or "?"}) is not None and pol for t, pol in s.conds)]
    if not shp:
        rc.fail(f, f.node, "explicit Dirichlet pseudo counts of the wrong shape must be rejected", construct="dirichlet shape check")

@rule("C06.weighted", "`weighted` travels from get_parameters to the counting code; EM's M-step is a weighted MLE on normalised weights", floor=6)
def weighted(rc):
    repo = rc.repo
    for rel, cls in ((MLE, "MaximumLikelihoodEstimator"), (BE, "BayesianEstimator")):
        gp = repo.func(rel, f"{cls}.get_parameters")
        txt = norm(gp.node, 100000)
        fw = bool(tm.find_all(gp.node, "delayed(self.estimate_cpd)(_n, weighted)", nested=True)) or "weighted=weighted" in txt
        rc.ob(f"{cls}.get_parameters forwards weighted: {fw}")
        if not fw:
            rc.fail(gp, gp.node, f"{cls}.get_parameters must forward `weighted` to estimate_cpd", construct="forward weighted (get_parameters)")
        ec = repo.func(rel, f"{cls}.estimate_cpd")
        sc = [c for c in calls_named(ec, "state_counts")]
        ok = sc and dotted(kwarg(sc[0], "weighted")) == "weighted"
        rc.ob(f"{cls}.estimate_cpd forwards weighted to state_counts: {bool(ok)}")
        if not ok:
            rc.fail(ec, ec.node, f"{cls}.estimate_cpd must forward `weighted` to state_counts", construct="forward weighted (estimate_cpd)")
        # every node gets a CPD
        if "self.model.nodes()" not in txt:
            rc.fail(gp, gp.node, f"{cls}.get_parameters must estimate a CPD for every node of the model", construct="all nodes")
    # no estimator (nor DAG.fit) rebuilds the model from its edge list alone: a variable without any edge would get no CPD
    from . import shared as _sh
    _sh.rebuilt_from_edges_rule(rc, ("pgmpy/estimators/", "pgmpy/base/DAG.py"), only=lambda f: f.file.startswith("pgmpy/estimators/") or f.name == "fit")
    ps = repo.func(EB, "ParameterEstimator.state_counts")
    sup = [c for c in repo.calls_in(ps) if call_name(c) == "state_counts"]
    if not sup or dotted(kwarg(sup[0], "weighted")) != "weighted":
        rc.fail(ps, ps.node, "ParameterEstimator.state_counts must forward `weighted`", construct="forward weighted (ParameterEstimator)")
    rc.ob("ParameterEstimator.state_counts forwards weighted")
    f = repo.func(EB, "BaseEstimator.state_counts")
    n_w = 0
    for s in sites(f.node, lambda n: isinstance(n, ast.Subscript) and isinstance(n.slice, ast.Constant) and n.slice.value == "_weight" and isinstance(n.ctx, ast.Load)):
        wpol = [pol for t, pol in s.conds if dotted(t) == "weighted"]
        par = getattr(s.node, "_parent", None)
        summed = isinstance(par, ast.Attribute) and par.attr == "sum"
        if wpol == [True] and summed:
            n_w += 1
    rc.ob(f"BaseEstimator.state_counts sums `_weight` on the weighted branches: {n_w} site(s)")
    if n_w < 2:
        rc.fail(f, f.node, "with weighted=True both count tables must be sums of the `_weight` column", construct="weight sums")
    for s in sites(f.node, lambda n: isinstance(n, ast.Call) and call_name(n) in ("size", "value_counts")):
        if any(dotted(t) == "weighted" and pol for t, pol in s.conds):
            rc.fail(f, s.node, "plain row counts are used although weighted=True", construct="unweighted on weighted branch")
    # EM
    g = repo.func(EM, "ExpectationMaximization.get_parameters")
    mstep = [c for c in calls_named(g, "estimate_cpd") if kwarg(c, "weighted") is not None]
    okm = any(isinstance(kwarg(c, "weighted"), ast.Constant) and kwarg(c, "weighted").value is True for c in mstep)
    data_set = False
    for c in mstep:
        M = dotted(c.func.value)
        for n_, b_ in tm.find_all(g.node, "_M.data = _WD", {"_M": M}):
            if tm.has(g.node, "_WD = self._compute_weights(n_jobs, latent_card, batch_size)", b_) and n_.lineno < c.lineno:
                data_set = True
    rc.ob(f"EM M-step: weighted MLE {okm} on the expanded data {data_set}")
    if not (okm and data_set):
        rc.fail(g, g.node, "EM's M-step must be a weighted MLE on the E-step's expanded data", construct="em m-step")
    w = repo.func(EM, "ExpectationMaximization._parallel_compute_weights")
    wt = [n for n in walk_no_nested(w.node) if isinstance(n, ast.Assign) and "_weight" in norm(n.targets[0])]
    okw = any(tm.is_(n.value, "_W / _W.sum() * n_counts[tuple(data_unique.iloc[_i])]") is not None for n in wt)
    rc.ob(f"EM E-step weights: {[norm(n.value, 90) for n in wt]}")
    if not okw:
        rc.fail(w, w.node, "E-step weights of one observed row must be its posterior over latent states (normalised) times the row's multiplicity", construct="em weights")
    # key shapes of the multiplicity table agree between writer and reader: `groupby([c1, …]).size().to_dict()` is keyed by TUPLES only for two or more columns
    # (one column: scalars), while the E-step reads it with `tuple(row)` — with exactly one observed column every lookup is a KeyError
    cwf = repo.func(EM, "ExpectationMaximization._compute_weights")
    writers = [(n_, b_) for n_, b_ in tm.find_all(cwf.node, "_N = __DF.groupby(__L, observed=True).size().to_dict()")] + \
              [(n_, b_) for n_, b_ in tm.find_all(cwf.node, "_N = __DF.groupby(__L).size().to_dict()")]
    always_tuples = bool(tm.find_all(cwf.node, "_N = __DF.value_counts().to_dict()"))
    reads_tuple = any(isinstance(n, ast.Subscript) and norm(n.value) == "n_counts" and isinstance(n.slice, ast.Call) and call_name(n.slice) == "tuple" for n in ast.walk(w.node))
    if not writers and not always_tuples:
        raise AnalysisError("EM._compute_weights: multiplicity table not found")
    for n_, b_ in writers:
        normed = any(isinstance(d, ast.DictComp) and isinstance(d.key, ast.Tuple) and len(d.key.elts) == 1 and b_["_N"] in norm(d.generators[0].iter) for d in ast.walk(cwf.node))
        rc.ob(f"EM multiplicity table `{norm(n_, 80)}`: read with tuple(row) {reads_tuple}; scalar keys of the one-column case re-keyed as 1-tuples {normed}")
        if reads_tuple and not normed:
            rc.fail(cwf, n_, "EM: the multiplicity table is keyed by scalars when there is exactly one observed column (groupby over a one-element list) but is read with "
                    "tuple(row): KeyError for every row of a data set with one observed variable", construct="em multiplicity key shape")
    # E-step batches cover every distinct observed row exactly once (evaluated on concrete sizes)
    from ..layout import Env, eval_expr
    cw = repo.func(EM, "ExpectationMaximization._compute_weights")
    gens = [n for n in walk_no_nested(cw.node) if isinstance(n, ast.GeneratorExp) and "_parallel_compute_weights" in norm(n.elt)]
    if len(gens) != 1:
        raise AnalysisError("EM._compute_weights: batch generator not found")
    g = gens[0]
    call = g.elt
    off_expr = call.args[3] if len(call.args) > 3 else None
    bs_expr = call.args[4] if len(call.args) > 4 else None
    pw = repo.func(EM, "ExpectationMaximization._parallel_compute_weights")
    row_loop = [n for n in walk_no_nested(pw.node) if isinstance(n, ast.For) and isinstance(n.iter, ast.Call) and call_name(n.iter) == "range" and "offset" in norm(n.iter)]
    if off_expr is None or not row_loop:
        raise AnalysisError("EM: cannot read the batch offsets / row loop")
    local_defs = [n for n in cw.body if isinstance(n, ast.Assign) and isinstance(n.targets[0], ast.Name)]
    _, bdu = tm.find(cw.node, "_DU = self.data.drop_duplicates()")
    if bdu is None or dotted(call.args[0]) != bdu["_DU"]:
        raise AnalysisError("EM._compute_weights: distinct observed rows not found")
    DU = bdu["_DU"]
    bad = None
    for nrows, bsz in ((7, 3), (6, 3), (2, 5), (1, 1), (10, 4)):
        env = Env(batch_size=bsz, **{f"{DU}.shape": (nrows, 4)})
        try:
            for st in local_defs:
                if st.targets[0].id == DU:
                    continue
                try:
                    env[st.targets[0].id] = eval_expr(st.value, env)
                except AnalysisError:
                    pass
            seen = []
            for val in eval_expr(g.generators[0].iter, env):
                e2 = Env(env)
                e2[dotted(g.generators[0].target)] = val
                off = eval_expr(off_expr, e2)
                b = eval_expr(bs_expr, e2) if bs_expr is not None else bsz
                e3 = Env(offset=off, batch_size=b, **{"data_unique.shape": (nrows, 4)})
                seen.extend(eval_expr(row_loop[0].iter, e3))
        except AnalysisError as ex:
            raise AnalysisError(f"EM batch coverage: {ex}")
        rc.report.rows += 1
        if sorted(seen) != list(range(nrows)) and bad is None:
            bad = (nrows, bsz, sorted(seen))
    rc.ob(f"EM E-step batches: offsets {norm(off_expr)} for {norm(g.generators[0].target)} in {norm(g.generators[0].iter)}; rows {norm(row_loop[0].iter)}")
    if bad:
        rc.fail(cw, g, f"the E-step batches do not cover every distinct observed row exactly once: with {bad[0]} rows and batch_size {bad[1]} the rows processed are {bad[2]}",
                construct="em batch coverage")
    conv = repo.func(EM, "ExpectationMaximization._is_converged")
    if "atol=atol" not in norm(conv.node, 5000):
        rc.fail(conv, conv.node, "convergence must use the requested tolerance", construct="em tolerance")



@rule("C06.defuse", "anchored files: no parameter is accepted and ignored (generic def-use detector, triaged exemptions)", floor=2)
def defuse(rc):
    from . import shared as _sh
    _sh.defuse_rule(rc, _sh.anchor_files("C06"))


@rule("C06.data", "preprocess_data (run in front of every estimator, score and CI test) hands on the caller's values: copy, column-wise value-preserving casts", floor=2)
def data_(rc):
    from . import shared as _sh
    _sh.preprocess_rule(rc)


MUTANTS = [
    dict(kind="break", name="em-multiplicity-scalar-keys", file=EM, expect="C06.weighted",
         old="        if self.data.shape[1] == 1:\n            # groupby on a single column gives scalar keys; rows are looked up as tuples.\n            n_counts = {(key,): value for key, value in n_counts.items()}\n", new=""),
    dict(kind="break", name="bayesian-estimator-rebuilds-from-edges", file=BE, expect="C06.weighted",
         old="                model_bn.add_nodes_from(model.nodes())\n", new=""),
    dict(kind="break", name="mle-parents-unsorted", file=MLE, expect="C06.parentorder",
         old="        parents = sorted(self.model.get_parents(node))\n        parents_cardinalities", new="        parents = list(self.model.get_parents(node))\n        parents_cardinalities"),
    dict(kind="break", name="counts-parents-unsorted", file=EB, expect="C06.parentorder",
         old="        parents = sorted(self.model.get_parents(variable))", new="        parents = list(self.model.get_parents(variable))"),
    dict(kind="break", name="bayes-evidence-card-reversed", file=BE, expect="C06.parentorder",
         old="        parents_cardinalities = [len(self.state_names[parent]) for parent in parents]\n        cpd_shape", new="        parents_cardinalities = [len(self.state_names[parent]) for parent in reversed(parents)]\n        cpd_shape"),
    dict(kind="break", name="fit-update-own-order", file=BN, expect="C06.parentorder",
         old="            if parents != list(cpd.variables[1:]):\n                values = cpd.reorder_parents(parents, inplace=False)\n            else:\n                values = cpd.get_values()", new="            values = cpd.get_values()"),
    dict(kind="break", name="mle-observed-state-names", file=MLE, expect="C06.declared",
         old="            state_names={var: self.state_names[var] for var in chain([node], parents)},\n        )\n        cpd.normalize()", new="            state_names=state_names,\n        )\n        cpd.normalize()"),
    dict(kind="break", name="mle-no-uniform-fill", file=MLE, expect="C06.declared",
         old="        state_counts.iloc[:, (state_counts.values == 0).all(axis=0)] = 1.0\n", new=""),
    dict(kind="break", name="bdeu-prior-forgets-node-card", file=BE, expect="C06.declared",
         old="            alpha = float(equivalent_sample_size) / (\n                node_cardinality * np.prod(parents_cardinalities)\n            )", new="            alpha = float(equivalent_sample_size) / (\n                np.prod(parents_cardinalities)\n            )"),
    dict(kind="break", name="bayes-counts-times-prior", file=BE, expect="C06.declared",
         old="        bayesian_counts = state_counts + pseudo_counts", new="        bayesian_counts = state_counts * pseudo_counts"),
    dict(kind="break", name="mle-drops-weighted", file=MLE, expect="C06.weighted",
         old="        state_counts = self.state_counts(node, weighted=weighted)\n\n        # if a column", new="        state_counts = self.state_counts(node)\n\n        # if a column"),
    dict(kind="break", name="em-mstep-unweighted", file=EM, expect="C06.weighted",
         old="new_cpds.append(mle.estimate_cpd(var, weighted=True))", new="new_cpds.append(mle.estimate_cpd(var, weighted=False))"),
    dict(kind="break", name="dirichlet-scalar-int-array", file=BE, expect="C06.declared",
         old="pseudo_counts = np.ones(cpd_shape, dtype=int) * pseudo_counts", new="pseudo_counts = np.full(cpd_shape, pseudo_counts, dtype=int)"),
    dict(kind="break", name="em-drops-last-batch", file=EM, expect="C06.weighted",
         old="            for i in range(0, data_unique.shape[0], batch_size)\n", new="            for i in range(0, data_unique.shape[0] - batch_size + 1, batch_size)\n"),
    dict(kind="twin", name="em-batches-by-index", file=EM,
         old="                data_unique, latent_card, n_counts, i, batch_size\n            )\n            for i in range(0, data_unique.shape[0], batch_size)\n",
         new="                data_unique, latent_card, n_counts, b * batch_size, batch_size\n            )\n            for b in range((data_unique.shape[0] + batch_size - 1) // batch_size)\n"),
    dict(kind="twin", name="consistent-reverse-sorted-everywhere-not-applied", file=MLE,
         old="        cpd.normalize()\n        return cpd\n\n    def estimate_potentials", new="        cpd.normalize(inplace=True)\n        return cpd\n\n    def estimate_potentials"),
]
