"""C07 — samplers draw from the distribution they claim, reproducibly."""
from __future__ import annotations

import ast

from ..core import AnalysisError, call_name, dotted, kwarg, norm, walk_no_nested
from ..guards import A, And, Not, Or, T, implies, path_formula, show_formula, sites
from ..registry import describe, rule
from .. import tmatch as tm
from ..util import calls_named, peel, returns_of

SP = "pgmpy/sampling/Sampling.py"
SB = "pgmpy/sampling/base.py"
MX = "pgmpy/utils/mathext.py"
BN = "pgmpy/models/BayesianNetwork.py"
DBN = "pgmpy/models/DynamicBayesianNetwork.py"

describe(
    "C07",
    "latent columns are removed exactly on the `not include_latents` paths and the filter speaks about the variable (every sampling "
    "entry point with an include_latents parameter either forwards it or removes exactly the latent set); a given seed is installed, "
    "under `seed is not None`, BEFORE every random draw reachable in that entry point (draw sites found through the call graph: "
    "np.random.*, sample_discrete*, random_state, nested sampler calls) and convenience wrappers forward it; the parent list that "
    "stacks the already sampled parent columns is the list handed to the reduce-map builder; likelihood weighting fixes exactly the "
    "evidence nodes and multiplies the weight under the same condition, samples the others; rejection sampling filters on every "
    "evidence pair and truncates to the requested size; state numbers are mapped to state names on return; Gibbs kernels are "
    "normalised per configuration of the other variables and built from all factors mentioning the variable.",
    ["any distributional claim (needs statistics)", "numeric value of weights", "exactness of the Gibbs transition kernel's values"],
)

RANDOM_CALLS = {"sample_discrete", "sample_discrete_maps", "random_state", "forward_sample", "rejection_sample", "likelihood_weighted_sample", "choice", "randint",
                "random", "rand", "shuffle", "permutation"}


def _entries(repo):
    return [
        (SP, "BayesianModelSampling.forward_sample"), (SP, "BayesianModelSampling.rejection_sample"), (SP, "BayesianModelSampling.likelihood_weighted_sample"),
        (SP, "GibbsSampling.sample"), (SP, "GibbsSampling.generate_sample"),
    ]


@rule("C07.latents", "latent columns/variables are removed exactly when include_latents is false", floor=5)
def latents(rc):
    repo = rc.repo

    def atomize(e):
        if dotted(e) == "include_latents":
            return A("inc")
        return None

    for rel, q in _entries(repo):
        f = repo.func(rel, q)
        if "include_latents" not in f.params:
            rc.fail(f, f.node, f"{q} lost its include_latents parameter", construct="param")
            continue
        drops = sites(f.node, lambda n: isinstance(n, ast.Call) and call_name(n) == "drop" and n.args and norm(n.args[0]).endswith("latents"))
        n_ok = 0
        for s in drops:
            fm = path_formula(s, atomize, drop_validation=True)
            rc.ob(f"{q}: {norm(s.node, 70)} under {show_formula(fm)}")
            ok, _, rows = implies(fm, Not(A("inc")), extra_atoms=("inc",))
            ax = kwarg(s.node, "axis")
            if not ok:
                rc.fail(f, s.node, "latent columns are dropped although include_latents may be true", construct=f"{q} drop polarity")
            elif not (isinstance(ax, ast.Constant) and ax.value == 1) and kwarg(s.node, "columns") is None:
                rc.fail(f, s.node, "latents must be dropped as COLUMNS", construct=f"{q} drop axis")
            else:
                n_ok += 1
        if q.endswith("generate_sample"):
            ys = sites(f.node, lambda n: isinstance(n, ast.Yield))
            for s in ys:
                fm = path_formula(s, atomize, drop_validation=True)
                v = s.node.value
                filtered = isinstance(v, ast.ListComp) and v.generators[0].ifs
                rc.ob(f"{q}: yield {norm(v, 70)} under {show_formula(fm)}")
                if filtered:
                    g = v.generators[0]
                    tv = {x.id for x in ast.walk(g.target) if isinstance(x, ast.Name)}
                    cond = g.ifs[0]
                    cn = {x.id for x in ast.walk(cond) if isinstance(x, ast.Name)}
                    okc = isinstance(cond, ast.Compare) and isinstance(cond.ops[0], ast.NotIn) and norm(cond.comparators[0]).endswith("latents") and (tv & cn)
                    if not okc:
                        rc.fail(f, cond, "the latent filter does not test the yielded element's own variable against the latent set", construct=f"{q} filter target")
                    elif not implies(fm, Not(A("inc")), extra_atoms=("inc",))[0]:
                        rc.fail(f, s.node, "latents filtered although include_latents may be true", construct=f"{q} filter polarity")
                    else:
                        n_ok += 1
                else:
                    if not implies(fm, A("inc"), extra_atoms=("inc",))[0]:
                        rc.fail(f, s.node, "the full state (latents included) is yielded although include_latents may be false", construct=f"{q} unfiltered yield")
        elif not drops:
            rc.fail(f, f.node, f"{q}: nothing removes the latent columns when include_latents is false", construct=f"{q} no drop")
        # every return after sampling happens either after a drop site or forwards include_latents
        for s in sites(f.node, lambda n: isinstance(n, ast.Return) and isinstance(n.value, ast.Call) and call_name(n.value) in ("forward_sample", "rejection_sample")):
            if dotted(kwarg(s.node.value, "include_latents")) != "include_latents":
                rc.fail(f, s.node, "a delegated sampling call must forward include_latents", construct=f"{q} delegate include_latents")
    # convenience wrappers
    sim = repo.func(BN, "BayesianNetwork.simulate")
    for c in [c for c in repo.calls_in(sim) if call_name(c) in ("forward_sample", "rejection_sample", "likelihood_weighted_sample")]:
        rc.ob(f"BayesianNetwork.simulate -> {call_name(c)}(include_latents={norm(kwarg(c, 'include_latents'))}, seed={norm(kwarg(c, 'seed'))})")
        if dotted(kwarg(c, "include_latents")) != "include_latents":
            rc.fail(sim, c, "simulate must forward include_latents to the sampler", construct="simulate include_latents")
    # simulate samples from a WORKING model to which it adds helper nodes (virtual evidence children): whatever it returns is restricted to the nodes of the model
    # itself — also when latents are requested (include_latents speaks about latent variables of the model, not about the helper columns)
    work = {b_["_M"] for _n, b_ in tm.find_all(sim.node, "_M.add_edge(__V, __NV)") if b_["_M"] != "self"}
    rets = [r for r in walk_no_nested(sim.node) if isinstance(r, ast.Return) and r.value is not None]
    rc.ob(f"BayesianNetwork.simulate: helper nodes added to {sorted(work)}; {len(rets)} return(s)")
    if not work or not rets:
        raise AnalysisError("BayesianNetwork.simulate: working model / returns not found")
    for r in rets:
        own = any(isinstance(c, ast.Call) and call_name(c) == "nodes" and dotted(c.func.value) == "self" for c in ast.walk(r.value))
        rc.ob(f"BayesianNetwork.simulate: `return {norm(r.value, 70)}` selects columns by self.nodes(): {own}")
        if not own:
            rc.fail(sim, r, f"simulate returns `{norm(r.value, 60)}` — every column of the working model, including the helper children it added for virtual evidence "
                    "(`__X`), which are not variables of the model", construct="simulate returns helper columns")


@rule("C07.seed", "the seed is installed before every random draw of the entry point; wrappers forward it", floor=6)
def seed(rc):
    repo = rc.repo
    for rel, q in _entries(repo):
        f = repo.func(rel, q)
        if "seed" not in f.params:
            rc.fail(f, f.node, f"{q} lost its seed parameter", construct="param")
            continue
        seeds = sites(f.node, lambda n: isinstance(n, ast.Call) and norm(n.func) in ("np.random.seed", "numpy.random.seed") and n.args and dotted(n.args[0]) == "seed")
        if not seeds:
            rc.fail(f, f.node, f"{q} never installs the requested seed", construct=f"{q} no seeding")
            continue
        s0 = seeds[0]
        guard_ok = any(isinstance(t, ast.Compare) and dotted(t.left) == "seed" and isinstance(t.ops[0], ast.IsNot) and pol for t, pol in s0.conds)
        extra = [t for t, pol in s0.conds if not (isinstance(t, ast.Compare) and dotted(t.left) == "seed")]
        if not guard_ok or extra or s0.loops:
            rc.fail(f, s0.node, f"{q}: the seed must be installed exactly when it is given (`seed is not None`), once, unconditionally otherwise", construct=f"{q} seed guard")
        draws = [n for n in walk_no_nested(f.node) if isinstance(n, ast.Call) and (call_name(n) in RANDOM_CALLS) and
                 (isinstance(n.func, ast.Name) or dotted(n.func.value) in ("self", "np.random", "numpy.random", "random") or (dotted(n.func.value) or "").startswith("np.random"))]
        early = [d for d in draws if (d.lineno, d.col_offset) < (s0.node.lineno, s0.node.col_offset)]
        rc.ob(f"{q}: seeding at line {s0.node.lineno - f.node.lineno}+; {len(draws)} draw site(s), {len(early)} before the seeding")
        for d in early:
            rc.fail(f, d, f"{q}: `{norm(d, 60)}` draws random numbers BEFORE the seed is installed: the same seed does not reproduce the samples", construct=f"{q} draw before seed: {norm(d, 60)}")
        if not draws:
            rc.fail(f, f.node, f"{q}: no random draw found (analysis out of date?)", construct=f"{q} no draws")
    # helpers: sample_discrete* seed themselves only when asked, and draw via np.random
    for name in ("sample_discrete", "sample_discrete_maps"):
        h = repo.module(MX).functions[name]
        ch = [c for c in repo.calls_in(h) if call_name(c) == "choice"]
        rc.ob(f"{name}: draws {[norm(c.func) for c in ch]}")
        for c in ch:
            if norm(c.func) != "np.random.choice":
                rc.fail(h, c, f"{name} must draw from numpy's global generator (the one np.random.seed controls)", construct=f"{name} generator")
            if kwarg(c, "p") is None:
                rc.fail(h, c, f"{name} must draw with the given probabilities", construct=f"{name} p")
    # wrappers forward the seed
    for rel, q in ((BN, "BayesianNetwork.simulate"), (DBN, "DynamicBayesianNetwork.simulate")):
        w = repo.func(rel, q)
        cs = [c for c in repo.calls_in(w) if call_name(c) in ("forward_sample", "rejection_sample", "likelihood_weighted_sample", "simulate") and not isinstance(c.func, ast.Name)]
        for c in cs:
            if call_name(c) == "simulate" and dotted(c.func.value) == "self":
                continue
            rc.ob(f"{q} -> {call_name(c)}(seed={norm(kwarg(c, 'seed'))})")
            if dotted(kwarg(c, "seed")) != "seed":
                rc.fail(w, c, f"{q} must forward the seed to the sampler", construct=f"{q} seed forward")
    # no other generator is consulted in the sampling modules
    for rel in (SP, MX):
        for fn in list(repo.module(rel).functions.values()) + [m for c in repo.module(rel).classes.values() for m in c.methods.values()]:
            for c in repo.calls_in(fn):
                d = dotted(c.func) or ""
                if d.startswith("random.") or d in ("np.random.default_rng", "default_rng") or d.startswith("torch.rand") or d.startswith("torch.multinomial"):
                    rc.fail(fn, c, f"{fn.qual} draws from a generator that np.random.seed(seed) does not control: {d}", construct=f"foreign generator {d}")


def _seq_tag(e, env):
    """order of a sequence relative to a CPD: ('fwd', c) = order of c.variables[1:] (also c.cardinality[1:]); ('rev', c) = order of c.get_evidence() (the reverse);
    ('param', p) = whatever the caller passes for parameter p; None = unknown"""
    if isinstance(e, ast.Name):
        return env.get(e.id)
    if isinstance(e, ast.Subscript) and isinstance(e.value, ast.Attribute) and e.value.attr in ("variables", "cardinality") and isinstance(e.slice, ast.Slice) and isinstance(e.value.value, ast.Name):
        sl = e.slice
        lo, hi, stp = (norm(x) if x is not None else None for x in (sl.lower, sl.upper, sl.step))
        if (lo, hi, stp) == ("1", None, None):
            return ("fwd", e.value.value.id)
        if (lo, hi, stp) == (None, "0", "-1"):
            return ("rev", e.value.value.id)
        return None
    if isinstance(e, ast.Call) and call_name(e) == "get_evidence" and isinstance(e.func, ast.Attribute) and isinstance(e.func.value, ast.Name) and not e.args:
        return ("rev", e.func.value.id)
    if isinstance(e, (ast.ListComp, ast.GeneratorExp)) and len(e.generators) == 1 and not e.generators[0].ifs:
        return _seq_tag(e.generators[0].iter, env)
    if isinstance(e, ast.Call) and call_name(e) in ("vstack", "stack", "array", "asarray", "list", "tuple", "astype", "to_numpy") :
        if call_name(e) == "astype" and isinstance(e.func, ast.Attribute):
            return _seq_tag(e.func.value, env)
        return _seq_tag(e.args[0], env) if e.args else None
    if isinstance(e, ast.Call) and call_name(e) == "reversed" and e.args:
        t = _seq_tag(e.args[0], env)
        return ({"fwd": "rev", "rev": "fwd"}.get(t[0], t[0]), t[1]) if t and t[0] in ("fwd", "rev") else None
    return None


def _order_typing(rc, classes):
    """Two sequences that are paired position by position (zip) must follow the same order.  A CPD offers two orders of its parents — `variables[1:]` /
    `cardinality[1:]` (declared order) and `get_evidence()` (the reverse) — and both are in use in the samplers; a helper that zips one of them with a sequence built
    from a parameter fixes the order its callers must pass."""
    methods = {}
    for ci in classes:
        for mname, m in ci.methods.items():
            methods.setdefault(mname, m)
    needs = {}   # method -> [(param p, kind, cpd param, zip node)]
    n_zip = 0
    n_tagged = 0
    envs = {}
    for mname, m in methods.items():
        env = {prm: ("param", prm) for prm in m.params}
        for st in walk_no_nested(m.node):
            if isinstance(st, ast.Assign) and len(st.targets) == 1 and isinstance(st.targets[0], ast.Name):
                t = _seq_tag(st.value, env)
                if t is not None:
                    env[st.targets[0].id] = t
                    n_tagged += 1
                elif st.targets[0].id in env and env[st.targets[0].id][0] != "param":
                    del env[st.targets[0].id]
        envs[mname] = env
        for c in ast.walk(m.node):
            if isinstance(c, ast.Call) and isinstance(c.func, ast.Name) and c.func.id == "zip" and len(c.args) >= 2:
                tags = [_seq_tag(a, env) for a in c.args]
                known = [(a, t) for a, t in zip(c.args, tags) if t is not None]
                if len(known) < 2:
                    continue
                n_zip += 1
                conc = [(a, t) for a, t in known if t[0] in ("fwd", "rev")]
                for (a1, t1) in conc:
                    for (a2, t2) in conc:
                        if a1 is not a2 and t1[1] == t2[1] and t1[0] != t2[0] and id(a1) < id(a2):
                            rc.fail(m, c, f"{m.qual}: `{norm(c, 70)}` pairs `{norm(a1, 30)}` (declared parent order of {t1[1]}) with `{norm(a2, 30)}` (the reverse order)",
                                    construct=f"{m.qual} zip of opposite parent orders")
                for (a1, t1) in conc:
                    for (a2, t2) in known:
                        if t2[0] == "param" and env.get(t1[1]) == ("param", t1[1]):
                            needs.setdefault(mname, []).append((t2[1], t1[0], t1[1], c))
    n_calls = 0
    for mname, m in methods.items():
        env = envs[mname]
        for c in ast.walk(m.node):
            if not (isinstance(c, ast.Call) and isinstance(c.func, ast.Attribute) and c.func.attr in needs and c.func.attr in methods):
                continue
            callee = methods[c.func.attr]
            ps = [x for x in callee.params if x not in ("self", "cls")]
            bound = dict(zip(ps, c.args))
            bound.update({k.arg: k.value for k in c.keywords if k.arg})
            for (pp, kind, cpdp, zp) in needs[c.func.attr]:
                if pp not in bound or cpdp not in bound or not isinstance(bound[cpdp], ast.Name):
                    continue
                n_calls += 1
                t = _seq_tag(bound[pp], env)
                rc.ob(f"{m.qual} -> {callee.qual}({pp}={norm(bound[pp], 30)}): order {t}; the helper pairs it with the {kind!r} order of its `{cpdp}`")
                if t is not None and t[0] in ("fwd", "rev") and t[1] == bound[cpdp].id and t[0] != kind:
                    rc.fail(m, c, f"{m.qual} passes `{norm(bound[pp], 40)}` ({'reverse' if t[0] == 'rev' else 'declared'} parent order) to {callee.qual}, which pairs that argument "
                            f"position by position with `{norm(zp, 50)}` ({'reverse' if kind == 'rev' else 'declared'} order): cardinalities / axes are attached to the wrong parents",
                            construct=f"{m.qual} -> {callee.name} parent order")
    rc.ob(f"order typing over the samplers: {n_tagged} parent-ordered sequence(s), {n_zip} positional pairing(s) between them, {n_calls} helper call(s) checked")
    if n_tagged < 2:
        raise AnalysisError(f"order typing: expected the parent lists of forward and likelihood-weighted sampling, found {n_tagged}")


@rule("C07.pairing", "the parent list ordering the stacked parent samples is the one given to the reduce-map builder; reduce maps index CPD axes by name", floor=4)
def pairing(rc):
    repo = rc.repo
    _order_typing(rc, [repo.cls(SP, "BayesianModelSampling"), repo.cls(SB, "BayesianModelInference")])
    for q in ("BayesianModelSampling.forward_sample", "BayesianModelSampling.likelihood_weighted_sample"):
        f = repo.func(SP, q)
        stacks = [c for c in repo.calls_in(f) if call_name(c) == "vstack"]
        maps = [c for c in repo.calls_in(f) if call_name(c) == "pre_compute_reduce_maps"]
        if stacks and not maps:
            rc.fail(f, f.node, f"{q} no longer builds the reduce maps itself for the parent configurations it just stacked (the maps must be computed for this call's "
                    f"evidence order and state combinations)", construct=f"{q} reduce maps not built per call")
            continue
        if not stacks or not maps:
            raise AnalysisError(f"{q}: stacking / reduce-map sites not found")
        comp = stacks[0].args[0]
        it = dotted(comp.generators[0].iter) if isinstance(comp, (ast.ListComp, ast.GeneratorExp)) else None
        ev = dotted(kwarg(maps[0], "evidence"))
        var = dotted(kwarg(maps[0], "variable"))
        sc = dotted(kwarg(maps[0], "state_combinations"))
        rc.ob(f"{q}: parents stacked over `{it}`, reduce maps for variable `{var}` with evidence `{ev}`, combinations `{sc}`")
        if it is None or it != ev:
            rc.fail(f, maps[0], "the parent configuration tuples are ordered by one list but interpreted by the reduce maps in the order of another", construct=f"{q} evidence pairing")
        loopvar = None
        for n in walk_no_nested(f.node):
            if isinstance(n, ast.For) and any(x is maps[0] for x in ast.walk(n)):
                loopvar = dotted(n.target)
        if var != loopvar:
            rc.fail(f, maps[0], "reduce maps must be built for the node being sampled", construct=f"{q} variable")
        # evidence list derives from the node's own CPD
        defs = [n for n in walk_no_nested(f.node) if isinstance(n, ast.Assign) and dotted(n.targets[0]) == ev]
        okd = False
        for n in defs:
            for t_ in ("_c.variables[1:]", "_c.get_evidence()"):
                b_ = tm.is_(n.value, t_)
                if b_ is not None and loopvar is not None and tm.has(f.node, "_c = self.model.get_cpds(_n)", {"_c": b_["_c"], "_n": loopvar}):
                    okd = True
        if not okd:
            rc.fail(f, maps[0], "the parent list must come from the sampled node's own CPD", construct=f"{q} evidence source")
        # unique rows of the TRANSPOSED stack (rows = samples) key the maps
        uq = [c for c in repo.calls_in(f) if call_name(c) == "unique" and c.args and norm(c.args[0]).endswith(".T")]
        if not uq or not (isinstance(kwarg(uq[0], "axis"), ast.Constant) and kwarg(uq[0], "axis").value == 0):
            rc.fail(f, f.node, "parent configurations are the ROWS of the transposed stack (one per sample)", construct=f"{q} unique rows")
    m = repo.func(SB, "BayesianModelInference.pre_compute_reduce_maps")
    _, bv = tm.find(m.node, "_VC = self.model.get_cpds(variable)")
    _, br = tm.find(m.node, "_RI = [_VC.variables.index(_v) for _v in evidence]", bv) if bv is not None else (None, None)
    ok = br is not None and bool(tm.find_all(m.node, "BayesianModelInference._reduce_marg(_VC, evidence, _RI, _sc)", br, nested=True))
    rc.ob(f"pre_compute_reduce_maps: axis index list built by name, in the order of `evidence`, and handed to _reduce_marg: {ok}")
    if not ok:
        rc.fail(m, m.node, "CPD axes must be located by NAME for each evidence variable, in the order of `evidence`", construct="reduce_index")
    rm = repo.func(SB, "BayesianModelInference._reduce_marg")
    P = rm.params  # variable_cpd, variable_evid, reduce_index, sc
    okp = False
    for lp in [n for n in walk_no_nested(rm.node) if isinstance(n, ast.For)]:
        b_ = tm.is_(lp, "for _i, _ix in enumerate(_ri):\n    _SL[_ix] = _VALS[_i]", {"_ri": P[2]})
        if b_ is not None and tm.has(rm.node, "_RV = _vc.values[tuple(_SL)]", {"_vc": P[0], "_SL": b_["_SL"]}):
            okp = True
    if not okp:
        rc.fail(rm, rm.node, "the i-th state of a combination must index the axis found for the i-th evidence variable", construct="reduce_marg pairing")
    if not any(tm.is_(r.value, "_M / _M.sum()") is not None for r in returns_of(rm) if r.value is not None):
        rc.fail(rm, rm.node, "the reduced column must be normalised before sampling", construct="reduce_marg normalise")
    rc.ob("_reduce_marg pairs values[i] with reduce_index[i] and normalises")

@rule("C07.weights", "likelihood weighting, rejection and return conventions", floor=6)
def weights(rc):
    repo = rc.repo
    f = repo.func(SP, "BayesianModelSampling.likelihood_weighted_sample")

    _, bed = tm.find(f.node, "_ED = dict(evidence)")
    ED = bed["_ED"] if bed else None
    main = [n for n in walk_no_nested(f.node) if isinstance(n, ast.For) and isinstance(n.target, ast.Name) and any(isinstance(x, ast.AugAssign) for x in ast.walk(n))]
    if not main or ED is None:
        raise AnalysisError("likelihood_weighted_sample: node loop / evidence dictionary not found")
    NODE = main[0].target.id
    _, bdf = tm.find(f.node, "_S = pd.DataFrame(columns=list(self.model.nodes()))")
    DF_ = bdf["_S"] if bdf else None
    par_names = {b["_P"] for pat in ("_P = _c.get_evidence()", "_P = _c.variables[1:]") for _, b in tm.find_all(main[0], pat)}
    ev_vals = {b["_EV"] for _, b in tm.find_all(main[0], "_EV = _ED[_n]", {"_ED": ED, "_n": NODE})}

    def atomize(e):
        if isinstance(e, ast.Compare) and isinstance(e.ops[0], ast.In) and dotted(e.left) == NODE and dotted(e.comparators[0]) == ED:
            return A("is_evidence")
        if isinstance(e, ast.Name) and e.id in par_names:
            return A("has_parents")
        return None

    def _mentions_ev(v):
        return any(isinstance(x, ast.Name) and (x.id == ED or x.id in ev_vals) for x in ast.walk(v))

    w_sites = sites(f.node, lambda n: isinstance(n, ast.AugAssign) and "_weight" in norm(n.target))
    draw_sites = sites(f.node, lambda n: isinstance(n, ast.Call) and call_name(n) in ("sample_discrete", "sample_discrete_maps"))
    fix_sites = sites(f.node, lambda n: isinstance(n, ast.Assign) and tm.is_(n.targets[0], "_S[_n]", {"_S": DF_ or "?", "_n": NODE}) is not None and _mentions_ev(n.value))
    for s in w_sites:
        fm = path_formula(s, atomize, drop_validation=True)
        rc.ob(f"weight update {norm(s.node, 60)} under {show_formula(fm)}")
        if not isinstance(s.node.op, ast.Mult):
            rc.fail(f, s.node, "the weight is the PRODUCT of the evidence likelihoods", construct="weight op")
        if not implies(fm, A("is_evidence"), extra_atoms=("is_evidence",))[0]:
            rc.fail(f, s.node, "the weight may only be multiplied for evidence nodes", construct="weight condition")
    for s in draw_sites:
        fm = path_formula(s, atomize, drop_validation=True)
        rc.ob(f"draw {norm(s.node, 60)} under {show_formula(fm)}")
        if not implies(fm, Not(A("is_evidence")), extra_atoms=("is_evidence",))[0]:
            rc.fail(f, s.node, "evidence nodes must be fixed, not sampled", construct="draw condition")
    ev_w = Or(*[path_formula(s, atomize, drop_validation=True) for s in w_sites]) if w_sites else ("const", False)
    ok, cx, _ = implies(A("is_evidence"), ev_w, extra_atoms=("is_evidence", "has_parents"))
    if not ok:
        rc.fail(f, f.node, f"some evidence nodes never contribute to the weight (e.g. {cx})", construct="weight coverage")
    ev_f = Or(*[path_formula(s, atomize, drop_validation=True) for s in fix_sites]) if fix_sites else ("const", False)
    if not implies(A("is_evidence"), ev_f, extra_atoms=("is_evidence", "has_parents"))[0]:
        rc.fail(f, f.node, "every evidence node must be fixed to its evidence value", construct="fix coverage")
    init = [n for n in walk_no_nested(f.node) if isinstance(n, ast.Assign) and "_weight" in norm(n.targets[0]) and "ones(size)" in norm(n.value)]
    if not init:
        rc.fail(f, f.node, "weights start at 1", construct="weight init")
    # the weight factor of a node with parents is the evidence state's entry of that row's conditional
    for s in w_sites:
        if any(isinstance(tt, ast.Name) and tt.id in par_names and pol for tt, pol in s.conds):
            okw = any(tm.is_(s.node.value, "np.array(list(map(lambda _i: _IW[_WI[_i]][_EV], range(size))))", {"_EV": ev}) is not None for ev in ev_vals) or \
                tm.is_(s.node.value, "np.array(list(map(lambda _i: _IW[_WI[_i]][_ED[_n]], range(size))))", {"_ED": ED, "_n": NODE}) is not None
            if not okw:
                rc.fail(f, s.node, "the weight factor must be P(evidence value | that sample's parent configuration)", construct="weight factor")
    # rejection sampling
    r = repo.func(SP, "BayesianModelSampling.rejection_sample")
    txt = norm(r.node, 100000)
    filt = [n for n in walk_no_nested(r.node) if isinstance(n, ast.For) and norm(n.iter) == "evidence"]
    okf = any(tm.is_(n, "for _v, _s in evidence:\n    _X = _X[_X[_v] == _s]") is not None for n in filt)
    rc.ob(f"rejection_sample keeps only rows matching every evidence pair: {okf}")
    if not okf:
        rc.fail(r, r.node, "rejection sampling must keep exactly the rows that agree with every evidence pair", construct="rejection filter")
    if ".iloc[:size, :]" not in txt and ".iloc[:size]" not in txt and ".head(size)" not in txt:
        rc.fail(r, r.node, "exactly `size` rows must be returned", construct="rejection truncate")
    wl = [n for n in walk_no_nested(r.node) if isinstance(n, ast.While)]
    bw = tm.is_(wl[0].test, "_i < size") if wl else None
    if bw is None or not tm.has(wl[0], "_i += _X.shape[0]", bw):
        rc.fail(r, r.node, "sampling continues until `size` accepted rows exist", construct="rejection loop")
    inner = [c for c in calls_named(r, "forward_sample") if any(isinstance(p, ast.While) for p in _parents(c))]
    for c in inner:
        il = kwarg(c, "include_latents")
        if not (isinstance(il, ast.Constant) and il.value is True):
            rc.fail(r, c, "candidate rows must include latent columns (evidence may be on a latent; they are dropped at the end)", construct="rejection inner latents")
    # names on return
    for q in ("BayesianModelSampling.forward_sample", "BayesianModelSampling.likelihood_weighted_sample"):
        g = repo.func(SP, q)
        rs = [c for c in calls_named(g, "_return_samples")]
        ok = rs and len(rs[0].args) == 2 and norm(rs[0].args[1]) == "self.state_names_map"
        rc.ob(f"{q}: state numbers mapped to names on return: {bool(ok)}")
        if not ok:
            rc.fail(g, g.node, "sampled state numbers must be mapped to the model's state names", construct=f"{q} names")
        sz = [c for c in repo.calls_in(g) if call_name(c) in ("sample_discrete", "sample_discrete_maps")]
        for c in sz:
            last = c.args[-1] if c.args else None
            if dotted(last) != "size" and dotted(kwarg(c, "size")) != "size":
                rc.fail(g, c, "every column must be drawn with the requested number of rows", construct=f"{q} size")
        topo = [n for n in walk_no_nested(g.node) if isinstance(n, ast.Assign) and "self.topological_order" in norm(n.value)]
        if not topo:
            rc.fail(g, g.node, "nodes must be sampled in topological order (parents first)", construct=f"{q} order")
    # Gibbs kernels: the configuration tuple enumerates `other_vars`; it must be zipped with that very list
    for q in ("GibbsSampling._get_kernel_from_bayesian_model", "GibbsSampling._get_kernel_from_markov_model"):
        k = repo.func(SP, q)
        d = {n.targets[0].id: n.value for n in walk_no_nested(k.node) if isinstance(n, ast.Assign) and isinstance(n.targets[0], ast.Name)}
        prods = [n for n in walk_no_nested(k.node) if isinstance(n, ast.For) and isinstance(n.iter, ast.Call) and call_name(n.iter) == "product"]
        for lp in prods:
            tupv = dotted(lp.target)
            gen = lp.iter.args[0].value if lp.iter.args and isinstance(lp.iter.args[0], ast.Starred) else None
            cards = dotted(gen.generators[0].iter) if isinstance(gen, (ast.ListComp, ast.GeneratorExp)) else None
            base = None
            cd = d.get(cards)
            if isinstance(cd, ast.ListComp):
                base = dotted(cd.generators[0].iter)
            zips = [c for c in ast.walk(lp) if isinstance(c, ast.Call) and call_name(c) == "zip" and any(dotted(a) == tupv for a in c.args)]
            for z in zips:
                other = [dotted(a) for a in z.args if dotted(a) != tupv]
                rc.ob(f"{q}: configuration tuple `{tupv}` enumerates `{base}`; zipped with {other}")
                if base is None or other != [base]:
                    rc.fail(k, z, f"{q}: the configuration tuple enumerates the states of `{base}` position by position but is zipped with `{other}`: "
                            f"variables are reduced at other variables' states", construct=f"{q} zip misaligned")
            if not zips:
                rc.fail(k, lp, f"{q}: cannot find where the configuration tuple is paired with the variables", construct=f"{q} zip")
    # weight adjustment: the rounding slack goes to an entry that already has positive mass (the arg-max), never to a fixed position —
    # a fixed position may hold probability 0, and the slack would make that state sampleable
    aw = repo.func("pgmpy/utils/mathext.py", "_adjusted_weights")
    W = aw.params[0]
    adj = [n for n in walk_no_nested(aw.node) if isinstance(n, ast.AugAssign) and isinstance(n.target, ast.Subscript) and dotted(n.target.value) == W]
    if not adj:
        raise AnalysisError("_adjusted_weights: adjustment site not found")
    for n in adj:
        ix = n.target.slice
        okix = isinstance(ix, ast.Call) and call_name(ix) in ("argmax", "nanargmax") and any(dotted(a) == W for a in list(ix.args) + ([ix.func.value] if isinstance(ix.func, ast.Attribute) else []))
        rc.ob(f"_adjusted_weights: slack added at {norm(ix)} (arg-max of the weights: {okix})")
        if not okix:
            rc.fail(aw, n, f"_adjusted_weights adds the rounding slack at the fixed position `{norm(ix)}`: if that state has probability 0 it becomes sampleable "
                    "(zero-probability states must never occur); the slack belongs to the arg-max entry", construct="adjusted weights slack position")
    rs = repo.module(SB).functions["_return_samples"]
    if not tm.has(rs.node, "_S[_v] = _S[_v].map(_M[_v])", {"_S": rs.params[0], "_M": rs.params[1]}):
        rc.fail(rs, rs.node, "each column is mapped through its own variable's number->name table", construct="_return_samples")
    # Gibbs kernels
    for q in ("GibbsSampling._get_kernel_from_bayesian_model", "GibbsSampling._get_kernel_from_markov_model"):
        k = repo.func(SP, q)
        okk = False
        okf = oks = False
        for lp in [n for n in walk_no_nested(k.node) if isinstance(n, ast.For) and tm.is_(n.iter, "self.variables") is not None and isinstance(n.target, ast.Name)]:
            VAR = lp.target.id
            from ..util import deep_resolve as _dr
            loc = {}
            for x in ast.walk(lp):
                if isinstance(x, ast.Assign) and len(x.targets) == 1 and isinstance(x.targets[0], ast.Name):
                    loc.setdefault(x.targets[0].id, []).append(x.value)
            loc1 = {k_: v_[0] for k_, v_ in loc.items() if len(v_) == 1}
            for n_, b_ in tm.find_all(lp, "_K[_t] = _RF.values / sum(_RF.values)"):
                _, b2 = tm.find(lp, "_RF = _F.reduce(__ST, inplace=False)", b_)
                if b2 is None:
                    continue
                okk = True
                F = b2["_F"]
                fdef = _dr(loc1.get(F), {k_: v_ for k_, v_ in loc1.items() if k_ != F}) if F in loc1 else None
                # all factors that mention the variable
                if fdef is not None and tm.is_(fdef, "factor_product(*[_c.to_factor() for _c in model.cpds if _v in _c.scope()])", {"_v": VAR}) is not None:
                    okf = True
                b3 = tm.is_(fdef, "_FD[_v]", {"_v": VAR}) if fdef is not None else None
                if b3 is not None:
                    for l2 in [x for x in walk_no_nested(k.node) if isinstance(x, ast.For)]:
                        b4 = tm.is_(l2, "for _f in model.get_factors():\n    for _w in _f.scope():\n        _FD[_w].append(_f)", {"_FD": b3["_FD"]})
                        if b4 is not None:
                            okf = True
                st = _dr(b2["__ST"], {k_: v_ for k_, v_ in loc1.items() if k_ != F})
                b5 = tm.is_(st, "[State(_a, _F.no_to_name[_a][_s]) for _a, _s in zip(__OV, _t) if _a in __SC]", {"_t": b_["_t"], "_F": F})
                if b5 is not None and tm.is_(_dr(b5["__SC"], {k_: v_ for k_, v_ in loc1.items() if k_ != F}), "set(_F.scope())", {"_F": F}) is not None:
                    oks = True
        rc.ob(f"{q}: kernel rows normalised, factor reduced out of place: {okk}; all factors of the variable {okf}; reduced inside scope {oks}")
        if not okk:
            rc.fail(k, k.node, "each kernel row must be the reduced factor normalised to one (and the model's factors untouched)", construct=f"{q} kernel")
        if not okf:
            rc.fail(k, k.node, "the kernel of a variable must multiply ALL factors that mention it", construct=f"{q} factors")
        if not oks:
            rc.fail(k, k.node, "only the other variables inside the factor's scope may be reduced", construct=f"{q} reduce scope")

def _parents(n):
    p = getattr(n, "_parent", None)
    while p is not None:
        yield p
        p = getattr(p, "_parent", None)


_GS = "        if seed is not None:\n            np.random.seed(seed)\n\n        if start_state is None and self.state is None:\n            self.state = self.random_state()\n        elif start_state is not None:\n            self.set_start_state(start_state)\n\n        types ="


@rule("C07.states", "samplers hand state NUMBERS only to number-taking code: no number reaches a name-taking sink, no name-or-number fallback", floor=2)
def states(rc):
    from . import shared as _sh
    _sh.state_domain_rule(rc, ("pgmpy/sampling/",))
    # the table that `_return_samples(T, state_names_map)` maps from state NUMBERS to state names at the end: every column stored into T holds numbers.  A column
    # taken from a caller's data frame (state names, e.g. `partial_samples`) must be translated with name_to_no / get_state_no first — otherwise the final
    # number->name mapping turns the given names into NaN and the children are sampled from columns indexed by names.
    repo = rc.repo
    n_tab = 0
    for f in repo.all_functions():
        if not f.file.startswith("pgmpy/sampling/") or f.cls is None:
            continue
        tabs = {norm(c.args[0]) for c in repo.calls_in(f) if call_name(c) == "_return_samples" and len(c.args) + len(c.keywords) >= 2 and isinstance(c.args[0], ast.Name)}  # with a number->name map (discrete samplers)
        if not tabs:
            continue
        params = set(f.params[1:]) - {"size", "seed", "show_progress", "include_latents", "n_jobs"}
        for st in walk_no_nested(f.node):
            if not (isinstance(st, ast.Assign) and isinstance(st.targets[0], ast.Subscript) and norm(st.targets[0].value) in tabs):
                continue
            n_tab += 1
            used = {x.id for x in ast.walk(st.value) if isinstance(x, ast.Name)} & params
            def _is_tr(e):
                return any((isinstance(x, ast.Attribute) and x.attr == "name_to_no") or (isinstance(x, ast.Call) and call_name(x) == "get_state_no") for x in ast.walk(e))
            local_maps = {t.targets[0].id for t in walk_no_nested(f.node) if isinstance(t, ast.Assign) and isinstance(t.targets[0], ast.Name) and _is_tr(t.value)}
            # translated: the caller's values are looked up in a name->number map (directly or through a local bound to one)
            translated = _is_tr(st.value) or any(isinstance(x, ast.Subscript) and isinstance(x.value, ast.Name) and x.value.id in local_maps for x in ast.walk(st.value))
            rc.ob(f"{f.qual}: column store `{norm(st, 70)}`: caller data {sorted(used) or 'none'}{', translated to numbers' if used and translated else ''}")
            if used and not translated:
                rc.fail(f, st, f"{f.qual}: `{norm(st, 70)}` stores the caller's values ({', '.join(sorted(used))}: state NAMES) into the table of state NUMBERS that "
                        "`_return_samples` maps back to names: the given column comes back as NaN and children are sampled from CPD columns indexed by names",
                        construct=f"{f.qual} caller names stored as numbers")
    if n_tab < 4:
        raise AnalysisError(f"C07.states: expected the column stores of forward and likelihood-weighted sampling, found {n_tab}")


@rule("C07.defuse", "anchored files: no parameter is accepted and ignored (generic def-use detector, triaged exemptions)", floor=2)
def defuse(rc):
    from . import shared as _sh
    _sh.defuse_rule(rc, _sh.anchor_files("C07"))

MUTANTS = [
    dict(kind="break", name="simulate-returns-helper-columns", file=BN, expect="C07.latents",
         old="            return samples.loc[\n                :, [col for col in samples.columns if col in self.nodes()]\n            ].astype(\"category\")", new="            return samples.astype(\"category\")"),
    dict(kind="break", name="partial-samples-names-stored-as-numbers", file=SP, expect="C07.states",
         old="                name_to_no = self.model.get_cpds(node).name_to_no[node]\n                sampled[node] = [\n                    name_to_no[state] for state in partial_samples.loc[:, node].values\n                ]\n",
         new="                sampled[node] = partial_samples.loc[:, node].values\n"),
    dict(kind="twin", name="partial-samples-translated-by-get-state-no", file=SP,
         old="                name_to_no = self.model.get_cpds(node).name_to_no[node]\n                sampled[node] = [\n                    name_to_no[state] for state in partial_samples.loc[:, node].values\n                ]\n",
         new="                sampled[node] = [self.model.get_cpds(node).get_state_no(node, state) for state in partial_samples.loc[:, node].values]\n"),
    dict(kind="break", name="gibbs-kernel-state-number-as-name", file=SP, expect="C07.states",
         old="                    State(v, factor.no_to_name[v][s])\n", new="                    State(v, s)\n"),
    dict(kind="break", name="reduce-marg-name-or-number-fallback", file=SB, expect="C07.states",
         old="        values = [int(state_no) for state_no in sc]\n", new="        try:\n            values = [variable_cpd.get_state_no(variable_evid[i], sc[i]) for i in range(len(sc))]\n        except KeyError:\n            values = sc\n"),
    dict(kind="break", name="slack-added-to-last-state", file="pgmpy/utils/mathext.py", expect="C07.weights",
         old="        weights[compat_fns.argmax(weights)] += error", new="        weights[-1] += error"),
    dict(kind="break", name="gibbs-seed-after-start-state", file=SP, expect="C07.seed",
         old=_GS, new="        if start_state is None and self.state is None:\n            self.state = self.random_state()\n        elif start_state is not None:\n            self.set_start_state(start_state)\n\n        if seed is not None:\n            np.random.seed(seed)\n\n        types ="),
    dict(kind="break", name="generate-sample-filter-by-index", file=SP, expect="C07.latents",
         old="yield [s for s in self.state if s.var not in self.latents]", new="yield [s for s in self.state if i not in self.latents]"),
    dict(kind="break", name="forward-drop-polarity", file=SP, expect="C07.latents",
         old="        samples_df = _return_samples(sampled, self.state_names_map)\n        if not include_latents:\n            samples_df.drop(self.model.latents, axis=1, inplace=True)\n        return samples_df\n\n    def rejection_sample",
         new="        samples_df = _return_samples(sampled, self.state_names_map)\n        if include_latents:\n            samples_df.drop(self.model.latents, axis=1, inplace=True)\n        return samples_df\n\n    def rejection_sample"),
    dict(kind="break", name="rejection-empty-evidence-forgets-latents", file=SP, expect="C07.latents",
         old="return self.forward_sample(size=size, include_latents=include_latents)", new="return self.forward_sample(size=size)"),
    dict(kind="break", name="lw-seed-dropped", file=SP, expect="C07.seed",
         old="        if seed is not None:\n            np.random.seed(seed)\n\n        # Convert evidence state names to number", new="        # Convert evidence state names to number"),
    dict(kind="break", name="simulate-forgets-seed", file=BN, expect="C07.seed",
         old="                include_latents=include_latents,\n                seed=seed,\n                show_progress=show_progress,\n                partial_samples=partial_samples,\n            )\n\n        # Step 4",
         new="                include_latents=include_latents,\n                show_progress=show_progress,\n                partial_samples=partial_samples,\n            )\n\n        # Step 4"),
    dict(kind="break", name="lw-reduce-maps-other-order", file=SP, expect="C07.pairing",
         old="                state_to_index, index_to_weight = self.pre_compute_reduce_maps(\n                    variable=node, evidence=evidence, state_combinations=unique\n                )\n                weight_index = np.array([state_to_index[tuple(u)] for u in unique])[",
         new="                state_to_index, index_to_weight = self.pre_compute_reduce_maps(\n                    variable=node, evidence=cpd.variables[1:], state_combinations=unique\n                )\n                weight_index = np.array([state_to_index[tuple(u)] for u in unique])["),
    dict(kind="break", name="lw-weights-all-nodes", file=SP, expect="C07.weights",
         old="                if node in evidence_dict:\n                    sampled[node] = evidence_dict[node]\n                    sampled.loc[:, \"_weight\"] *= np.array(",
         new="                if True:\n                    sampled[node] = evidence_dict.get(node, 0)\n                    sampled.loc[:, \"_weight\"] *= np.array("),
    dict(kind="break", name="rejection-no-truncate", file=SP, expect="C07.weights",
         old="            sampled = pd.concat([sampled, _sampled], axis=0, join=\"outer\").iloc[\n                :size, :\n            ]", new="            sampled = pd.concat([sampled, _sampled], axis=0, join=\"outer\")"),
    dict(kind="break", name="gibbs-kernel-unnormalised", file=SP, expect="C07.weights",
         old="                kernel[tup] = reduced_factor.values / sum(reduced_factor.values)\n            self.transition_models[var] = kernel\n\n    def _get_kernel_from_markov_model",
         new="                kernel[tup] = reduced_factor.values\n            self.transition_models[var] = kernel\n\n    def _get_kernel_from_markov_model"),
    dict(kind="break", name="gibbs-zip-with-blanket-only", file=SP, expect="C07.weights",
         old="                    State(v, factor.no_to_name[v][s])\n                    for v, s in zip(other_vars, tup)\n                    if v in scope\n",
         new="                    State(v, factor.no_to_name[v][s])\n                    for v, s in zip([w for w in other_vars if w in scope], tup)\n"),
    dict(kind="twin", name="forward-drop-columns-kw", file=SP,
         old="        samples_df = _return_samples(sampled, self.state_names_map)\n        if not include_latents:\n            samples_df.drop(self.model.latents, axis=1, inplace=True)\n        return samples_df\n\n    def rejection_sample",
         new="        samples_df = _return_samples(sampled, self.state_names_map)\n        if include_latents:\n            return samples_df\n        samples_df.drop(self.model.latents, axis=1, inplace=True)\n        return samples_df\n\n    def rejection_sample"),
]
