"""C19 — conditional-independence tests compute the statistic they document."""
from __future__ import annotations

import ast

from ..core import AnalysisError, call_name, dotted, kwarg, norm, walk_no_nested, has_starstar
from ..guards import A, And, Not, Or, T, equivalent, implies, path_formula, show_formula, sites
from ..registry import describe, rule
from .. import tmatch as tm
from ..util import calls_named, peel, returns_of, const_str

CI = "pgmpy/estimators/CITests.py"
PCF = "pgmpy/estimators/PC.py"

describe(
    "C19",
    "each named power-divergence wrapper selects the documented lambda_ and forwards X, Y, Z, data, boolean and the keyword "
    "arguments by name; both contingency-test call sites receive that lambda_; the registry maps each test name to the function "
    "of that name; on the boolean path every test returns p_value >= significance_level (decided as a truth table over the "
    "comparison); the stratified test pools statistic and degrees of freedom under the same path condition from positions 0 and 2 of "
    "the per-stratum result and computes the p-value from both; the contingency table index (x*ny + y) agrees with its reshape "
    "(nx, ny); X/Y in Z is rejected; partial correlation pairs each variable with its own regression coefficients and correlates "
    "the two residuals, and the coefficient / p-value names are only ever bound to the Pearson test's output (no literal behind a "
    "data-dependent guard); lambda_ is never tested by truthiness (0 is the G-test).",
    ["the numeric value of statistics and p-values", "shift/scale invariance of the partial-correlation test (the regression has no intercept: "
     "a real shift-invariance defect that no structural rule here can see)", "symmetry in X and Y as a numeric identity"],
)

LAMBDA = {"chi_square": "pearson", "g_sq": "log-likelihood", "log_likelihood": "log-likelihood", "modified_log_likelihood": "mod-log-likelihood"}
OPTIONAL_LAMBDA = {"freeman_tuckey": "freeman-tukey", "neyman": "neyman", "cressie_read": "cressie-read"}


@rule("C19.lambda", "wrapper -> lambda_ table, argument forwarding, registry name -> function of that name", floor=6)
def lambda_(rc):
    repo = rc.repo
    mod = repo.module(CI)
    for name, lam in {**LAMBDA, **OPTIONAL_LAMBDA}.items():
        fi = mod.functions.get(name)
        if fi is None:
            if name in LAMBDA:
                raise AnalysisError(f"CI test {name} vanished")
            continue
        rets = returns_of(fi)
        calls = [r.value for r in rets if isinstance(r.value, ast.Call) and call_name(r.value) == "power_divergence"]
        if len(calls) != 1 or len(rets) != 1:
            rc.fail(fi, fi.node, f"{name} must return power_divergence(...)", construct=f"{name} delegate")
            continue
        c = calls[0]
        pd = mod.functions["power_divergence"]
        formal = pd.params
        got = {}
        for i, a in enumerate(c.args):
            got[formal[i]] = a
        for k in c.keywords:
            if k.arg:
                got[k.arg] = k.value
        lam_got = const_str(got.get("lambda_")) if "lambda_" in got else None
        rc.ob(f"{name} -> power_divergence(lambda_={lam_got!r})")
        if lam_got != lam:
            rc.fail(fi, c, f"{name} must use the {lam!r} statistic; it passes lambda_={lam_got!r}", construct=f"{name} lambda_")
        for p in ("X", "Y", "Z", "data", "boolean"):
            if dotted(got.get(p)) != p:
                rc.fail(fi, c, f"{name} must forward {p} unchanged (got {norm(got[p]) if p in got else None})", construct=f"{name} forward {p}")
        if not has_starstar(c):
            rc.fail(fi, c, f"{name} must forward **kwargs (significance_level travels there)", construct=f"{name} kwargs")
    pd = mod.functions["power_divergence"]
    d = pd.param_default("lambda_")
    rc.ob(f"power_divergence default lambda_={const_str(d)!r}")
    okdef = const_str(d) == "cressie-read"
    if not okdef and isinstance(d, ast.Constant) and d.value is None:
        # a None default is the same default when it is replaced under an `is None` test
        for s_ in sites(pd.node, lambda n: isinstance(n, ast.Assign) and dotted(n.targets[0]) == "lambda_" and const_str(n.value) == "cressie-read"):
            if any(pol and isinstance(t, ast.Compare) and dotted(t.left) == "lambda_" and isinstance(t.ops[0], ast.Is) and isinstance(t.comparators[0], ast.Constant) and t.comparators[0].value is None
                   for t, pol in s_.conds):
                okdef = True
    if not okdef:
        rc.fail(pd, pd.node, "power_divergence defaults to the Cressie-Read statistic", construct="default lambda_")
    # lambda_ = 0 (the G-test) is a legitimate numeric value: it must never be tested by truthiness
    def _leaves(t):
        if isinstance(t, ast.BoolOp):
            for v in t.values:
                yield from _leaves(v)
        elif isinstance(t, ast.UnaryOp) and isinstance(t.op, ast.Not):
            yield from _leaves(t.operand)
        else:
            yield t
    for n in walk_no_nested(pd.node):
        tests = [n.test] if isinstance(n, (ast.If, ast.IfExp, ast.While)) else ([n] if isinstance(n, ast.BoolOp) else [])
        for t in tests:
            if any(dotted(x) == "lambda_" for x in _leaves(t)):
                rc.fail(pd, n, "`lambda_` is tested by truthiness: the numeric value 0 (the documented G-test) is silently replaced by another statistic", construct="lambda_ truthiness")
                break
    cc = calls_named(pd, "chi2_contingency")
    for c in cc:
        rc.ob(f"contingency test call {norm(c, 70)}")
        if dotted(kwarg(c, "lambda_")) != "lambda_":
            rc.fail(pd, c, "the contingency test must be computed with the requested lambda_")
    if len(cc) < 2:
        rc.fail(pd, pd.node, "both the unconditional and the stratified branch must run the contingency test", construct="contingency calls")
    # registry
    pc = repo.module(PCF)
    tbl = None
    for n in pc.tree.body:
        if isinstance(n, ast.Assign) and dotted(n.targets[0]) == "CI_TESTS" and isinstance(n.value, ast.Dict):
            tbl = n
    if tbl is None:
        raise AnalysisError("CI_TESTS registry vanished")
    alias = {"pillai": "pillai_trace"}
    for k, v in zip(tbl.value.keys, tbl.value.values):
        ks, vs = const_str(k), dotted(v)
        rc.ob(f"CI_TESTS[{ks!r}] = {vs}")
        if alias.get(ks, ks) != vs:
            rc.fail(None, tbl, f"CI_TESTS maps {ks!r} to {vs}", construct=f"CI_TESTS {ks}->{vs}", file=PCF, func="CI_TESTS")
        if vs not in mod.functions:
            rc.fail(None, tbl, f"CI_TESTS[{ks!r}] names a function that does not exist", construct=f"CI_TESTS {ks} missing", file=PCF, func="CI_TESTS")
    for need in list(LAMBDA) + ["pearsonr", "independence_match", "power_divergence"]:
        if need not in [const_str(k) for k in tbl.value.keys]:
            rc.fail(None, tbl, f"CI test {need!r} is no longer selectable by name", construct=f"CI_TESTS lacks {need}", file=PCF, func="CI_TESTS")


@rule("C19.verdict", "boolean verdict == (p_value >= significance_level) in every test", floor=3)
def verdict(rc):
    repo = rc.repo
    mod = repo.module(CI)
    for name in ("power_divergence", "pearsonr", "pillai_trace"):
        fi = mod.functions.get(name)
        if fi is None:
            raise AnalysisError(f"{name} vanished")

        # the p-value is whatever the non-boolean result reports in position 1
        tup = [r.value for r in returns_of(fi) if isinstance(r.value, ast.Tuple) and len(r.value.elts) >= 2]
        if not tup or dotted(tup[0].elts[1]) is None:
            raise AnalysisError(f"{name}: cannot identify the p-value (non-boolean result tuple not found)")
        pname = dotted(tup[0].elts[1])

        def _cmp(e, pname=pname):
            return _cmp_p(e, pname)

        def atomize(e):
            if dotted(e) == "boolean":
                return A("boolean")
            r = _cmp(e)
            if r is not None:
                return r
            return None

        true_f, false_f = [], []
        n_ret = 0
        for s in sites(fi.node, lambda n: isinstance(n, ast.Return)):
            f = path_formula(s, atomize, drop_validation=True)
            if not implies(f, A("boolean"))[0]:
                continue
            v = s.node.value
            n_ret += 1
            if isinstance(v, ast.Constant) and v.value is True:
                true_f.append(f)
            elif isinstance(v, ast.Constant) and v.value is False:
                false_f.append(f)
            else:
                r = _cmp(v)
                if r is None:
                    rc.fail(fi, s.node, f"{name}: boolean result is not a comparison of the p-value with the significance level")
                    continue
                true_f.append(And(f, r))
                false_f.append(And(f, Not(r)))
        tf = Or(*true_f) if true_f else ("const", False)
        rc.ob(f"{name}: returns True under {show_formula(tf)}")
        ok, cx, rows = equivalent(tf, And(A("boolean"), A("p>=alpha")), extra_atoms=("boolean", "p>=alpha"))
        rc.report.rows += rows
        opaque = [a for a in _atoms(tf) if str(a).startswith("?")]
        if opaque or not ok:
            rc.fail(fi, fi.node, f"{name}: the boolean verdict must be exactly p_value >= significance_level; it is {show_formula(tf)}", construct=f"{name} verdict")
    rc.report.exhaustive = True


def _atoms(f):
    from ..guards import atoms_of
    return atoms_of(f)


def _is_sig(e):
    return (isinstance(e, ast.Subscript) and const_str(e.slice) == "significance_level") or dotted(e) == "significance_level" \
        or (isinstance(e, ast.Call) and call_name(e) == "get" and e.args and const_str(e.args[0]) == "significance_level")


def _cmp_p(e, pname):
    if isinstance(e, ast.Compare) and len(e.ops) == 1:
        l, o, r = e.left, e.ops[0], e.comparators[0]
        if dotted(l) == pname and _is_sig(r):
            pass
        elif dotted(r) == pname and _is_sig(l):
            o = {ast.Gt: ast.Lt, ast.GtE: ast.LtE, ast.Lt: ast.Gt, ast.LtE: ast.GtE}.get(type(o), type(o))()
        else:
            return None
        if isinstance(o, ast.GtE):
            return A("p>=alpha")
        if isinstance(o, ast.Lt):
            return Not(A("p>=alpha"))
        return A("?" + norm(e))
    return None


@rule("C19.pooled", "stratified test: statistic and dof pooled together from positions 0/2, p-value from both; table layout; argument checks", floor=6)
def pooled(rc):
    repo = rc.repo
    fi = repo.module(CI).functions["power_divergence"]
    fn = fi.node
    # accumulators
    augs = [s for s in sites(fn, lambda n: False)]
    acc_sites = []
    for s in sites(fn, lambda n: isinstance(n, ast.Call) and call_name(n) == "chi2_contingency"):
        st = s.stmt
        if isinstance(st, ast.Assign) and isinstance(st.targets[0], ast.Tuple):
            names = [dotted(x) for x in st.targets[0].elts]
            rc.ob(f"contingency result unpack {names}")
            if len(names) != 4:
                rc.fail(fi, st, "chi2_contingency returns (statistic, p, dof, expected)")
                continue
            acc_sites.append((s, names))
    if len(acc_sites) != 2:
        raise AnalysisError("power_divergence: expected two contingency-test sites")
    # unconditional branch: names 0 -> chi, 1 -> p_value, 2 -> dof
    uncond = [x for x in acc_sites if not x[0].loops]
    strat = [x for x in acc_sites if x[0].loops]
    if len(uncond) != 1 or len(strat) != 1:
        raise AnalysisError("power_divergence: cannot tell the unconditional from the stratified branch")
    rets = [r for r in returns_of(fi) if isinstance(r.value, ast.Tuple)]
    if not rets:
        raise AnalysisError("power_divergence: no tuple return")
    out = [dotted(x) for x in rets[0].value.elts]
    rc.ob(f"non-boolean result {out}")
    if len(out) != 3:
        rc.fail(fi, rets[0], "result must be (statistic, p_value, dof)")
        return
    chi, pv, dof = out
    # both branches build their table from the OBSERVED levels only: the stratified branch uses np.unique per stratum; the unconditional branch groups the frame —
    # with observed=False a categorical column that carries an unobserved category contributes an all-zero row and chi2_contingency raises
    gb = [c for c in ast.walk(uncond[0][0].node) if isinstance(c, ast.Call) and call_name(c) == "groupby"]
    for c in gb:
        ob = kwarg(c, "observed")
        rc.ob(f"unconditional table: {norm(c, 70)}")
        if isinstance(ob, ast.Constant) and ob.value is False:
            rc.fail(fi, c, "the unconditional test tabulates every declared category (observed=False): a categorical column with an unobserved category gives an all-zero row "
                    "and scipy raises, while the stratified branch of the same function counts observed levels only", construct="unconditional table counts unobserved categories")
    un = uncond[0][1]
    if not (un[0] == chi and un[1] == pv and un[2] == dof):
        rc.fail(fi, uncond[0][0].stmt, f"unconditional test must bind (statistic, p_value, dof) = positions 0, 1, 2; found {un}")
    s, names = strat[0]
    c_name, d_name = names[0], names[2]
    loop = None
    n = s.node
    while n is not None and not isinstance(n, ast.For):
        n = getattr(n, "_parent", None)
    loop = n
    adds = {}
    for s2 in sites(fn, lambda n: isinstance(n, ast.AugAssign)):
        pass
    for n2 in ast.walk(loop):
        if isinstance(n2, ast.AugAssign) and isinstance(n2.op, ast.Add):
            adds[dotted(n2.target)] = n2
    rc.ob(f"stratum accumulations {[norm(v) for v in adds.values()]}")
    ok = chi in adds and dof in adds and dotted(adds[chi].value) == c_name and dotted(adds[dof].value) == d_name
    if not ok:
        rc.fail(fi, loop, f"each informative stratum must add its statistic (position 0) to {chi} and its dof (position 2) to {dof}", construct="pooled accumulation")
    else:
        # same block => same path condition
        if getattr(adds[chi], "_parent", None) is not getattr(adds[dof], "_parent", None):
            rc.fail(fi, adds[dof], "statistic and dof must be pooled under the same condition", construct="pooled condition")
        # skipping rule: only strata with an all-zero row/column are skipped
        blk = getattr(adds[chi], "_parent", None)
        if isinstance(blk, ast.If):
            t = norm(blk.test)
            in_else = any(x is adds[chi] for x in blk.orelse)
            rc.ob(f"strata are skipped when {t}" if in_else else f"strata are pooled when {t}")
            if in_else and not ("sum(axis=0) == 0" in t and "sum(axis=1) == 0" in t and isinstance(blk.test, ast.BoolOp) and isinstance(blk.test.op, ast.Or)):
                rc.fail(fi, blk, "a stratum may be skipped only if a row or a column of its table is empty", construct="skip condition")
    # inits
    inits = {dotted(n.targets[0]): n.value for n in walk_no_nested(fn) if isinstance(n, ast.Assign) and dotted(n.targets[0]) in (chi, dof) and isinstance(n.value, ast.Constant)}
    if not (chi in inits and dof in inits and inits[chi].value == 0 and inits[dof].value == 0):
        rc.fail(fi, fn, "pooled statistic and dof must start from 0", construct="pooled init")
    # p-value from both
    pas = [n for n in walk_no_nested(fn) if isinstance(n, ast.Assign) and dotted(n.targets[0]) == pv]
    good = False
    guarded0 = False
    for a in pas:
        v = a.value
        t = norm(v)
        rc.ob(f"pooled p-value {t}")
        # degenerate case: every stratum may contribute 0 degrees of freedom (chi = 0, dof = 0); the chi-square tail at df = 0 is nan in scipy, the
        # documented answer is p = 1 ("zero statistic with p-value one on exactly independent tables"): the dof == 0 case must be handled explicitly
        if isinstance(v, ast.IfExp) and any(tm.is_(v.test, t_, {"_d": dof}) is not None for t_ in ("_d == 0", "_d <= 0", "_d < 1", "not _d")) and isinstance(v.body, ast.Constant) and float(v.body.value) == 1.0:
            guarded0 = True
            v = v.orelse
        if isinstance(v, ast.IfExp) and any(tm.is_(v.test, t_, {"_d": dof}) is not None for t_ in ("_d > 0", "_d != 0", "_d >= 1", "_d")) and isinstance(v.orelse, ast.Constant) and float(v.orelse.value) == 1.0:
            guarded0 = True
            v = v.body
        if isinstance(v, ast.BinOp) and isinstance(v.op, ast.Sub) and isinstance(v.left, ast.Constant) and v.left.value == 1 and isinstance(v.right, ast.Call) \
                and norm(v.right.func).endswith("chi2.cdf") and dotted(v.right.args[0]) == chi and dotted(kwarg(v.right, "df") or (v.right.args[1] if len(v.right.args) > 1 else None)) == dof:
            good = True
        if isinstance(v, ast.Call) and norm(v.func).endswith("chi2.sf") and dotted(v.args[0]) == chi and dotted(kwarg(v, "df") or (v.args[1] if len(v.args) > 1 else None)) == dof:
            good = True
    if not good:
        rc.fail(fi, fn, f"the pooled p-value must be the chi-square tail of ({chi}, df={dof})", construct="pooled p-value")
    for s0 in sites(fn, lambda n: isinstance(n, ast.Assign) and dotted(n.targets[0]) == pv and any(isinstance(x, ast.Call) and norm(x.func).endswith(("chi2.cdf", "chi2.sf")) for x in ast.walk(n.value))):
        if any(any(isinstance(x, ast.Name) and x.id == dof for x in ast.walk(t)) for t, pol in s0.conds):
            guarded0 = True
    rc.ob(f"pooled p-value: the dof == 0 case is answered explicitly: {guarded0}")
    if good and not guarded0:
        rc.fail(fi, fn, f"when every stratum has 0 degrees of freedom the pooled test is chi = 0, dof = 0 and the chi-square tail at df = 0 is nan: the boolean verdict `nan >= level` is False "
                "(\"dependent\") exactly where independence holds trivially; the property requires p = 1 on a zero statistic", construct="pooled p-value at dof 0")
    # strata = groups of Z
    src = [it for t, it in s.loops]
    gb = [x for x in src if isinstance(x, ast.Call) and call_name(x) == "groupby"]
    if not gb or dotted(gb[0].args[0]) != "Z":
        rc.fail(fi, loop, "strata must be the groups of the conditioning variables Z", construct="strata")
    # contingency layout
    bc = [c for c in ast.walk(loop) if isinstance(c, ast.Call) and call_name(c) == "bincount"]
    if bc:
        c = bc[0]
        idx = c.args[0]
        resh = getattr(c, "_parent", None)
        resh = getattr(resh, "_parent", None) if isinstance(resh, ast.Attribute) else None
        uniq = {}
        for n2 in ast.walk(loop):
            if isinstance(n2, ast.Assign) and isinstance(n2.targets[0], ast.Tuple) and isinstance(n2.value, ast.Call) and call_name(n2.value) == "unique":
                u, inv = (dotted(x) for x in n2.targets[0].elts)
                col = n2.value.args[0]
                var = dotted(col.slice) if isinstance(col, ast.Subscript) else None
                uniq[var] = (u, inv)
        rc.ob(f"contingency index {norm(idx)} reshape {norm(resh.args) if isinstance(resh, ast.Call) else None}")
        ok = False
        if set(uniq) == {"X", "Y"} and isinstance(idx, ast.BinOp) and isinstance(idx.op, ast.Add) and isinstance(idx.left, ast.BinOp) and isinstance(idx.left.op, ast.Mult):
            row_inv, mult, col_inv = dotted(idx.left.left), norm(idx.left.right), dotted(idx.right)
            inv2var = {v[1]: k for k, v in uniq.items()}
            rv, cv = inv2var.get(row_inv), inv2var.get(col_inv)
            if rv and cv and rv != cv and mult == f"len({uniq[cv][0]})" and isinstance(resh, ast.Call) and call_name(resh) == "reshape":
                dims = [norm(a) for a in resh.args]
                ok = dims == [f"len({uniq[rv][0]})", f"len({uniq[cv][0]})"]
                ml = kwarg(c, "minlength")
                ok = ok and ml is not None and sorted(norm(ml).split(" * ")) == sorted(dims)
        if not ok:
            rc.fail(fi, c, "contingency table: flat index must be row*ncols + col and be reshaped to (nrows, ncols) with minlength nrows*ncols", construct="contingency layout")
    # X or Y in Z rejected
    rs = [s3 for s3 in sites(fn, lambda n: isinstance(n, ast.Raise)) if any("in Z" in norm(t) for t, pol in s3.conds)]
    good = False
    for s3 in rs:
        for t, pol in s3.conds:
            if pol and isinstance(t, ast.BoolOp) and isinstance(t.op, ast.Or) and {norm(v).strip("()") for v in t.values} == {"X in Z", "Y in Z"}:
                good = True
    rc.ob(f"X or Y in Z rejected: {good}")
    if not good:
        rc.fail(fi, fn, "X in Z or Y in Z must be rejected", construct="Z validation")
    # unconditional table: groupby([X, Y]).size().unstack(Y)
    u = uncond[0][0].node
    t = norm(u.args[0], 300)
    if not ("groupby([X, Y]" in t and "unstack(Y" in t):
        rc.fail(fi, u, "the unconditional test must run on the X-by-Y contingency table", construct="unconditional table")


@rule("C19.residuals", "partial correlation: each variable is regressed on Z and paired with its own coefficients; the two residuals are correlated", floor=3)
def residuals(rc):
    repo = rc.repo
    fi = repo.module(CI).functions["pearsonr"]
    fn = fi.node
    defs = {}
    for n in walk_no_nested(fn):
        if isinstance(n, ast.Assign) and isinstance(n.targets[0], ast.Name):
            defs[n.targets[0].id] = n.value

    def col(e):
        # data.loc[:, V] -> V
        if isinstance(e, ast.Subscript) and norm(e.value) == "data.loc" and isinstance(e.slice, ast.Tuple) and len(e.slice.elts) == 2:
            return dotted(e.slice.elts[1])
        if isinstance(e, ast.Subscript) and dotted(e.value) == "data":
            return dotted(e.slice)
        return None

    coefs = {}
    for k, v in defs.items():
        vv = v.value if isinstance(v, ast.Subscript) else v
        if isinstance(vv, ast.Call) and call_name(vv) == "lstsq":
            coefs[k] = (col(vv.args[0]), col(vv.args[1]), isinstance(v, ast.Subscript) and isinstance(v.slice, ast.Constant) and v.slice.value == 0)
    rc.ob(f"regressions {coefs}")
    def coef_info(v):
        vv = v.value if isinstance(v, ast.Subscript) else v
        if isinstance(vv, ast.Call) and call_name(vv) == "lstsq":
            return (col(vv.args[0]), col(vv.args[1]), isinstance(v, ast.Subscript) and isinstance(v.slice, ast.Constant) and v.slice.value == 0)
        return None

    def as_resid(v):
        if isinstance(v, ast.BinOp) and isinstance(v.op, ast.Sub) and col(v.left) and isinstance(v.right, ast.Call) and call_name(v.right) == "dot" and v.right.args:
            ce = v.right.args[0]
            if isinstance(ce, ast.Name):
                cname = ce.id
            else:
                cname = f"<{norm(ce, 50)}>"
                ci_ = coef_info(ce)
                if ci_:
                    coefs[cname] = ci_
            return (col(v.left), col(v.right.func.value), cname)
        return None

    pr = [c for c in calls_named(fi, "pearsonr")]
    resid = {}
    for k, v in defs.items():
        r_ = as_resid(v)
        if r_:
            resid[k] = r_
    # residuals written directly as arguments of the test (no intermediate name)
    inline_args = {}
    for c in pr:
        for a_ in c.args:
            r_ = as_resid(a_)
            if r_:
                key = f"<{norm(a_, 60)}>"
                resid[key] = r_
                inline_args[id(a_)] = key
    rc.ob(f"residuals {resid}")
    good = {}
    for k, (target, design, coef) in resid.items():
        c = coefs.get(coef)
        if c is None or c[0] != "Z" or c[1] != target or design != "Z" or not c[2]:
            rc.fail(fi, fn, f"residual of {target} must be {target} - Z·(least-squares coefficients of {target} on Z); found coefficients {coef} = {c}",
                    construct=f"residual {target}")
        else:
            good[target] = k
    if set(good) != {"X", "Y"}:
        rc.fail(fi, fn, "both X and Y must be residualised on Z", construct="residual pair")
    cond = [c for c in pr if {inline_args.get(id(a), dotted(a)) for a in c.args} == set(good.values())]
    unc = [c for c in pr if {col(a) for a in c.args} == {"X", "Y"}]
    rc.ob(f"correlations: conditional {[norm(c, 90) for c in cond]}, unconditional {[norm(c) for c in unc]}")
    if len(good) == 2 and not cond:
        rc.fail(fi, fn, "the conditional test must correlate the two residuals", construct="correlate residuals")
    if not unc:
        rc.fail(fi, fn, "the unconditional test must correlate X with Y", construct="correlate raw")
    # the conditioning set is the caller's: it is never filtered by a data-dependent test (an absolute threshold on a column's spread breaks invariance to rescaling)
    for n in walk_no_nested(fn):
        if isinstance(n, ast.Assign) and any(dotted(t) == "Z" for t in n.targets):
            v = n.value
            plain = (isinstance(v, ast.Call) and call_name(v) in ("list", "tuple", "sorted") and v.args and dotted(v.args[0]) == "Z") or (isinstance(v, ast.List) and [dotted(x) for x in v.elts] == ["Z"])
            if not plain:
                rc.fail(fi, n, f"`{norm(n, 90)}` re-binds the conditioning set: every variable in Z must be regressed out; dropping some by a data-dependent test (e.g. a spread below an "
                        "absolute threshold) changes the verdict under rescaling of that variable", construct="conditioning set filtered")
    # the statistic and p-value that reach the result come from the Pearson test on every path (no literal substituted under a data-dependent guard)
    res_names = set()
    for n in walk_no_nested(fn):
        if isinstance(n, ast.Assign) and isinstance(n.targets[0], ast.Tuple) and isinstance(n.value, ast.Call) and call_name(n.value) == "pearsonr":
            res_names |= {dotted(x) for x in n.targets[0].elts}
    for n in walk_no_nested(fn):
        if not isinstance(n, (ast.Assign, ast.AugAssign)):
            continue
        tg = n.targets[0] if isinstance(n, ast.Assign) else n.target
        names = {dotted(x) for x in (tg.elts if isinstance(tg, ast.Tuple) else [tg])}
        if names & res_names and not (isinstance(n.value, ast.Call) and call_name(n.value) == "pearsonr"):
            rc.fail(fi, n, f"`{norm(n, 80)}`: the coefficient / p-value of the partial-correlation test is replaced by something other than the Pearson test of the residuals on this path "
                    "(a literal behind a data-dependent guard breaks invariance to rescaling)", construct="pearson result overridden")
    rc.ob(f"pearsonr: result names {sorted(res_names)} are only ever bound to the Pearson test's output")


_PD_BOOL = '    if boolean:\n        return p_value >= kwargs["significance_level"]\n    else:\n        return chi, p_value, dof'


@rule("C19.defuse", "anchored files: no parameter is accepted and ignored (generic def-use detector, triaged exemptions)", floor=2)
def defuse(rc):
    from . import shared as _sh
    _sh.defuse_rule(rc, _sh.anchor_files("C19"))


@rule("C19.data", "preprocess_data (run in front of every estimator, score and CI test) hands on the caller's values: copy, column-wise value-preserving casts", floor=2)
def data_(rc):
    from . import shared as _sh
    _sh.preprocess_rule(rc)


MUTANTS = [
    dict(kind="break", name="unconditional-table-counts-unobserved-categories", file=CI, expect="C19.pooled",
         old="data.groupby([X, Y], observed=True).size().unstack(Y, fill_value=0)", new="data.groupby([X, Y], observed=False).size().unstack(Y, fill_value=0)"),
    dict(kind="break", name="pooled-pvalue-nan-at-dof-zero", file=CI, expect="C19.pooled",
         old="        p_value = 1.0 if dof == 0 else 1 - stats.chi2.cdf(chi, df=dof)", new="        p_value = 1 - stats.chi2.cdf(chi, df=dof)"),
    dict(kind="break", name="lambda-falsy-fallback", file=CI, expect="C19.lambda",
         old='    if (X in Z) or (Y in Z):\n        raise ValueError(\n            f"The variables X or Y can\'t be in Z. Found {X if X in Z else Y} in Z."\n        )\n\n    # Step 2: Do a simple contingency test if there are no conditional variables.',
         new='    if not lambda_:\n        lambda_ = "cressie-read"\n    if (X in Z) or (Y in Z):\n        raise ValueError(\n            f"The variables X or Y can\'t be in Z. Found {X if X in Z else Y} in Z."\n        )\n\n    # Step 2: Do a simple contingency test if there are no conditional variables.'),
    dict(kind="break", name="pearson-constant-residual-shortcut", file=CI, expect="C19.residuals",
         old="        coef, p_value = stats.pearsonr(residual_X, residual_Y)\n", new="        if np.isclose(residual_X.std(), 0):\n            coef, p_value = 0.0, 1.0\n        else:\n            coef, p_value = stats.pearsonr(residual_X, residual_Y)\n"),
    dict(kind="break", name="gsq-uses-pearson", file=CI, expect="C19.lambda",
         old='    return power_divergence(\n        X=X, Y=Y, Z=Z, data=data, boolean=boolean, lambda_="log-likelihood", **kwargs\n    )\n\n\ndef log_likelihood',
         new='    return power_divergence(\n        X=X, Y=Y, Z=Z, data=data, boolean=boolean, lambda_="pearson", **kwargs\n    )\n\n\ndef log_likelihood'),
    dict(kind="break", name="stratified-ignores-lambda", file=CI, expect="C19.lambda",
         old="c, _, d, _ = stats.chi2_contingency(contingency, lambda_=lambda_)", new="c, _, d, _ = stats.chi2_contingency(contingency)"),
    dict(kind="break", name="wrapper-swaps-xy-z", file=CI, expect="C19.lambda",
         old='        X=X,\n        Y=Y,\n        Z=Z,\n        data=data,\n        boolean=boolean,\n        lambda_="mod-log-likelihood",', new='        X=X,\n        Y=Y,\n        Z=Z,\n        data=data,\n        boolean=True,\n        lambda_="mod-log-likelihood",'),
    dict(kind="break", name="verdict-strict", file=CI, expect="C19.verdict",
         old=_PD_BOOL, new=_PD_BOOL.replace("p_value >= kwargs", "p_value > kwargs")),
    dict(kind="break", name="verdict-inverted-pearsonr", file=CI, expect="C19.verdict",
         old='        if p_value >= kwargs["significance_level"]:\n            return True\n        else:\n            return False\n    else:\n        return coef, p_value\n\n\ndef _get_predictions',
         new='        if p_value >= kwargs["significance_level"]:\n            return False\n        else:\n            return True\n    else:\n        return coef, p_value\n\n\ndef _get_predictions'),
    dict(kind="break", name="dof-from-pvalue-slot", file=CI, expect="C19.pooled",
         old="c, _, d, _ = stats.chi2_contingency(contingency, lambda_=lambda_)", new="c, d, _, _ = stats.chi2_contingency(contingency, lambda_=lambda_)"),
    dict(kind="break", name="dof-not-pooled", file=CI, expect="C19.pooled",
         old="                chi += c\n                dof += d\n", new="                chi += c\n                dof = d\n"),
    dict(kind="break", name="contingency-wrong-multiplier", file=CI, expect="C19.pooled",
         old="x_inv * len(unique_y) + y_inv", new="x_inv * len(unique_x) + y_inv"),
    dict(kind="break", name="pvalue-ignores-dof", file=CI, expect="C19.pooled",
         old="p_value = 1.0 if dof == 0 else 1 - stats.chi2.cdf(chi, df=dof)", new="p_value = 1.0 if dof == 0 else 1 - stats.chi2.cdf(chi, df=1)"),
    dict(kind="break", name="residual-y-uses-x-coef", file=CI, expect="C19.residuals",
         old="residual_Y = data.loc[:, Y] - data.loc[:, Z].dot(Y_coef)", new="residual_Y = data.loc[:, Y] - data.loc[:, Z].dot(X_coef)"),
    dict(kind="twin", name="lambda-none-default-is-none-test", file=CI,
         old='def power_divergence(X, Y, Z, data, boolean=True, lambda_="cressie-read", **kwargs):', new='def power_divergence(X, Y, Z, data, boolean=True, lambda_=None, **kwargs):\n    if lambda_ is None:\n        lambda_ = "cressie-read"'),
    dict(kind="twin", name="verdict-as-if", file=CI,
         old=_PD_BOOL, new='    if not boolean:\n        return chi, p_value, dof\n    if kwargs["significance_level"] <= p_value:\n        return True\n    return False'),
    dict(kind="twin", name="pvalue-sf", file=CI,
         old="p_value = 1.0 if dof == 0 else 1 - stats.chi2.cdf(chi, df=dof)", new="p_value = 1.0 if dof == 0 else stats.chi2.sf(chi, df=dof)"),
]
