"""C10 — structure scores equal their published definitions."""
from __future__ import annotations

import ast
import math

from ..core import AnalysisError, call_name, dotted, kwarg, norm, walk_no_nested
from ..guards import sites
from ..registry import describe, rule
from ..symeval import Arr, Lin, ScoreInterp, lg_atom, zero_value
from ..util import calls_named, peel, returns_of, const_str

SS = "pgmpy/estimators/StructureScore.py"
SC = "pgmpy/estimators/ScoreCache.py"

describe(
    "C10",
    "the discrete local scores are evaluated by an abstract interpreter on a symbolic count table: for K2/BDeu/BDs every "
    "sum of lgamma(N + a) over the OBSERVED cells/columns is paired with exactly one -lgamma(a) per observed element and nothing "
    "is left over for dropped (never observed) parent configurations or child states, the Dirichlet hyper-parameters are the "
    "documented ones and consistent (column parameter = cardinality x cell parameter); BIC/AIC are log-likelihood minus the "
    "documented penalty on ALL parent configurations; all discrete scores obtain counts for the given variable/parents and "
    "cardinalities from the declared state names; score() is the sum of local scores over all nodes with their graph parents plus "
    "the structure prior once; the score cache keys on all arguments and forwards them unchanged; name->class tables are exact.",
    ["floating-point values of the scores", "score equivalence of Markov-equivalent DAGs (a numeric identity)", "pandas' counting"],
)

SYMS = [
    dict(q=7.0, o=3.0, r=5.0, r_obs=4.0, n=113.0, ess=11.0),
    dict(q=12.0, o=5.0, r=3.0, r_obs=3.0, n=57.0, ess=13.0),
    dict(q=9.0, o=9.0, r=4.0, r_obs=2.0, n=211.0, ess=3.5),
]

BD = {"K2Score": "k2", "BDeuScore": "bdeu", "BDsScore": "bds"}
LL = {"BicScore": "bic", "AICScore": "aic"}


def _close(a, b):
    return abs(a - b) <= 1e-7 * max(1.0, abs(a), abs(b))


def _match_lg_sum(form, level):
    """('lg', ('+', base, ('k', c))) -> c   where base is N (cell) / colsum N (col)"""
    if form[0] != "lg":
        return None
    inner = form[1]
    if inner[0] != "+":
        return None
    a, b = inner[1], inner[2]
    if a[0] == "k":
        a, b = b, a
    if b[0] != "k":
        return None
    base_ok = a == ("N",) if level == "cell" else a == ("colsum", ("N",))
    return b[1] if base_ok else None


@rule("C10.compensate", "K2/BDeu/BDs: every observed element's lgamma(N+a) is paired with one lgamma(a); dropped configurations/states contribute nothing; hyper-parameters as documented", floor=3)
def compensate(rc):
    repo = rc.repo
    for cname, kind in BD.items():
        fi = repo.func(SS, f"{cname}.local_score")
        first = True
        for syms in SYMS:
            it = ScoreInterp(fi, syms)
            res = it.run()
            if not isinstance(res, Lin):
                raise AnalysisError(f"{cname}.local_score does not return a scalar expression")
            q, o, r, ro, ess = syms["q"], syms["o"], syms["r"], syms["r_obs"], syms["ess"]
            sums = {k: v for k, v in res.terms.items() if k[0] == "sum" and abs(v) > 1e-12}
            lgs = {k[1]: v for k, v in res.terms.items() if k[0] == "lg"}
            if first:
                rc.ob(f"{cname}.local_score = {_show(res)} at q={q:g}, observed columns={o:g}, r={r:g}, observed rows={ro:g}")
            cellc = colc = None
            balance = dict(lgs)
            problems = []
            for (_, level, form), coef in sums.items():
                c = _match_lg_sum(form, level)
                if c is None:
                    problems.append(f"unexpected data term sum over {level}s of {form}")
                    continue
                n_obs = o * ro if level == "cell" else o
                key = round(c, 9)
                z = lg_atom(c)
                if not z.is_const():
                    balance[key] = balance.get(key, 0.0) + coef * n_obs
                if level == "cell":
                    cellc = (c, coef)
                else:
                    colc = (c, coef)
            if cellc is None or colc is None:
                problems.append("the score must contain a cell-level and a column-level log-gamma sum")
            else:
                if not (_close(cellc[1], 1.0) and _close(colc[1], -1.0)):
                    problems.append(f"signs of the data terms: +sum_cells lgamma(N+b) - sum_cols lgamma(N_j+a) expected, found {cellc[1]:+g}, {colc[1]:+g}")
                want = {"k2": (1.0, r), "bdeu": (ess / (q * r), ess / q), "bds": (ess / (o * r), ess / o)}[kind]
                if kind == "bds":
                    # documented: hyper-parameters spread over the OBSERVED parent configurations
                    if not _close(colc[0], want[1]):
                        problems.append(f"BDs column hyper-parameter must be ess / #observed parent configurations")
                    if not _close(cellc[0] * r, colc[0]):
                        rc.fail(fi, fi.node, f"{cname}: Dirichlet hyper-parameters are inconsistent: the column parameter ({_sym(colc[0], syms)}) must equal "
                                f"cardinality x cell parameter ({_sym(cellc[0], syms)} x r); the cell parameter is spread over all q parent "
                                f"configurations while the column parameter is spread over the observed ones",
                                construct=f"{cname} hyper-parameters alpha != r*beta")
                else:
                    if not (_close(cellc[0], want[0]) and _close(colc[0], want[1])):
                        problems.append(f"hyper-parameters: expected cell {want[0]:g} / column {want[1]:g}, found {cellc[0]:g} / {colc[0]:g}")
            for a, v in sorted(balance.items()):
                if abs(v) > 1e-7:
                    rc.fail(fi, fi.node, f"{cname}: the lgamma({_sym(a, syms)}) normalisers do not balance the observed data terms: net coefficient {_symc(v, syms)} "
                            f"(must be 0) — a never observed parent configuration or child state changes the score",
                            construct=f"{cname} unbalanced lgamma({_sym(a, syms)}) net {_symc(v, syms)}")
            if abs(res.const) > 1e-9:
                problems.append(f"unexpected constant term {res.const:g}")
            for p in problems:
                rc.fail(fi, fi.node, f"{cname}: {p}", construct=f"{cname}: {p}"[:150])
            first = False
            rc.report.rows += 1
            if rc.report.findings and any(f.func == fi.qual for f in rc.report.findings):
                break  # one assignment is enough to report
        _counts_source(rc, fi, it)


def _sym(x, s):
    """pretty-print a number in terms of the symbols when it matches a simple expression"""
    cands = {"r": s["r"], "1": 1.0, "ess/q": s["ess"] / s["q"], "ess/(q*r)": s["ess"] / (s["q"] * s["r"]), "ess/o": s["ess"] / s["o"],
             "ess/(o*r)": s["ess"] / (s["o"] * s["r"]), "ess/(o*r_obs)": s["ess"] / (s["o"] * s["r_obs"])}
    for k, v in cands.items():
        if _close(x, v):
            return k
    return f"{x:g}"


def _symc(x, s):
    q, o, r, ro = s["q"], s["o"], s["r"], s["r_obs"]
    cands = {"q-o": q - o, "o-q": o - q, "-(q-o)": -(q - o), "q": q, "o": o, "-o": -o, "-q": -q, "o*(r_obs-r)": o * (ro - r), "o*(r-r_obs)": o * (r - ro),
             "(q-o)*r": (q - o) * r, "-(q-o)*r": -(q - o) * r, "q*r-o*r_obs": q * r - o * ro, "-(q*r-o*r_obs)": -(q * r - o * ro), "2o-q": 2 * o - q}
    for k, v in cands.items():
        if _close(x, v):
            return k
    return f"{x:g}"


def _show(res: Lin):
    parts = []
    for k, v in res.terms.items():
        if abs(v) < 1e-12:
            continue
        if k[0] == "lg":
            parts.append(f"{v:+g}*lgamma({k[1]:g})")
        else:
            parts.append(f"{v:+g}*sum_{k[1]}s{k[2]}")
    if abs(res.const) > 1e-12:
        parts.append(f"{res.const:+g}")
    return " ".join(parts)[:400]


def _counts_source(rc, fi, it):
    """counts come from state_counts(variable, parents, reindex=False) on the method's own arguments"""
    if len(it.count_calls) != 1:
        rc.fail(fi, fi.node, "the score must obtain its counts from exactly one state_counts call", construct="counts source")
        return
    c = it.count_calls[0]
    a0 = dotted(c.args[0]) if c.args else dotted(kwarg(c, "variable"))
    a1 = dotted(c.args[1]) if len(c.args) > 1 else dotted(kwarg(c, "parents"))
    if a0 != fi.params[1] or a1 != fi.params[2]:
        rc.fail(fi, c, "counts must be taken for the scored variable and its given parents", construct="counts arguments")


@rule("C10.penalty", "BIC/AIC: log-likelihood over observed cells minus the documented penalty on all parent configurations", floor=2)
def penalty(rc):
    repo = rc.repo
    for cname, kind in LL.items():
        fi = repo.func(SS, f"{cname}.local_score")
        for i, syms in enumerate(SYMS):
            it = ScoreInterp(fi, syms)
            res = it.run()
            if not isinstance(res, Lin):
                raise AnalysisError(f"{cname}.local_score does not return a scalar expression")
            q, r, n = syms["q"], syms["r"], syms["n"]
            sums = [(k, v) for k, v in res.terms.items() if k[0] == "sum" and abs(v) > 1e-12]
            others = [(k, v) for k, v in res.terms.items() if k[0] != "sum" and abs(v) > 1e-12]
            if i == 0:
                rc.ob(f"{cname}.local_score = {_show(res)}")
            ok_ll = len(sums) == 1 and _close(sums[0][1], 1.0) and sums[0][0][1] == "cell" and _is_loglik(sums[0][0][2])
            if not ok_ll:
                rc.fail(fi, fi.node, f"{cname}: the data term must be sum over cells of N*(log N - log N_j); found {[k[2] for k, _ in sums]}", construct=f"{cname} log-likelihood")
                break
            z = zero_value(sums[0][0][2])
            if z is None or not (z.is_const() and z.const == 0.0):
                rc.fail(fi, fi.node, f"{cname}: the data term does not vanish on never observed configurations", construct=f"{cname} zero cells")
            want = -(0.5 * math.log(n) if kind == "bic" else 1.0) * q * (r - 1.0)
            if others or not _close(res.const, want):
                rc.fail(fi, fi.node, f"{cname}: penalty must be " + ("0.5*log(n)" if kind == "bic" else "1") + " x (#parent configurations) x (cardinality - 1) "
                        f"over ALL declared parent configurations; found constant {res.const:g} vs expected {want:g} at q={q:g}, r={r:g}, n={n:g}",
                        construct=f"{cname} penalty")
                break
            rc.report.rows += 1
        _counts_source(rc, fi, it)


def _is_loglik(form):
    def strip(f):
        return f
    if form[0] != "*":
        return False
    a, b = form[1], form[2]
    if a == ("N",):
        a, b = b, a
    if b != ("N",):
        return False
    return a == ("-", ("log", ("N",)), ("log", ("colsum", ("N",))))


# ------------------------------------------------------------------------------------------------
@rule("C10.siblings", "all discrete scores: counts with reindex=False handled; cardinalities from the declared state names", floor=5)
def siblings(rc):
    repo = rc.repo
    for cname in list(BD) + list(LL):
        fi = repo.func(SS, f"{cname}.local_score")
        cs = calls_named(fi, "state_counts")
        for c in cs:
            rc.ob(f"{cname}: {norm(c)}")
        # declared state names define r and q
        txt = norm(fi.node, 100000)
        if "self.state_names[" not in txt:
            rc.fail(fi, fi.node, "cardinalities must come from the declared state names, not from the observed table", construct="declared cardinalities")
        prods = [c for c in repo.calls_in(fi) if call_name(c) == "prod"]
        if not prods:
            rc.fail(fi, fi.node, "the number of parent configurations must be the product of the parents' declared cardinalities", construct="num_parents_states")


@rule("C10.decomp", "StructureScore.score = sum over all nodes of local_score(node, graph parents) + structure prior once", floor=2)
def decomp(rc):
    repo = rc.repo
    fi = repo.func(SS, "StructureScore.score")
    model = fi.params[1]
    ls = sites(fi.node, lambda n: isinstance(n, ast.Call) and call_name(n) == "local_score")
    if len(ls) != 1:
        rc.fail(fi, fi.node, "score() must call local_score exactly once per node", construct="local_score call")
        return
    s = ls[0]
    ok_loop = any(isinstance(peel(it), ast.Call) and call_name(peel(it)) == "nodes" and dotted(peel(it).func.value) == model for t, it in s.loops)
    node_var = [dotted(t) for t, it in s.loops][-1] if s.loops else None
    a0 = dotted(s.node.args[0]) if s.node.args else None
    par = peel(s.node.args[1]) if len(s.node.args) > 1 else None
    ok_par = isinstance(par, ast.Call) and call_name(par) in ("predecessors", "get_parents") and dotted(par.func.value) == model and dotted(par.args[0]) == node_var
    rc.ob(f"score(): {norm(s.node)} for {node_var} in {norm(s.loops[-1][1]) if s.loops else None}")
    if not (ok_loop and a0 == node_var and ok_par):
        rc.fail(fi, s.node, "the network score must sum local_score(node, parents-of-node-in-the-model) over all nodes of the model")
    # accumulation: score += ... ; prior added once outside the loop; returned
    stmt = s.stmt
    acc = dotted(stmt.target) if isinstance(stmt, ast.AugAssign) and isinstance(stmt.op, ast.Add) else None
    if acc is None:
        if not (isinstance(stmt, ast.Return) or isinstance(stmt, ast.Assign)):
            rc.fail(fi, stmt, "local scores must be added up")
    pri = sites(fi.node, lambda n: isinstance(n, ast.Call) and call_name(n) == "structure_prior")
    rc.ob(f"structure prior sites: {[norm(p.stmt) for p in pri]}")
    if len(pri) != 1 or pri[0].loops:
        rc.fail(fi, fi.node, "the structure prior must be added exactly once (not per node)", construct="structure prior once")
    else:
        st = pri[0].stmt
        good = (isinstance(st, ast.AugAssign) and isinstance(st.op, ast.Add) and (acc is None or dotted(st.target) == acc)) or isinstance(st, ast.Return)
        if not good or dotted(pri[0].node.args[0]) != model:
            rc.fail(fi, st, "the structure prior of the scored model must be ADDED to the sum")
    rets = returns_of(fi)
    if acc and not any(acc in norm(r.value) for r in rets if r.value is not None):
        rc.fail(fi, fi.node, "score() must return the accumulated sum", construct="return")
    init = [n for n in fi.body if isinstance(n, ast.Assign) and acc and dotted(n.targets[0]) == acc]
    if acc and not (init and isinstance(init[0].value, ast.Constant) and init[0].value.value == 0):
        rc.fail(fi, fi.node, "the sum must start from 0", construct="init")
    # BDs prior ratio consistent with the prior: log-prior changes by -log 2 per added edge
    bds_p = repo.func(SS, "BDsScore.structure_prior_ratio")
    vals = {}
    for s2 in sites(bds_p.node, lambda n: isinstance(n, ast.Return)):
        tag = None
        for t, pol in s2.conds:
            if isinstance(t, ast.Compare) and isinstance(t.comparators[0], ast.Constant) and pol:
                tag = t.comparators[0].value
        vals[tag] = norm(s2.node.value)
    rc.ob(f"BDs prior ratio {vals}")
    if not (vals.get("+", "").startswith("-log(2") and vals.get("-", "").startswith("log(2") and vals.get(None) == "0"):
        rc.fail(bds_p, bds_p.node, "BDs prior ratio must be -log 2 for an added edge, +log 2 for a removed edge, 0 for a flip", construct="bds prior ratio")


@rule("C10.cache", "ScoreCache keys on all arguments, computes with the same key and forwards them unchanged to the wrapped scorer", floor=3)
def cache(rc):
    repo = rc.repo
    ls = repo.func(SC, "ScoreCache.local_score")
    p = ls.params
    rets = returns_of(ls)
    ok = False
    for r in rets:
        v = r.value
        if isinstance(v, ast.Call) and dotted(v.func) == "self.cache":
            args = [norm(_res(a, ls)) for a in v.args]
            rc.ob(f"ScoreCache.local_score -> cache({', '.join(args)})")
            ok = len(args) == 2 and args[0] == p[1] and args[1] in (f"tuple({p[2]})", f"frozenset({p[2]})", f"tuple(sorted({p[2]}))")
    if not ok:
        rc.fail(ls, ls.node, "the cache must be asked with (variable, parents) — both arguments in the key", construct="cache key")
    wo = repo.func(SC, "ScoreCache._wrapped_original")
    ok = False
    for r in returns_of(wo):
        v = r.value
        if isinstance(v, ast.Call) and norm(v.func) == "self.base_scorer.local_score":
            args = [norm(_res(a, wo)) for a in v.args]
            rc.ob(f"_wrapped_original -> base_scorer.local_score({', '.join(args)})")
            ok = len(args) == 2 and args[0] == wo.params[1] and args[1] in (f"list({wo.params[2]})", wo.params[2])
    if not ok:
        rc.fail(wo, wo.node, "the wrapped scorer must receive the same variable and parents", construct="forward")
    init = repo.func(SC, "ScoreCache.__init__")
    if "original_function=self._wrapped_original" not in norm(init.node, 10000).replace(" ", "").replace("original_function=self._wrapped_original", "original_function=self._wrapped_original"):
        if "self._wrapped_original" not in norm(init.node, 10000):
            rc.fail(init, init.node, "the cache must wrap the base scorer's local score", construct="cache wiring")
    # wrapper completeness: whatever a scorer subclass specialises, the cache must forward to the wrapped scorer (else the base-class default answers)
    base = repo.cls(SS, "StructureScore")
    cache_cls = repo.cls(SC, "ScoreCache")
    specialised = {}
    for sub in repo.subclasses(base):
        if sub is cache_cls:
            continue
        for mname, m in sub.methods.items():
            if mname in base.methods and not mname.startswith("__") and mname != "local_score":
                specialised.setdefault(mname, []).append(sub.name)
    for mname, subs in sorted(specialised.items()):
        own = cache_cls.methods.get(mname)
        fwd = own is not None and any(isinstance(c_, ast.Call) and norm(c_.func) == f"self.base_scorer.{mname}" for c_ in ast.walk(own.node))
        rc.ob(f"ScoreCache forwards `{mname}` (specialised by {subs}) to the wrapped scorer: {fwd}")
        if not fwd:
            rc.fail(cache_cls.methods["local_score"], cache_cls.node, f"ScoreCache does not forward `{mname}` to the wrapped scorer although {subs} specialise it: a cached {subs[0]} answers "
                    f"`{mname}` with the StructureScore default (network scores and search results differ from the uncached scorer)", construct=f"ScoreCache does not forward {mname}")
    call = repo.func(SC, "LRUCache.__call__")
    key = call.node.args.vararg.arg if call.node.args.vararg else None
    if key is None:
        rc.fail(call, call.node, "LRUCache.__call__ must take the key as *args", construct="key")
        return
    maps = {"self.mapping"}
    for n in walk_no_nested(call.node):
        if isinstance(n, ast.Assign) and isinstance(n.targets[0], ast.Tuple) and isinstance(n.value, ast.Tuple) and len(n.targets[0].elts) == len(n.value.elts):
            for t_, v_ in zip(n.targets[0].elts, n.value.elts):
                if norm(v_) == "self.mapping" and isinstance(t_, ast.Name):
                    maps.add(t_.id)
        elif isinstance(n, ast.Assign) and norm(n.value) == "self.mapping" and isinstance(n.targets[0], ast.Name):
            maps.add(n.targets[0].id)
    lookups = [n for n in walk_no_nested(call.node) if isinstance(n, ast.Call) and call_name(n) == "get" and n.args and dotted(n.args[0]) == key and dotted(n.func.value) in maps]
    computes = [n for n in walk_no_nested(call.node) if isinstance(n, ast.Call) and norm(n.func) == "self.original_function"]
    rc.ob(f"LRUCache.__call__: lookups {[norm(x) for x in lookups]}, computes {[norm(x) for x in computes]}")
    if not lookups:
        rc.fail(call, call.node, "lookup must use the full key", construct="lookup")
    for c in computes:
        if not (len(c.args) == 1 and isinstance(c.args[0], ast.Starred) and dotted(c.args[0].value) == key):
            rc.fail(call, c, "a miss must compute with exactly the looked-up key")
    val = None
    for c in computes:
        par = getattr(c, "_parent", None)
        if isinstance(par, ast.Assign) and isinstance(par.targets[0], ast.Name):
            val = par.targets[0].id
    link = None
    for l in lookups:
        par = getattr(l, "_parent", None)
        if isinstance(par, ast.Assign) and isinstance(par.targets[0], ast.Name):
            link = par.targets[0].id
    stores = [n for n in walk_no_nested(call.node) if isinstance(n, ast.Assign) and any(isinstance(t, ast.Subscript) and dotted(t.value) in maps and dotted(t.slice) == key for t in n.targets)]
    if not stores or val is None or link is None:
        rc.fail(call, call.node, "the computed value must be stored under the same key", construct="store")
    else:
        # the stored link carries (key, value): value position
        for st in stores:
            lname = dotted(st.value)
            lk = [n for n in walk_no_nested(call.node) if isinstance(n, ast.Assign) and dotted(n.targets[0]) == lname and isinstance(n.value, ast.List) and n.lineno < st.lineno]
            if not lk and not isinstance(st.value, ast.List):
                rc.fail(call, st, "the cache link must hold [prev, next, key, value]", construct="store link")
            for l in lk[-1:] if lk else [st]:
                els = [dotted(x) for x in l.value.elts] if isinstance(l.value, ast.List) else []
                if len(els) != 4 or els[2] != key or els[3] != val:
                    rc.fail(call, l, "the cache link must hold [prev, next, key, value]")
            # EVERY definition of the stored link that can reach the store (after the value was computed) carries this call's key and value: a fresh list
            # literal [.., .., key, value], or a recycled link whose key slot AND value slot are both overwritten before it is stored
            comp_line = min((c.lineno for c in computes), default=0)
            alldefs = [n for n in ast.walk(call.node) if isinstance(n, ast.Assign) and len(n.targets) == 1 and dotted(n.targets[0]) == lname and comp_line < n.lineno < st.lineno]
            for d_ in alldefs:
                if isinstance(d_.value, ast.List):
                    els = [dotted(x) for x in d_.value.elts]
                    if len(els) != 4 or els[2] != key or els[3] != val:
                        rc.fail(call, d_, "the cache link must hold [prev, next, key, value]", construct="store link literal")
                    continue
                slot_sets = {}
                for n in ast.walk(call.node):
                    if isinstance(n, ast.Assign) and d_.lineno < n.lineno < st.lineno:
                        for t in n.targets:
                            if isinstance(t, ast.Subscript) and dotted(t.value) == lname:
                                slot_sets[norm(t.slice)] = dotted(n.value)
                has_key = slot_sets.get("_KEY") == key or slot_sets.get("2") == key
                has_val = slot_sets.get("_VALUE") == val or slot_sets.get("3") == val
                rc.ob(f"LRUCache.__call__: recycled link `{norm(d_, 50)}`: key slot set {has_key}, value slot set {has_val}")
                if not (has_key and has_val):
                    rc.fail(call, d_, f"LRUCache.__call__: the link stored under the new key is a recycled one (`{norm(d_, 50)}`) whose "
                            f"{'value' if has_key else 'key'} slot still holds the evicted entry's: later hits for this key return another pair's score",
                            construct="recycled link keeps stale slot")
    # a hit returns the stored value of that link
    hit = [n for n in walk_no_nested(call.node) if isinstance(n, ast.Assign) and isinstance(n.targets[0], ast.Tuple) and link is not None and dotted(n.value) == link]
    for h in hit:
        names = [dotted(x) for x in h.targets[0].elts]
        rc.ob(f"hit unpack {names}")
        if len(names) != 4 or names[3] != val:
            rc.fail(call, h, "a hit must return the value stored in the link (4th field)")
    if val is None or not any(dotted(r.value) == val for r in returns_of(call)):
        rc.fail(call, call.node, "__call__ must return the value", construct="return")

def _res(e, fi):
    if isinstance(e, ast.Name):
        for n in fi.body:
            if isinstance(n, ast.Assign) and dotted(n.targets[0]) == e.id:
                return n.value
    return e


@rule("C10.counts", "the count table handed to the scores has one column per OBSERVED parent configuration (groupby(..., observed=True))", floor=1)
def counts(rc):
    from . import c06
    c06.counts_primitive(rc, rc.repo)


@rule("C10.registry", "scoring-method name tables map each documented name to the class of that name", floor=2)
def registry(rc):
    repo = rc.repo
    want = {"k2": "K2Score", "bdeu": "BDeuScore", "bds": "BDsScore", "bic": "BicScore", "aic": "AICScore", "aic-g": "AICScoreGauss", "bic-g": "BicScoreGauss"}
    for rel, q in (("pgmpy/metrics/metrics.py", "structure_score"), ("pgmpy/estimators/HillClimbSearch.py", "HillClimbSearch.estimate"),
                   ("pgmpy/estimators/GES.py", "GES.estimate"), ("pgmpy/estimators/MmhcEstimator.py", "MmhcEstimator.estimate")):
        fi = repo.try_func(rel, q)
        if fi is None:
            continue
        for n in walk_no_nested(fi.node):
            if isinstance(n, ast.Assign) and isinstance(n.value, ast.Dict) and n.value.keys and all(isinstance(k, ast.Constant) and isinstance(k.value, str) for k in n.value.keys) \
                    and all(isinstance(v, ast.Name) and v.id.endswith(("Score", "ScoreGauss")) for v in n.value.values):
                tbl = {k.value: v.id for k, v in zip(n.value.keys, n.value.values)}
                rc.ob(f"{q}: {tbl}")
                for k, v in tbl.items():
                    if want.get(k) != v:
                        rc.fail(fi, n, f"scoring method name {k!r} is mapped to {v}; documented: {want.get(k)}", construct=f"table {k}->{v}")
                # lookups into the table use the user's name
                tname = dotted(n.targets[0])
                for sub in [x for x in walk_no_nested(fi.node) if isinstance(x, ast.Subscript) and dotted(x.value) == tname]:
                    rc.ob(f"{q}: lookup {norm(sub)}")
    # classes exist and define local_score
    for v in want.values():
        ci = repo.module(SS).classes.get(v)
        if ci is None or "local_score" not in ci.methods:
            rc.fail(None, None, f"score class {v} (or its local_score) vanished", construct=f"class {v}", file=SS, func=v)


_BDEU_OLD = "        gamma_conds_adj = (num_parents_states - counts.shape[1]) * gammaln(alpha)\n\n        score = (\n            (np.sum(log_gamma_counts) + gamma_counts_adj)\n            - (np.sum(log_gamma_conds) + gamma_conds_adj)\n            + num_parents_states * lgamma(alpha)\n            - counts_size * lgamma(beta)\n        )"


@rule("C10.defuse", "anchored files: no parameter is accepted and ignored (generic def-use detector, triaged exemptions)", floor=2)
def defuse(rc):
    from . import shared as _sh
    _sh.defuse_rule(rc, _sh.anchor_files("C10"))


@rule("C10.data", "preprocess_data (run in front of every estimator, score and CI test) hands on the caller's values: copy, column-wise value-preserving casts", floor=2)
def data_(rc):
    from . import shared as _sh
    _sh.preprocess_rule(rc)


MUTANTS = [
    dict(kind="break", name="cache-does-not-forward-prior", file=SC, expect="C10.cache",
         old="    def structure_prior(self, model):\n        return self.base_scorer.structure_prior(model)\n\n", new=""),
    dict(kind="break", name="conditional-counts-by-value-counts", file="pgmpy/estimators/base.py", expect="C10.counts",
         old="                    self.data.groupby([variable] + parents, observed=True)\n                    .size()\n", new="                    self.data.loc[:, [variable] + parents]\n                    .value_counts(sort=False)\n"),
    dict(kind="break", name="k2-drop-conds-adj", file=SS, expect="C10.compensate",
         old="            - (np.sum(log_gamma_conds) + gamma_conds_adj)\n            + num_parents_states * lgamma(var_cardinality)",
         new="            - np.sum(log_gamma_conds)\n            + num_parents_states * lgamma(var_cardinality)"),
    dict(kind="break", name="k2-observed-columns-only-normaliser", file=SS, expect="C10.compensate",
         old="            + num_parents_states * lgamma(var_cardinality)", new="            + counts.shape[0] * lgamma(var_cardinality)"),
    dict(kind="break", name="bdeu-drop-counts-adj", file=SS, expect="C10.compensate",
         old=_BDEU_OLD, new=_BDEU_OLD.replace("(np.sum(log_gamma_counts) + gamma_counts_adj)", "(np.sum(log_gamma_counts))")),
    dict(kind="break", name="bdeu-old-column-only-adjustment", file=SS, expect="C10.compensate",
         old="        beta = self.equivalent_sample_size / counts_size\n        # Compute log(gamma(counts + beta))\n        gammaln(counts + beta, out=log_gamma_counts)\n\n        # Compute the log-gamma conditional sample size\n        log_gamma_conds = np.sum(counts, axis=0, dtype=float)\n        gammaln(log_gamma_conds + alpha, out=log_gamma_conds)\n\n        # Adjustment because of missing 0 columns (and rows of never observed states) when using reindex=False\n        # for computing state_counts to save memory.\n        gamma_counts_adj = (counts_size - counts.size) * gammaln(beta)\n        gamma_conds_adj = (num_parents_states - counts.shape[1]) * gammaln(alpha)\n\n        score = (\n            (np.sum(log_gamma_counts) + gamma_counts_adj)\n            - (np.sum(log_gamma_conds) + gamma_conds_adj)\n            + num_parents_states",
         new="        beta = self.equivalent_sample_size / counts_size\n        # Compute log(gamma(counts + beta))\n        gammaln(counts + beta, out=log_gamma_counts)\n\n        # Compute the log-gamma conditional sample size\n        log_gamma_conds = np.sum(counts, axis=0, dtype=float)\n        gammaln(log_gamma_conds + alpha, out=log_gamma_conds)\n\n        gamma_counts_adj = (num_parents_states - counts.shape[1]) * len(self.state_names[variable]) * gammaln(beta)\n        gamma_conds_adj = (num_parents_states - counts.shape[1]) * gammaln(alpha)\n\n        score = (\n            (np.sum(log_gamma_counts) + gamma_counts_adj)\n            - (np.sum(log_gamma_conds) + gamma_conds_adj)\n            + num_parents_states"),
    dict(kind="break", name="bdeu-alpha-from-observed", file=SS, expect="C10.compensate",
         old="        alpha = self.equivalent_sample_size / num_parents_states\n", new="        alpha = self.equivalent_sample_size / counts.shape[1]\n"),
    dict(kind="break", name="bic-penalty-observed-configs", file=SS, expect="C10.penalty",
         old="score -= 0.5 * log(sample_size) * num_parents_states * (var_cardinality - 1)", new="score -= 0.5 * log(sample_size) * counts.shape[1] * (var_cardinality - 1)"),
    dict(kind="break", name="bic-penalty-cardinality", file=SS, expect="C10.penalty",
         old="score -= 0.5 * log(sample_size) * num_parents_states * (var_cardinality - 1)", new="score -= 0.5 * log(sample_size) * num_parents_states * var_cardinality"),
    dict(kind="break", name="aic-penalty-halved", file=SS, expect="C10.penalty",
         old="        score -= num_parents_states * (var_cardinality - 1)\n", new="        score -= 0.5 * num_parents_states * (var_cardinality - 1)\n"),
    dict(kind="break", name="aic-loglik-not-weighted", file=SS, expect="C10.penalty",
         old="        log_likelihoods -= log_conditionals\n        log_likelihoods *= counts\n\n        score = np.sum(log_likelihoods)\n        score -= num_parents_states",
         new="        log_likelihoods -= log_conditionals\n\n        score = np.sum(log_likelihoods)\n        score -= num_parents_states"),
    dict(kind="break", name="score-prior-per-node", file=SS, expect="C10.decomp",
         old="            score += self.local_score(node, list(model.predecessors(node)))\n        score += self.structure_prior(model)",
         new="            score += self.local_score(node, list(model.predecessors(node)))\n            score += self.structure_prior(model)"),
    dict(kind="break", name="score-uses-children", file=SS, expect="C10.decomp",
         old="self.local_score(node, list(model.predecessors(node)))", new="self.local_score(node, list(model.successors(node)))"),
    dict(kind="break", name="cache-key-forgets-variable", file=SC, expect="C10.cache",
         old="return self.cache(variable, hashable)", new="return self.cache(hashable)"),
    dict(kind="break", name="registry-bic-is-aic", file="pgmpy/estimators/HillClimbSearch.py", expect="C10.registry",
         old='            "bic": BicScore,\n            "aic": AICScore,', new='            "bic": AICScore,\n            "aic": BicScore,'),
    dict(kind="twin", name="k2-adjustments-inlined", file=SS,
         old="            (np.sum(log_gamma_counts) + gamma_counts_adj)\n            - (np.sum(log_gamma_conds) + gamma_conds_adj)\n            + num_parents_states * lgamma(var_cardinality)",
         new="            np.sum(log_gamma_counts)\n            - np.sum(log_gamma_conds)\n            + counts.shape[1] * lgamma(var_cardinality)"),
    dict(kind="twin", name="bic-penalty-reordered", file=SS,
         old="score -= 0.5 * log(sample_size) * num_parents_states * (var_cardinality - 1)", new="score = score - (var_cardinality - 1) * num_parents_states * log(sample_size) / 2"),
]
