"""C08 — d-separation answers match the path-based definition."""
from __future__ import annotations

import ast

from ..core import AnalysisError, call_name, dotted, norm, walk_no_nested, kwarg
from ..guards import A, And, Not, Or, equivalent, implies, is_call_named, path_formula, show_formula, sites, T, to_formula
from ..registry import describe, rule
from .. import tmatch as tm
from ..util import PARENT_CALLS, CHILD_CALLS, assigned_value, calls_named, is_method_call, neighbour_kind, peel, resolve, returns_of, is_self_attr

DAG = "pgmpy/base/DAG.py"

describe(
    "C08",
    "the reachability's transition relation in DAG.active_trail_nodes IS the Bayes-ball table (all abstract states "
    "direction x observed x ancestor-of-observed, compared exhaustively with Koller-Friedman Alg. 3.1); the ancestor "
    "closure walks parent edges and keeps its seeds; every d-separation answer (is_dconnected, get_independencies, "
    "minimal_dseparator, local independencies, Markov blanket, ancestral and moral graph) is routed through that one "
    "implementation / built by the documented set construction; overrides stay call-compatible.",
    ["minimality of the returned separator as a numeric/graph search outcome", "the latent-replacement loop's termination"],
)


# ------------------------------------------------------------------------------------------------
@rule("C08.table", "Bayes-ball transition table of DAG.active_trail_nodes equals the reference (exhaustive over 8 abstract states)", floor=6)
def table(rc):
    fi = rc.repo.func(DAG, "DAG.active_trail_nodes")
    fn = fi.node
    params = fi.params
    if len(params) < 3:
        raise AnalysisError("active_trail_nodes lost its parameters")
    # --- identify the worklist, the popped (node, direction) pair, observed list and ancestor set
    pop = None
    for n in walk_no_nested(fn):
        if isinstance(n, ast.Assign) and isinstance(n.targets[0], ast.Tuple) and len(n.targets[0].elts) == 2 \
                and isinstance(n.value, ast.Call) and call_name(n.value) in ("pop", "popleft") and isinstance(n.value.func, ast.Attribute):
            pop = n
            break
    if pop is None:
        raise AnalysisError("active_trail_nodes: cannot find `node, direction = <worklist>.pop()`")
    node_v, dir_v = (e.id for e in pop.targets[0].elts)
    work = dotted(pop.value.func.value)
    anc_calls = calls_named(fi, "_get_ancestors_of")
    if len(anc_calls) != 1 or not anc_calls[0].args and not anc_calls[0].keywords:
        raise AnalysisError("active_trail_nodes: expected exactly one call of _get_ancestors_of")
    anc_arg = anc_calls[0].args[0] if anc_calls[0].args else anc_calls[0].keywords[0].value
    obs_name = dotted(anc_arg)
    anc_assign = getattr(anc_calls[0], "_parent", None)
    if not (isinstance(anc_assign, ast.Assign) and isinstance(anc_assign.targets[0], ast.Name)):
        raise AnalysisError("active_trail_nodes: result of _get_ancestors_of is not bound to a local")
    anc_name = anc_assign.targets[0].id
    if obs_name is None:
        raise AnalysisError("active_trail_nodes: argument of _get_ancestors_of is not a plain local")
    rc.ob(f"worklist={work} popped=({node_v},{dir_v}) observed={obs_name} ancestors={anc_name}")

    # --- the start state defines the 'up' tag
    enq = [s for s in sites(fn, lambda n: is_method_call(n, ("add", "append"), work))]
    start_tags = []
    for s in enq:
        arg = s.node.args[0] if s.node.args else None
        if isinstance(arg, ast.Tuple) and len(arg.elts) == 2 and not any(dotted(t) == node_v for t, _ in s.loops):
            inside_while = any(isinstance(p, ast.While) for p in _parents(s.node))
            if not inside_while:
                start_tags.append((arg, s))
    if len(start_tags) != 1:
        raise AnalysisError("active_trail_nodes: expected exactly one initial enqueue before the worklist loop")
    start_arg, start_site = start_tags[0]
    up_tag = _const(start_arg.elts[1])
    if up_tag is None:
        raise AnalysisError("active_trail_nodes: start direction tag is not a constant")
    start_loop = [t for t, it in start_site.loops]
    if not (start_loop and isinstance(start_arg.elts[0], ast.Name) and any(dotted(t) == start_arg.elts[0].id for t in start_loop)):
        rc.fail(fi, start_site.node, "initial Bayes-ball state is not (start variable, up)")
    rc.ob(f"start state enqueue {norm(start_site.node)}: tag {up_tag!r} is 'arrived from a child' (up)")

    # --- effects inside the loop
    tags = set()
    eff = {"parents_up": [], "children_down": [], "active": []}

    def atomize(e):
        if isinstance(e, ast.Compare) and len(e.ops) == 1:
            l, op, r = e.left, e.ops[0], e.comparators[0]
            if isinstance(op, (ast.Eq, ast.Is)) and {dotted(l), dotted(r)} & {dir_v}:
                other = r if dotted(l) == dir_v else l
                c = _const(other)
                if c is None:
                    return None
                tags.add(c)
                return A("up") if c == up_tag else Not(A("up"))
            if isinstance(op, ast.In) and dotted(l) == node_v:
                tgt = dotted(peel(r))
                if tgt == obs_name:
                    return A("obs")
                if tgt == anc_name:
                    return A("anc")
            if isinstance(op, ast.In) and isinstance(l, ast.Tuple) and [dotted(x) for x in l.elts] == [node_v, dir_v]:
                return A("visited")
        if dotted(e) == work:
            return T  # `while worklist:` — inside the loop body the worklist was non-empty; not part of the abstract state
        return None

    def in_loop(s):
        return any(isinstance(p, ast.While) for p in _parents(s.node))

    for s in enq:
        if not in_loop(s):
            continue
        arg = s.node.args[0] if s.node.args else None
        if not (isinstance(arg, ast.Tuple) and len(arg.elts) == 2):
            raise AnalysisError("active_trail_nodes: enqueue of a non-pair: " + norm(s.node))
        tag = _const(arg.elts[1])
        tags.add(tag)
        src = None
        for t, it in s.loops:
            if dotted(t) == dotted(arg.elts[0]):
                src = neighbour_kind(it, s.defs, of=node_v)
        if src is None:
            rc.fail(fi, s.node, "enqueued node is not drawn from the parents/children of the popped node")
            continue
        want = ("parents", True) if src == "parents" else ("children", False)
        is_up = tag == up_tag
        if (src, is_up) != want:
            rc.fail(fi, s.node, f"Bayes-ball enqueues {src} with direction {'up' if is_up else 'down'}; "
                    f"parents must be entered 'up' (from a child) and children 'down' (from a parent)")
            continue
        eff["parents_up" if src == "parents" else "children_down"].append(s)
        rc.ob(f"enqueue site {norm(s.node)} under {show_formula(path_formula(s, atomize))}")

    # active set: the set that ends up in the returned dict
    act_sites = []
    ret_names = {dotted(r.value) for r in returns_of(fi) if r.value is not None}
    store_vals = set()
    for n in walk_no_nested(fn):
        if isinstance(n, ast.Assign) and isinstance(n.targets[0], ast.Subscript) and dotted(n.targets[0].value) in ret_names:
            for nm in ast.walk(n.value):
                if isinstance(nm, ast.Name):
                    store_vals.add(nm.id)
    for s in sites(fn, lambda n: is_method_call(n, ("add",)) and dotted(n.func.value) in store_vals and dotted(n.func.value) != work):
        if in_loop(s) and s.node.args and dotted(s.node.args[0]) == node_v:
            act_sites.append(s)
            rc.ob(f"active-set site {norm(s.node)} under {show_formula(path_formula(s, atomize))}")
    eff["active"] = act_sites

    if len(tags - {None}) != 2:
        raise AnalysisError(f"active_trail_nodes: expected exactly two direction tags, found {sorted(map(repr, tags))}")

    ref = {
        "parents_up": Or(And(A("up"), Not(A("obs"))), And(Not(A("up")), A("anc"))),
        "children_down": Not(A("obs")),
        "active": Not(A("obs")),
    }
    # observed nodes are their own ancestors (seeds are kept: C08.ancestors); a popped state is processed when not yet visited
    constraint = lambda v: (not v.get("obs", False) or v.get("anc", False)) and not v.get("visited", False)
    for name, ss in eff.items():
        got = Or(*[path_formula(s, atomize) for s in ss]) if ss else ("const", False)
        got = And(got, T)
        ok, cx, rows = equivalent(got, ref[name], constraint=constraint, extra_atoms=("up", "obs", "anc", "visited"))
        rc.report.rows += rows
        opaque = [a for a in _atoms(got) if str(a).startswith("?")]
        if opaque:
            rc.fail(fi, ss[0].node if ss else fn, f"effect '{name}' depends on a condition outside the Bayes-ball state: {opaque}")
        elif not ok:
            rc.fail(fi, ss[0].node if ss else fn,
                    f"Bayes-ball table differs from the reference for effect '{name}': code enables it under {show_formula(got)}, "
                    f"reference is {show_formula(ref[name])}; differing abstract state {cx}", construct=f"effect {name}: {show_formula(got)}")
    rc.report.exhaustive = True

    # --- result: latents removed iff include_latents is false
    inc = params[3] if len(params) > 3 else None
    stores = [n for n in walk_no_nested(fn) if isinstance(n, ast.Assign) and isinstance(n.targets[0], ast.Subscript)
              and dotted(n.targets[0].value) in ret_names]
    if not stores:
        raise AnalysisError("active_trail_nodes: no store into the returned mapping")
    for s in sites(fn, lambda n: isinstance(n, ast.Subscript) and isinstance(n.ctx, ast.Store) and dotted(n.value) in ret_names):
        st = s.stmt
        val = st.value
        minus_lat = isinstance(val, ast.BinOp) and isinstance(val.op, ast.Sub) and is_self_attr(val.right, "latents")
        f = path_formula(s, lambda e: A("inc") if dotted(e) == inc else None)
        rc.ob(f"result store {norm(st)} under {show_formula(f)}")
        want = Not(A("inc")) if minus_lat else A("inc")
        ok, cx, rows = implies(f, want)
        if not ok:
            rc.fail(fi, st, "latent nodes are removed from the answer iff include_latents is false — this store contradicts that")


def _parents(n):
    p = getattr(n, "_parent", None)
    while p is not None:
        yield p
        p = getattr(p, "_parent", None)


def _const(e):
    return e.value if isinstance(e, ast.Constant) else None


def _atoms(f):
    from ..guards import atoms_of
    return atoms_of(f)


# ------------------------------------------------------------------------------------------------
@rule("C08.observed", "the observed set reaching the Bayes-ball is the caller's: presence tested with `is None`, never by truthiness of a node name", floor=1)
def observed(rc):
    fi = rc.repo.func(DAG, "DAG.active_trail_nodes")
    obs = fi.params[2]
    n = 0
    for node in walk_no_nested(fi.node):
        tests = []
        if isinstance(node, (ast.If, ast.IfExp, ast.While)):
            tests.append(node.test)
        for t in tests:
            for sub in _bool_leaves(t):
                if isinstance(sub, ast.Name) and sub.id == obs:
                    n += 1
                    rc.ob(f"presence test on `{obs}`: {norm(t)}")
                    rc.fail(fi, t, f"`{obs}` (documented: a node or list of nodes) is tested by truthiness; a falsy node name such as 0 "
                            f"is then treated as 'nothing observed'", construct=f"truthiness test of {obs}")
                elif isinstance(sub, ast.Compare) and dotted(sub.left) == obs and isinstance(sub.ops[0], (ast.Is, ast.IsNot)):
                    n += 1
                    rc.ob(f"presence test on `{obs}`: {norm(t)}")
    if n == 0:
        rc.ob(f"no presence test on `{obs}` (normalised unconditionally)")


def _bool_leaves(t):
    if isinstance(t, ast.BoolOp):
        for v in t.values:
            yield from _bool_leaves(v)
    elif isinstance(t, ast.UnaryOp) and isinstance(t.op, ast.Not):
        yield from _bool_leaves(t.operand)
    else:
        yield t


# ------------------------------------------------------------------------------------------------
@rule("C08.ancestors", "DAG._get_ancestors_of is a worklist closure over parent edges that keeps its seeds", floor=3)
def ancestors(rc):
    fi = rc.repo.func(DAG, "DAG._get_ancestors_of")
    fn = fi.node
    loops = [n for n in walk_no_nested(fn) if isinstance(n, ast.While)]
    if len(loops) != 1:
        raise AnalysisError("_get_ancestors_of: expected one worklist loop")
    loop = loops[0]
    work = dotted(loop.test)
    if work is None:
        raise AnalysisError("_get_ancestors_of: loop test is not the worklist")
    popped = None
    for n in ast.walk(loop):
        if isinstance(n, ast.Assign) and isinstance(n.value, ast.Call) and is_method_call(n.value, ("pop", "popleft"), work) and isinstance(n.targets[0], ast.Name):
            popped = n.targets[0].id
    if popped is None:
        raise AnalysisError("_get_ancestors_of: no `node = worklist.pop()`")
    rets = returns_of(fi)
    result = dotted(rets[-1].value) if rets and rets[-1].value is not None else None
    if result is None:
        raise AnalysisError("_get_ancestors_of: result is not a local set")
    rc.ob(f"worklist={work} popped={popped} result={result}")
    # seeds
    seeds = assigned_value(fi, work)
    param = fi.params[1]
    if not any(dotted(peel(v)) == param for v in seeds):
        rc.fail(fi, fn, f"the worklist is not seeded with the given nodes ({param})", construct="worklist seed")
    rc.ob(f"worklist seed: {[norm(v) for v in seeds]}")

    def atomize(e):
        if isinstance(e, ast.Compare) and len(e.ops) == 1 and isinstance(e.ops[0], ast.In) and dotted(e.left) == popped \
                and dotted(peel(e.comparators[0])) == result:
            return A("in_result")
        if dotted(e) == work:
            return T
        return None

    grow = sites(fn, lambda n: is_method_call(n, ("update", "add", "extend", "append"), work))
    grow = [s for s in grow if any(p is loop for p in _parents(s.node))]
    if not grow:
        rc.fail(fi, loop, "the closure never grows its worklist", construct="worklist growth")
    for s in grow:
        arg = s.node.args[0]
        kind = neighbour_kind(arg, s.defs, of=popped)
        if kind is None:
            for t, it in s.loops:
                if dotted(t) == dotted(arg):
                    kind = neighbour_kind(it, s.defs, of=popped)
        rc.ob(f"growth step {norm(s.node)} -> {kind}")
        if kind != "parents":
            rc.fail(fi, s.node, f"ancestor closure must follow parent edges of the popped node; it follows {kind or 'something else'}")
        f = path_formula(s, atomize)
        ok, cx, rows = implies(Not(A("in_result")), f)
        if not ok:
            rc.fail(fi, s.node, f"parents of a not-yet-expanded node are not always enqueued (condition {show_formula(f)})")
    keep = [s for s in sites(fn, lambda n: is_method_call(n, ("add",), result)) if any(p is loop for p in _parents(s.node))]
    if not keep:
        rc.fail(fi, loop, "popped nodes are never added to the result", construct="result add")
    for s in keep:
        f = path_formula(s, atomize)
        rc.ob(f"result step {norm(s.node)} under {show_formula(f)}")
        ok, cx, rows = implies(Not(A("in_result")), f)
        if not (ok and dotted(s.node.args[0]) == popped):
            rc.fail(fi, s.node, "every popped node (including the seeds) must end up in the result")


# ------------------------------------------------------------------------------------------------
@rule("C08.routing", "d-separation answers are routed through active_trail_nodes; overrides are call-compatible", floor=5)
def routing(rc):
    repo = rc.repo
    dag = repo.cls(DAG, "DAG")
    base = repo.func(DAG, "DAG.active_trail_nodes")
    # is_dconnected: returns membership of `end` in active_trail_nodes(start, observed)[start]
    fi = repo.func(DAG, "DAG.is_dconnected")
    p = fi.params
    calls = calls_named(fi, "active_trail_nodes")
    if len(calls) != 1:
        rc.fail(fi, fi.node, "is_dconnected does not answer through active_trail_nodes", construct="route")
    else:
        c = calls[0]
        a0 = dotted(c.args[0]) if c.args else dotted(kwarg(c, base.params[1]))
        a1 = dotted(c.args[1]) if len(c.args) > 1 else dotted(kwarg(c, "observed"))
        rc.ob(f"is_dconnected -> {norm(c)}")
        if a0 != p[1] or a1 != p[3]:
            rc.fail(fi, c, "is_dconnected must pass (start, observed) unchanged to active_trail_nodes")
        # active_trail_nodes strips latent nodes from its answer unless asked not to: `end` may itself be latent
        il = kwarg(c, "include_latents") or (c.args[2] if len(c.args) > 2 else None)
        dflt = base.param_default("include_latents")
        strips = isinstance(dflt, ast.Constant) and dflt.value is False
        rc.ob(f"is_dconnected asks for latents in the active set: {norm(il) if il is not None else None} (active_trail_nodes strips them by default: {strips})")
        if strips and not (isinstance(il, ast.Constant) and il.value is True):
            rc.fail(fi, c, "is_dconnected tests `end in active_trail_nodes(start, observed)[start]`, but active_trail_nodes removes latent nodes from its answer by default: "
                    "for a latent `end` the answer is always False, even for adjacent nodes (and minimal_dseparator / the causal criteria build on it)", construct="is_dconnected latent end")
        par = getattr(c, "_parent", None)
        if not (isinstance(par, ast.Subscript) and dotted(par.slice) == p[1]):
            rc.fail(fi, c, "is_dconnected must read the active set of `start`")
        # the membership test of `end` decides the answer with positive polarity
        ok = False
        for s in sites(fi.node, lambda n: isinstance(n, ast.Return)):
            pass
        for r in returns_of(fi):
            v = r.value
            conds = [s for s in sites(fi.node, lambda n: n is r)]
            f = path_formula(conds[0], lambda e: A("member") if (isinstance(e, ast.Compare) and isinstance(e.ops[0], ast.In) and dotted(e.left) == p[2]
                                                               and any(x is c for x in ast.walk(e.comparators[0]))) else None) if conds else T
            if isinstance(v, ast.Constant) and isinstance(v.value, bool):
                want = A("member") if v.value else Not(A("member"))
                good, cx, _ = implies(f, want)
                if not good:
                    rc.fail(fi, r, "is_dconnected returns the wrong truth value for the membership of `end` in the active set")
                ok = True
            elif isinstance(v, ast.Compare) and isinstance(v.ops[0], ast.In) and dotted(v.left) == p[2]:
                ok = True
            elif isinstance(v, ast.Compare) and isinstance(v.ops[0], ast.NotIn):
                rc.fail(fi, r, "is_dconnected returns the negated membership")
                ok = True
        if not ok:
            rc.fail(fi, fi.node, "is_dconnected: cannot relate the returned value to membership of `end` in the active set", construct="return")

    # callers that must route through the single implementation
    routes = [
        (DAG, "DAG.get_independencies", {"active_trail_nodes"}),
        (DAG, "DAG.minimal_dseparator", {"is_dconnected"}),
        ("pgmpy/inference/base.py", "Inference._prune_bayesian_model", {"active_trail_nodes", "is_dconnected"}),
        ("pgmpy/inference/CausalInference.py", "CausalInference.is_valid_backdoor_adjustment_set", {"is_dconnected", "active_trail_nodes"}),
        ("pgmpy/inference/CausalInference.py", "CausalInference.is_valid_frontdoor_adjustment_set", {"is_dconnected", "active_trail_nodes", "is_valid_backdoor_adjustment_set"}),
    ]
    for rel, q, need in routes:
        f2 = repo.func(rel, q)
        got = {call_name(c) for c in repo.calls_in(f2)} & need
        rc.ob(f"{q} -> {sorted(got)}")
        if not got:
            rc.fail(f2, f2.node, f"{q} no longer answers through {sorted(need)}", construct="route")

    # pruning for inference must keep latent nodes on active trails (they are summed out, not cut off)
    pr = repo.func("pgmpy/inference/base.py", "Inference._prune_bayesian_model")
    for c in calls_named(pr, "active_trail_nodes"):
        il = kwarg(c, "include_latents") or (c.args[2] if len(c.args) > 2 else None)
        rc.ob(f"_prune_bayesian_model -> {norm(c, 100)}")
        if not (isinstance(il, ast.Constant) and il.value is True):
            rc.fail(pr, c, "network pruning must ask for active trails INCLUDING latent nodes; otherwise a latent between query and evidence is pruned as if d-separated")
        ob = kwarg(c, "observed") or (c.args[1] if len(c.args) > 1 else None)
        if ob is None or "evidence" not in norm(ob):
            rc.fail(pr, c, "network pruning must condition the active trails on the evidence variables")

    # get_independencies: passes include_latents and the observed tuple, subtracts the active set from the rest
    gi = repo.func(DAG, "DAG.get_independencies")
    for c in calls_named(gi, "active_trail_nodes"):
        ob = c.args[1] if len(c.args) > 1 else kwarg(c, "observed")
        if ob is None:
            rc.fail(gi, c, "get_independencies must pass the conditioning set as `observed`")
        il = c.args[2] if len(c.args) > 2 else kwarg(c, "include_latents")
        if il is None or dotted(il) != "include_latents":
            rc.fail(gi, c, "get_independencies must forward include_latents")
        par = getattr(c, "_parent", None)
        if not isinstance(par, ast.Subscript):
            rc.fail(gi, c, "get_independencies must read the active set of `start`")

    # overrides of active_trail_nodes / _get_ancestors_of are call-compatible with the base
    for meth in ("active_trail_nodes", "_get_ancestors_of", "is_dconnected"):
        b = dag.methods.get(meth)
        if b is None:
            raise AnalysisError(f"DAG.{meth} vanished")
        for sub in repo.subclasses(dag):
            o = sub.methods.get(meth)
            if o is None:
                continue
            if sub.module.rel == "pgmpy/models/SEM.py":
                # SEMGraph.active_trail_nodes is a different traversal (avoid_nodes/struct) with its own callers;
                # SEM is outside this property's anchors.
                continue
            rc.ob(f"override {sub.name}.{meth}{tuple(o.params)} vs base {tuple(b.params)}")
            bp, op = b.params[1:], o.params[1:]
            has_var = o.node.args.vararg is not None and o.node.args.kwarg is not None
            if not has_var:
                if len(op) < len(bp):
                    rc.fail(o, o.node, f"override {sub.name}.{meth} accepts {op} but inherited callers pass the base's parameters {bp} "
                            f"(positional or by keyword)", construct=f"def {meth}({', '.join(o.params)})")
                else:
                    # keyword names used by callers inside pgmpy must be accepted
                    for k in bp:
                        if k not in op and _kw_used(repo, meth, k):
                            rc.fail(o, o.node, f"override {sub.name}.{meth} does not accept keyword `{k}` used by pgmpy callers",
                                    construct=f"def {meth}({', '.join(o.params)})")
            if meth == "active_trail_nodes":
                # must return a mapping start -> set like the base (callers subscript the result)
                for r in returns_of(o):
                    v = r.value
                    if isinstance(v, ast.Call) and isinstance(v.func, ast.Name) and v.func.id in ("set", "list", "frozenset") or isinstance(v, (ast.Set, ast.List, ast.BinOp, ast.SetComp, ast.ListComp)):
                        rc.fail(o, r, f"override {sub.name}.active_trail_nodes returns a bare collection; the base returns a dict "
                                f"{{start: set}} that is_dconnected/get_independencies subscript", construct="return kind")
                        break


def _kw_used(repo, meth, k):
    for f in repo.all_functions():
        for c in repo.calls_in(f):
            if call_name(c) == meth and any(x.arg == k for x in c.keywords):
                return True
    return False


# ------------------------------------------------------------------------------------------------
@rule("C08.moral", "moral graph, Markov blanket, ancestral graph and local independencies are the documented set constructions", floor=6)
def moral(rc):
    repo = rc.repo
    fi = repo.func(DAG, "DAG.moralize")
    adds = sites(fi.node, is_call_named("add_edges_from", "add_edge"))
    skeleton = marry = False
    for s in adds:
        arg = s.node.args[0] if s.node.args else None
        if arg is None:
            continue
        txt = norm(resolve(arg, s.defs))
        in_node_loop = [(t, it) for t, it in s.loops if isinstance(peel(it), ast.Call) and call_name(peel(it)) in ("nodes",)]
        if in_node_loop:
            nodev = dotted(in_node_loop[-1][0])
            a = resolve(arg, s.defs)
            if isinstance(a, ast.Call) and call_name(a) == "combinations" and len(a.args) == 2 and _const(a.args[1]) == 2 \
                    and neighbour_kind(a.args[0], s.defs, of=nodev) == "parents":
                marry = True
                rc.ob(f"moralize marries parents: {norm(s.node)}")
            else:
                rc.ob(f"moralize add in node loop (not recognised as parent marriage): {norm(s.node)}")
        else:
            a = resolve(arg, s.defs)
            if isinstance(a, ast.Call) and call_name(a) == "edges" and "self" in {n.id for n in ast.walk(a) if isinstance(n, ast.Name)}:
                skeleton = True
                rc.ob(f"moralize copies the skeleton: {norm(s.node)}")
    if not skeleton:
        rc.fail(fi, fi.node, "moral graph must contain every edge of the DAG's skeleton", construct="skeleton edges")
    if not marry:
        rc.fail(fi, fi.node, "moral graph must join every pair of parents of every node (itertools.combinations(parents(node), 2) for all nodes)", construct="marry parents")
    nodes_added = any(is_method_call(c, ("add_nodes_from",)) and c.args and call_name(peel(c.args[0])) == "nodes" for c in repo.calls_in(fi))
    if not nodes_added:
        rc.fail(fi, fi.node, "moral graph must contain all nodes (isolated ones too)", construct="nodes")
    rets = returns_of(fi)
    rc.ob(f"moralize returns {norm(rets[-1].value) if rets else None}")

    # Markov blanket = children ∪ parents ∪ parents(children) minus the node
    mb = repo.func(DAG, "DAG.get_markov_blanket")
    nodep = mb.params[1]
    kinds = set()
    co_parent = False
    for c in repo.calls_in(mb):
        k = neighbour_kind(c, {}, of=None)
        if k and c.args and dotted(c.args[0]) == nodep:
            kinds.add(k)
    for s in sites(mb.node, lambda n: isinstance(n, ast.Call) and neighbour_kind(n) == "parents"):
        a0 = s.node.args[0]
        if dotted(a0) != nodep:
            for t, it in s.loops:
                if dotted(t) == dotted(a0) and (neighbour_kind(it, s.defs, of=nodep) == "children" or _name_bound_to(mb, it, "children", nodep)):
                    co_parent = True
    rc.ob(f"markov blanket uses {sorted(kinds)} of the node, co-parents: {co_parent}")
    if kinds != {"parents", "children"} or not co_parent:
        rc.fail(mb, mb.node, "Markov blanket must be children ∪ parents ∪ parents-of-children", construct="blanket")
    removed = any(is_method_call(c, ("discard", "remove")) and c.args and dotted(c.args[0]) == nodep for c in repo.calls_in(mb)) or \
        any(isinstance(n, ast.BinOp) and isinstance(n.op, ast.Sub) and nodep in {x.id for x in ast.walk(n.right) if isinstance(x, ast.Name)} for n in ast.walk(mb.node))
    if not removed:
        rc.fail(mb, mb.node, "Markov blanket must not contain the node itself", construct="self removal")

    # ancestral graph: subgraph induced on _get_ancestors_of(nodes)
    ag = repo.func(DAG, "DAG.get_ancestral_graph")
    ok = False
    for r in returns_of(ag):
        v = r.value
        if isinstance(v, ast.Call) and call_name(v) == "subgraph":
            arg = v.args[0] if v.args else (v.keywords[0].value if v.keywords else None)
            arg = peel(arg) if arg is not None else None
            if isinstance(arg, ast.Call) and call_name(arg) == "_get_ancestors_of":
                a = arg.args[0] if arg.args else arg.keywords[0].value
                ok = dotted(peel(a)) == ag.params[1]
    rc.ob(f"ancestral graph = subgraph(_get_ancestors_of(nodes)): {ok}")
    if not ok:
        rc.fail(ag, ag.node, "ancestral graph must be the subgraph induced by the ancestors (and selves) of the given nodes", construct="ancestral")

    # local independencies: variable ⟂ (non-descendants − parents) | parents
    li = repo.func(DAG, "DAG.local_independencies")
    txt = norm(li.node, 100000)
    has_desc = any(call_name(c) in ("dfs_preorder_nodes", "descendants") for c in repo.calls_in(li))
    has_par = any(neighbour_kind(c) == "parents" for c in repo.calls_in(li))
    asserts = calls_named(li, "add_assertions")
    rc.ob(f"local_independencies: descendants via graph search: {has_desc}, parents: {has_par}, assertions: {len(asserts)}")
    if not (has_desc and has_par and asserts):
        rc.fail(li, li.node, "local independencies must be built from non-descendants and parents", construct="local")
    else:
        for c in asserts:
            a = c.args[0] if c.args else None
            if isinstance(a, ast.List) and len(a.elts) == 3:
                third = resolve(a.elts[2], _defs_of(li))
                if neighbour_kind(third, _defs_of(li)) != "parents":
                    rc.fail(li, c, "local independence must condition on the node's parents")
                second = a.elts[1]
                nd = resolve(second, _defs_of(li))
                if not (isinstance(second, ast.BinOp) and isinstance(second.op, ast.Sub)):
                    rc.fail(li, c, "the independent set must be non-descendants minus parents")


def _defs_of(fi):
    d = {}
    for n in walk_no_nested(fi.node):
        if isinstance(n, ast.Assign) and len(n.targets) == 1 and isinstance(n.targets[0], ast.Name):
            d[n.targets[0].id] = n.value
    return d


def _name_bound_to(fi, it, kind, of):
    d = _defs_of(fi)
    e = resolve(it, d)
    return neighbour_kind(e, d, of=of) == kind


# ------------------------------------------------------------------------------------------------
# self-test variants (analysed statically only)

@rule("C08.defuse", "anchored files: no parameter is accepted and ignored (generic def-use detector, triaged exemptions)", floor=2)
def defuse(rc):
    from . import shared as _sh
    _sh.defuse_rule(rc, _sh.anchor_files("C08"))

MUTANTS = [
    dict(kind="break", name="dseparator-none-after-parents-only", file=DAG, expect="C08.separator",
         old="            separator = set(an_graph.nodes()) - self.latents - {start, end}\n            if an_graph.is_dconnected(start, end, observed=separator):\n                return None",
         new="            return None"),
    dict(kind="break", name="is-dconnected-strips-latents", file=DAG, expect="C08.routing",
         old="            in self.active_trail_nodes(start, observed, include_latents=True)[start]", new="            in self.active_trail_nodes(start, observed)[start]"),
    dict(kind="break", name="start-down", file=DAG, expect="C08.table",
         old='visit_list.add((start, "up"))', new='visit_list.add((start, "down"))'),
    dict(kind="break", name="up-ignores-observed", file=DAG, expect="C08.table",
         old='if direction == "up" and node not in observed_list:', new='if direction == "up":'),
    dict(kind="break", name="down-collider-on-observed-only", file=DAG, expect="C08.table",
         old="                        if node in ancestors_list:\n", new="                        if node in observed_list:\n"),
    dict(kind="break", name="down-children-even-if-observed", file=DAG, expect="C08.table",
         old='                        if node not in observed_list:\n                            for child in self.successors(node):\n                                visit_list.add((child, "down"))\n                        if node in ancestors_list',
         new='                        if True:\n                            for child in self.successors(node):\n                                visit_list.add((child, "down"))\n                        if node in ancestors_list'),
    dict(kind="break", name="active-includes-observed", file=DAG, expect="C08.table",
         old="                    if node not in observed_list:\n                        active_nodes.add(node)", new="                    if True:\n                        active_nodes.add(node)"),
    dict(kind="break", name="up-parents-swapped", file=DAG, expect="C08.table",
         old='                        for parent in self.predecessors(node):\n                            visit_list.add((parent, "up"))\n                        for child in self.successors(node):',
         new='                        for parent in self.successors(node):\n                            visit_list.add((parent, "up"))\n                        for child in self.successors(node):'),
    dict(kind="break", name="latents-polarity", file=DAG, expect="C08.table",
         old="            if include_latents:\n                active_trails[start] = active_nodes\n", new="            if not include_latents:\n                active_trails[start] = active_nodes\n"),
    dict(kind="break", name="ancestors-follow-children", file=DAG, expect="C08.ancestors",
         old="nodes_list.update(self.predecessors(node))", new="nodes_list.update(self.successors(node))"),
    dict(kind="break", name="ancestors-drop-seeds", file=DAG, expect="C08.ancestors",
         old="                nodes_list.update(self.predecessors(node))\n            ancestors_list.add(node)",
         new="                nodes_list.update(self.predecessors(node))\n                ancestors_list.update(self.predecessors(node))"),
    dict(kind="break", name="dconnected-negated", file=DAG, expect="C08.routing",
         old="        if (\n            end\n            in self.active_trail_nodes(start, observed, include_latents=True)[start]\n        ):\n            return True\n        else:\n            return False",
         new="        if end in self.active_trail_nodes(start, observed, include_latents=True)[start]:\n            return False\n        else:\n            return True"),
    dict(kind="break", name="dconnected-drops-observed", file=DAG, expect="C08.routing",
         old="self.active_trail_nodes(start, observed, include_latents=True)[start]", new="self.active_trail_nodes(start, include_latents=True)[start]"),
    dict(kind="break", name="moralize-children", file=DAG, expect="C08.moral",
         old="itertools.combinations(self.get_parents(node), 2)", new="itertools.combinations(self.get_children(node), 2)"),
    dict(kind="break", name="blanket-no-coparents", file=DAG, expect="C08.moral",
         old="blanket_nodes.extend(self.get_parents(child_node))", new="blanket_nodes.extend(self.get_children(child_node))"),
    dict(kind="break", name="ancestral-no-closure", file=DAG, expect="C08.moral",
         old="return self.subgraph(nodes=self._get_ancestors_of(nodes=nodes))", new="return self.subgraph(nodes=nodes)"),
    # behaviour-preserving twins
    dict(kind="twin", name="nested-if-instead-of-and", file=DAG,
         old='                    if direction == "up" and node not in observed_list:\n                        for parent in self.predecessors(node):\n                            visit_list.add((parent, "up"))\n                        for child in self.successors(node):\n                            visit_list.add((child, "down"))\n                    elif direction == "down":',
         new='                    if direction == "up":\n                        if not (node in observed_list):\n                            for child in self.get_children(node):\n                                visit_list.add((child, "down"))\n                            for parent in self.get_parents(node):\n                                visit_list.add((parent, "up"))\n                    elif direction == "down":'),
    dict(kind="twin", name="ancestors-add-inside-if", file=DAG,
         old="            if node not in ancestors_list:\n                nodes_list.update(self.predecessors(node))\n            ancestors_list.add(node)",
         new="            if node not in ancestors_list:\n                ancestors_list.add(node)\n                for p in self.predecessors(node):\n                    nodes_list.add(p)"),
    dict(kind="twin", name="dconnected-direct-return", file=DAG,
         old="        if (\n            end\n            in self.active_trail_nodes(start, observed, include_latents=True)[start]\n        ):\n            return True\n        else:\n            return False",
         new="        return end in self.active_trail_nodes(start, observed, include_latents=True)[start]"),
    dict(kind="twin", name="latents-else-swapped", file=DAG,
         old="            if include_latents:\n                active_trails[start] = active_nodes\n            else:\n                active_trails[start] = active_nodes - self.latents",
         new="            if not include_latents:\n                active_trails[start] = active_nodes - self.latents\n            else:\n                active_trails[start] = active_nodes"),
]


# ------------------------------------------------------------------------------------------------
@rule("C08.perstart", "Bayes-ball state (worklist, visited set, active set) is initialised afresh for every start variable", floor=3)
def perstart(rc):
    fi = rc.repo.func(DAG, "DAG.active_trail_nodes")
    fn = fi.node
    loops = [n for n in walk_no_nested(fn) if isinstance(n, ast.While)]
    if len(loops) != 1:
        raise AnalysisError("active_trail_nodes: expected one worklist loop")
    wl = loops[0]
    outer = getattr(wl, "_parent", None)
    if not isinstance(outer, ast.For):
        raise AnalysisError("active_trail_nodes: the worklist loop is not nested in the loop over start variables")
    # sets mutated inside the worklist loop
    used = set()
    for n in ast.walk(wl):
        if isinstance(n, ast.Call) and isinstance(n.func, ast.Attribute) and n.func.attr in ("add", "pop", "update", "append") and isinstance(n.func.value, ast.Name):
            used.add(n.func.value.id)
    for name in sorted(used):
        inits = [n for n in walk_no_nested(fn) if isinstance(n, ast.Assign) and dotted(n.targets[0]) == name]
        inside = [n for n in inits if any(p is outer for p in _parents(n)) and not any(p is wl for p in _parents(n))]
        rc.ob(f"per-start state `{name}`: {len(inits)} initialisation(s), {len(inside)} inside the per-start loop")
        if not inside:
            rc.fail(fi, inits[0] if inits else fn, f"`{name}` is part of the traversal state but is not re-initialised for each start variable: "
                    f"with several start variables the second traversal is cut short by what the first one visited", construct=f"per-start init of {name}")


@rule("C08.separator", "minimal_dseparator: latent parents replaced to a fixed point, d-separation verified, every member tested for removal before returning", floor=4)
def separator(rc):
    fi = rc.repo.func(DAG, "DAG.minimal_dseparator")
    fn = fi.node
    start, end = fi.params[1], fi.params[2]
    # adjacency rejected
    rs = [s for s in sites(fn, lambda n: isinstance(n, ast.Raise))]
    rc.ob(f"adjacent endpoints rejected: {bool(rs)}")
    if not rs:
        rc.fail(fi, fn, "adjacent start/end must be rejected (no separator exists)", construct="adjacent check")
    # initial separator: parents of both endpoints
    seps = [n for n in walk_no_nested(fn) if isinstance(n, ast.Assign) and isinstance(n.targets[0], ast.Name) and "predecessors" in norm(n.value, 400)
            and start in norm(n.value, 400) and end in norm(n.value, 400)]
    if not seps:
        raise AnalysisError("minimal_dseparator: initial separator (parents of both endpoints) not found")
    sep = seps[0].targets[0].id
    rc.ob(f"initial separator `{sep}` = {norm(seps[0].value, 100)}")
    # latent replacement to a fixed point
    wl = [n for n in walk_no_nested(fn) if isinstance(n, ast.While) and "latents" in norm(n.test) and sep in norm(n.test)]
    ok_fix = False
    for w in wl:
        body = norm(w, 3000)
        if "predecessors(" in body and ("remove(" in body or "discard(" in body or " - " in body):
            ok_fix = True
    rc.ob(f"latent members replaced by their parents until none is left: {ok_fix}")
    if not ok_fix:
        rc.fail(fi, fn, "latent members of the separator must be replaced by their parents repeatedly, until no latent remains (a latent's parent may be latent too)",
                construct="latent replacement fixpoint")
    # endpoints removed
    if not any(call_name(c) in ("difference_update", "discard") or (isinstance(getattr(c, '_parent', None), ast.Assign)) for c in calls_named(fi, "difference_update", "discard")):
        rc.fail(fi, fn, "start and end must never be members of the separator", construct="endpoints removed")
    # verification: if still d-connected return None
    none_ret = [s for s in sites(fn, lambda n: isinstance(n, ast.Return) and isinstance(n.value, ast.Constant) and n.value.value is None)]
    ok_ver = any(any(isinstance(t, ast.Call) and call_name(t) == "is_dconnected" and pol for t, pol in s.conds) for s in none_ret)
    rc.ob(f"unseparable pair answered with None after an is_dconnected test: {ok_ver}")
    # with latent variables, "no separator" may only be concluded after the MAXIMAL observed candidate failed: if any observed set separates the endpoints,
    # so does the set of all observed nodes of their ancestral graph (the parents-with-latents-replaced set can fail although a separator exists)
    full = [(n_, b_) for n_, b_ in tm.find_all(fn, "_S = set(_AG.nodes()) - self.latents - {start, end}")]
    ok_full = False
    for s_ in none_ret:
        for t, pol in s_.conds:
            if pol and isinstance(t, ast.Call) and call_name(t) == "is_dconnected":
                ob = kwarg(t, "observed") or (t.args[2] if len(t.args) > 2 else None)
                if any(dotted(ob) == b_["_S"] and n_.lineno < t.lineno and all(n_.lineno > t2.lineno for t2, p2 in s_.conds if t2 is not t and isinstance(t2, ast.Call) and t2.lineno < t.lineno)
                       for n_, b_ in full):
                    ok_full = True
    rc.ob(f"None only after the set of all observed ancestors failed to separate: {ok_full}")
    if ok_ver and not ok_full:
        rc.fail(fi, none_ret[0].node if none_ret else fn, "minimal_dseparator answers None as soon as the parents (latent ones replaced by their parents) fail to separate: with a latent parent "
                "an observed separator can exist all the same (the observed ancestors of the endpoints separate whenever some observed set does); None must be concluded only after "
                "that maximal candidate failed", construct="None before the maximal observed candidate")
    if not ok_ver:
        rc.fail(fi, fn, "if the candidate set does not d-separate the endpoints the answer must be None", construct="verification")
    # reduction loop
    red = None
    for n in walk_no_nested(fn):
        if isinstance(n, ast.For) and dotted(n.iter) == sep or (isinstance(n, ast.For) and isinstance(n.iter, ast.Call) and n.iter.args and dotted(n.iter.args[0]) == sep):
            txt = norm(n, 2000)
            if "is_dconnected" in txt and ("remove(" in txt or "discard(" in txt):
                red = n
    if red is None:
        rc.fail(fi, fn, "every member of the separator must be tested for removal (minimality)", construct="reduction loop")
        return
    rem = [c for c in ast.walk(red) if isinstance(c, ast.Call) and call_name(c) in ("remove", "discard")]
    result = dotted(rem[0].func.value)
    rc.ob(f"reduction loop over `{sep}` shrinking `{result}`")
    test_ok = False
    for s in sites(fn, lambda n: n in rem):
        for t, pol in s.conds:
            if isinstance(t, ast.Call) and call_name(t) == "is_dconnected" and not pol:
                ob = kwarg(t, "observed") or (t.args[2] if len(t.args) > 2 else None)
                if ob is not None and isinstance(ob, ast.BinOp) and isinstance(ob.op, ast.Sub) and dotted(ob.left) == result:
                    test_ok = True
    if not test_ok:
        rc.fail(fi, red, "a member may be dropped only if the remaining set (current result minus that member) still d-separates the endpoints", construct="reduction test")
    # every non-None return returns the reduced set and comes after the loop
    for r in returns_of(fi):
        if isinstance(r.value, ast.Constant) and r.value.value is None:
            continue
        after = r.lineno > red.end_lineno
        rc.ob(f"return {norm(r.value)} (after the reduction loop: {after})")
        if dotted(r.value) != result or not after:
            rc.fail(fi, r, "a separator is returned without having been reduced to a minimal one", construct=f"unreduced return {norm(r.value)}")


MUTANTS += [
    dict(kind="break", name="visited-shared-across-starts", file=DAG, expect="C08.perstart",
         old="        active_trails = {}\n        for start in variables if isinstance(variables, list) else [variables]:\n            visit_list = set()\n            visit_list.add((start, \"up\"))\n            traversed_list = set()\n",
         new="        active_trails = {}\n        traversed_list = set()\n        for start in variables if isinstance(variables, list) else [variables]:\n            visit_list = set()\n            visit_list.add((start, \"up\"))\n"),
    dict(kind="break", name="separator-early-return", file=DAG, expect="C08.separator",
         old="        minimal_separator = separator.copy()\n", new="        if len(separator) <= 1:\n            return separator\n        minimal_separator = separator.copy()\n"),
    dict(kind="break", name="separator-latents-single-pass", file=DAG, expect="C08.separator",
         old="        while len(separator.intersection(self.latents)) != 0:\n            separator_copy = separator.copy()\n            for u in separator:\n                if u in self.latents:\n                    separator_copy.remove(u)\n                    separator_copy.update(set(self.predecessors(u)))\n            separator = separator_copy\n",
         new="        for u in separator.intersection(self.latents):\n            separator.remove(u)\n            separator.update(self.predecessors(u))\n"),
    dict(kind="break", name="separator-no-verification", file=DAG, expect="C08.separator",
         old="        if an_graph.is_dconnected(start, end, observed=separator):\n            separator = set(an_graph.nodes()) - self.latents - {start, end}\n            if an_graph.is_dconnected(start, end, observed=separator):\n                return None\n", new=""),
    dict(kind="break", name="prune-excludes-latents", file="pgmpy/inference/base.py", expect="C08.routing",
         old="variables=variables, observed=list(evidence.keys()), include_latents=True", new="variables=variables, observed=list(evidence.keys())"),
]
