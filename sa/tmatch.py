"""Template matching on the AST with metavariables — alpha-invariant comparison of code shapes.

A pattern is Python source in which
    _A, _v, _IDX ...    (one underscore + up to six letters/digits)  stand for ANY local NAME (bound consistently), and
    __E, __COEF ...     (two underscores + up to seven letters/digits) stand for ANY EXPRESSION (bound consistently).
Everything else must match structurally (contexts, positions and formatting are ignored).  Rules written with templates do
not depend on what the analysed code calls its local variables.
"""
from __future__ import annotations

import ast
from typing import Dict, Iterator, List, Optional, Tuple

from .core import norm, walk_no_nested

_CACHE: Dict[str, ast.AST] = {}


import re as _re

_NAMEVAR = _re.compile(r"^_[A-Za-z][A-Za-z0-9]{0,5}$")
_EXPRVAR = _re.compile(r"^__[A-Za-z][A-Za-z0-9]{0,6}$")


def _is_name_var(s: str) -> bool:
    return bool(_NAMEVAR.match(s))


def _is_expr_var(s: str) -> bool:
    return bool(_EXPRVAR.match(s))


def pattern(src: str) -> ast.AST:
    if src not in _CACHE:
        m = ast.parse(src.strip())
        node = m.body[0]
        if isinstance(node, ast.Expr):
            node = node.value
        _CACHE[src] = node
    return _CACHE[src]


def match(p, n, b: Dict[str, object]) -> bool:
    """does node n match pattern p under (and extending) bindings b?"""
    if isinstance(p, ast.Name):
        if _is_expr_var(p.id):
            if p.id in b:
                return isinstance(b[p.id], ast.AST) and ast.dump(b[p.id]) == ast.dump(n) if isinstance(n, ast.AST) else False
            if not isinstance(n, ast.AST):
                return False
            b[p.id] = n
            return True
        if _is_name_var(p.id):
            if not isinstance(n, ast.Name):
                return False
            if p.id in b:
                return b[p.id] == n.id
            if n.id in [v for k, v in b.items() if _is_name_var(k)]:
                return False  # two different metavariables never bind the same name
            b[p.id] = n.id
            return True
        return isinstance(n, ast.Name) and n.id == p.id
    if isinstance(p, ast.arg) and isinstance(n, ast.arg):
        if _is_name_var(p.arg):
            if p.arg in b:
                return b[p.arg] == n.arg
            b[p.arg] = n.arg
            return True
        return p.arg == n.arg
    if type(p) is not type(n):
        return False
    if isinstance(p, ast.Constant):
        return p.value == n.value and type(p.value) is type(n.value)
    for fld in p._fields:
        if fld in ("ctx", "type_comment", "kind", "lineno", "col_offset", "end_lineno", "end_col_offset"):
            continue
        pv, nv = getattr(p, fld, None), getattr(n, fld, None)
        if isinstance(pv, list):
            if not isinstance(nv, list) or len(pv) != len(nv):
                return False
            for x, y in zip(pv, nv):
                if isinstance(x, ast.AST):
                    if not match(x, y, b):
                        return False
                elif x != y:
                    return False
        elif isinstance(pv, ast.AST):
            if not isinstance(nv, ast.AST) or not match(pv, nv, b):
                return False
        else:
            if isinstance(pv, str) and fld in ("id", "arg", "name") and _is_name_var(pv):
                if pv in b:
                    if b[pv] != nv:
                        return False
                else:
                    b[pv] = nv
            elif pv != nv:
                return False
    return True


def find_all(root, src: str, binds: Dict[str, object] = None, nested=False) -> List[Tuple[ast.AST, Dict[str, object]]]:
    p = pattern(src)
    out = []
    it = ast.walk(root) if nested else walk_no_nested(root)
    for n in it:
        if type(n) is type(p) or isinstance(p, ast.Name):
            b = dict(binds or {})
            if match(p, n, b):
                out.append((n, b))
    return out


def find(root, src: str, binds=None, nested=False):
    r = find_all(root, src, binds, nested)
    return r[0] if r else (None, None)


def has(root, src: str, binds=None, nested=False) -> bool:
    return bool(find_all(root, src, binds, nested))


def is_(node, src: str, binds=None) -> Optional[Dict[str, object]]:
    """bindings if `node` itself matches the template, else None"""
    if node is None:
        return None
    b = dict(binds or {})
    return b if match(pattern(src), node, b) else None
