"""Edge-literal extraction: turn graph queries and set algebra over neighbour sets into formulas over
edge atoms  E(g, a, b)  (directed graph g has a->b)  and  S(g, {a,b})  (undirected graph g has a-b).
"""
from __future__ import annotations

import ast
from typing import Dict, Optional

from .core import AnalysisError, call_name, dotted, norm
from .guards import A, And, F, Not, Or, T
from .util import peel, resolve


def E(g, a, b, kinds):
    if kinds.get(g) == "undirected":
        return A(("S", g, tuple(sorted((a, b)))))
    return A(("E", g, a, b))


def membership(expr, elem: str, defs: Dict[str, ast.expr], kinds: Dict[str, str], depth=0) -> Optional[tuple]:
    """formula for `elem in expr`, or None if expr is not neighbour-set algebra."""
    if depth > 12:
        return None
    e = expr
    if isinstance(e, ast.Name) and e.id in defs:
        return membership(defs[e.id], elem, defs, kinds, depth + 1)
    if isinstance(e, ast.Call) and isinstance(e.func, ast.Name) and e.func.id in ("set", "list", "tuple", "frozenset", "sorted") and len(e.args) == 1:
        return membership(e.args[0], elem, defs, kinds, depth + 1)
    if isinstance(e, ast.BinOp):
        l = membership(e.left, elem, defs, kinds, depth + 1)
        r = membership(e.right, elem, defs, kinds, depth + 1)
        if l is None or r is None:
            return None
        if isinstance(e.op, ast.BitAnd):
            return And(l, r)
        if isinstance(e.op, ast.BitOr):
            return Or(l, r)
        if isinstance(e.op, ast.Sub):
            return And(l, Not(r))
        return None
    if isinstance(e, ast.Call) and isinstance(e.func, ast.Attribute):
        g = dotted(e.func.value)
        m = e.func.attr
        if m in ("intersection", "union", "difference") and e.args:
            l = membership(e.func.value, elem, defs, kinds, depth + 1)
            r = membership(e.args[0], elem, defs, kinds, depth + 1)
            if l is None or r is None:
                return None
            return {"intersection": And(l, r), "union": Or(l, r), "difference": And(l, Not(r))}[m]
        if g in kinds and len(e.args) == 1 and isinstance(e.args[0], ast.Name):
            x = e.args[0].id
            if m in ("successors", "get_children"):
                return E(g, x, elem, kinds)
            if m in ("predecessors", "get_parents"):
                return E(g, elem, x, kinds)
            if m in ("neighbors", "adj", "__getitem__"):
                return E(g, x, elem, kinds)
    if isinstance(e, ast.Subscript) and dotted(e.value) in kinds and isinstance(e.slice, ast.Name):
        return E(dotted(e.value), e.slice.id, elem, kinds)
    if isinstance(e, (ast.Set, ast.List, ast.Tuple)) and all(isinstance(x, ast.Name) for x in e.elts):
        return Or(*[A(("eq", tuple(sorted((elem, x.id))))) for x in e.elts]) if e.elts else F
    return None


def edge_test(expr, kinds: Dict[str, str]) -> Optional[tuple]:
    """G.has_edge(a, b) -> atom;  (a, b) in G.edges() -> atom."""
    if isinstance(expr, ast.Call) and isinstance(expr.func, ast.Attribute) and expr.func.attr in ("has_edge", "has_successor") \
            and dotted(expr.func.value) in kinds and len(expr.args) == 2 \
            and all(isinstance(a, ast.Name) for a in expr.args):
        return E(dotted(expr.func.value), expr.args[0].id, expr.args[1].id, kinds)
    if isinstance(expr, ast.Call) and isinstance(expr.func, ast.Attribute) and expr.func.attr == "has_predecessor" \
            and dotted(expr.func.value) in kinds and len(expr.args) == 2 and all(isinstance(a, ast.Name) for a in expr.args):
        return E(dotted(expr.func.value), expr.args[1].id, expr.args[0].id, kinds)
    if isinstance(expr, ast.Compare) and len(expr.ops) == 1 and isinstance(expr.ops[0], ast.In):
        l, r = expr.left, expr.comparators[0]
        if isinstance(l, ast.Tuple) and len(l.elts) == 2 and all(isinstance(a, ast.Name) for a in l.elts):
            rr = peel(r)
            if isinstance(rr, ast.Call) and call_name(rr) == "edges" and isinstance(rr.func, ast.Attribute) and dotted(rr.func.value) in kinds:
                return E(dotted(rr.func.value), l.elts[0].id, l.elts[1].id, kinds)
    if isinstance(expr, ast.Compare) and len(expr.ops) == 1 and isinstance(expr.ops[0], (ast.Eq,)) \
            and isinstance(expr.left, ast.Name) and isinstance(expr.comparators[0], ast.Name):
        return A(("eq", tuple(sorted((expr.left.id, expr.comparators[0].id)))))
    return None


def rename(f, mapping: Dict[str, str]):
    """Rename node-variable names inside edge atoms."""
    k = f[0]
    if k == "const":
        return f
    if k == "atom":
        a = f[1]
        if isinstance(a, tuple):
            if a[0] == "E":
                return A(("E", a[1], mapping.get(a[2], a[2]), mapping.get(a[3], a[3])))
            if a[0] in ("S",):
                return A(("S", a[1], tuple(sorted(mapping.get(x, x) for x in a[2]))))
            if a[0] == "eq":
                return A(("eq", tuple(sorted(mapping.get(x, x) for x in a[1]))))
            if a[0] in ("insep", "dpath"):
                return A((a[0],) + tuple(_ren(x, mapping) for x in a[1:]))
        return f
    if k == "not":
        return Not(rename(f[1], mapping))
    return (k, [rename(g, mapping) for g in f[1]])


def _ren(x, mapping):
    if isinstance(x, tuple):
        return tuple(sorted(mapping.get(y, y) for y in x))
    return mapping.get(x, x)
