"""Thorough tier: mutation-adequacy self-test of the rules (static only — variants are parsed, never run).

For the property's rules:
  * breaking variants (one site broken)            -> some rule must report a NEW finding (named rule if given)
  * behaviour-preserving twins                      -> the finding set must not change
  * seeded changes kept under /verif/seeded/<id>/   -> must be detected (patch applied to a scratch copy
    outside /repo and /verif, removed immediately)
A variant whose anchor text is not present in the current tree is skipped and listed (it is not an error:
the tree may have been edited); if *no* variant of a property applies the self-test reports a problem.
"""
from __future__ import annotations

import glob
import importlib
import json
import os
import shutil
import subprocess
import tempfile
from concurrent.futures import ProcessPoolExecutor

from .core import AnalysisError, Repo

VERIF = os.path.dirname(os.path.dirname(os.path.abspath(__file__)))


def _keys(prop, repo):
    from . import cli
    reports = cli.run_property(prop, repo)
    return {f.key(): f for r in reports for f in r.findings}


def _analyse(args):
    prop, root, overlay = args
    try:
        repo = Repo(root, overlay=overlay)
        if repo.parse_errors:
            return ("syntax", repo.parse_errors)
        from . import cli
        reports = cli.run_property(prop, repo)
        ks = {f.key(): f for r in reports for f in r.findings}
        errs = [r.error for r in reports if getattr(r, "error", None)]
        if errs and not ks:
            return ("analysis-error", "; ".join(errs))
        # a rule that cannot decide on the variant is reported next to the findings of the other rules (it must not be hidden by them: a twin on which a rule
        # answers "cannot decide" is a self-test problem, and it is not a detection of a breaking variant)
        out = [(list(k), f.message) for k, f in ks.items()]
        out += [([prop, "ANALYSIS-ERROR", "", "", e], e) for e in errs]
        return ("ok", out)
    except AnalysisError as e:
        return ("analysis-error", str(e))
    except Exception as e:  # pragma: no cover
        import traceback
        return ("crash", traceback.format_exc())


def _apply_patch_overlay(root, patch_path):
    """Apply a git diff to a scratch copy of the touched files; return overlay {rel: new source} or None."""
    tmp = tempfile.mkdtemp(prefix="pgmpy-verif-")
    try:
        text = open(patch_path).read()
        files = []
        for line in text.splitlines():
            if line.startswith("+++ b/"):
                files.append(line[6:].strip())
        for rel in files:
            src = os.path.join(root, rel)
            dst = os.path.join(tmp, rel)
            os.makedirs(os.path.dirname(dst), exist_ok=True)
            if os.path.exists(src):
                shutil.copy(src, dst)
        r = subprocess.run(["patch", "-p1", "-s", "-f", "-i", os.path.abspath(patch_path)], cwd=tmp, capture_output=True, text=True)
        if r.returncode != 0:
            return None
        return {rel: open(os.path.join(tmp, rel)).read() for rel in files if rel.endswith(".py") and "/tests/" not in rel}
    finally:
        shutil.rmtree(tmp, ignore_errors=True)


def run(prop, repo, seed=0):
    mod = importlib.import_module("sa.rules." + prop.lower())
    mutants = list(getattr(mod, "MUTANTS", []))
    base = set(_keys(prop, repo).keys())
    jobs, meta = [], []
    skipped = []
    for m in mutants:
        rel = m["file"]
        src = repo.modules[rel].src if rel in repo.modules else None
        if src is None or src.count(m["old"]) != 1:
            skipped.append(f"{m['kind']}:{m['name']} (anchor text not present exactly once in {rel})")
            continue
        jobs.append((prop, repo.root, {rel: src.replace(m["old"], m["new"])}))
        meta.append(m)
    # every stored seeded change that some rule of THIS property is recorded to catch (a change written against another
    # property may be caught here, and vice versa)
    seeded_dirs = sorted(glob.glob(os.path.join(VERIF, "seeded", "*")))
    for d in seeded_dirs:
        patch = os.path.join(d, "patch.diff")
        mj = os.path.join(d, "meta.json")
        if not (os.path.exists(patch) and os.path.exists(mj)):
            continue
        name = os.path.basename(d)
        try:
            det = json.load(open(mj)).get("detected_by") or []
        except Exception:
            det = []
        mine = [r for r in det if r.startswith(prop + ".")]
        if not mine:
            if name.startswith(prop) and not det:
                skipped.append(f"seeded:{name} (recorded as not statically detectable; see meta.json)")
            continue
        ov = _apply_patch_overlay(repo.root, patch)
        if ov is None:
            skipped.append(f"seeded:{name} (patch does not apply to the current tree)")
            continue
        jobs.append((prop, repo.root, ov))
        meta.append({"kind": "seeded", "name": name, "expect": mine[0]})
    res = {"programs": len(jobs), "breaking": 0, "breaking_detected": 0, "twins": 0, "twins_silent": 0,
           "seeded": 0, "seeded_detected": 0, "skipped": skipped, "problems": [], "cases": []}
    if not jobs:
        if mutants or seeded_dirs:
            res["problems"].append("no self-test variant applies to the current tree")
        return res
    with ProcessPoolExecutor(max_workers=min(16, len(jobs))) as ex:
        outs = list(ex.map(_analyse, jobs))
    for m, (status, payload) in zip(meta, outs):
        kind = m["kind"]
        case = {"kind": kind, "name": m["name"], "status": status}
        if status in ("syntax", "crash"):
            res["problems"].append(f"{kind}:{m['name']}: variant could not be analysed ({status}): {str(payload)[:300]}")
            res["cases"].append(case)
            continue
        if status == "analysis-error":
            new = [("ANALYSIS-ERROR", payload)]
            new_rules = {"ANALYSIS-ERROR"}
        else:
            new = [(tuple(k), msg) for k, msg in payload if tuple(k) not in base]
            new_rules = {k[1] for k, _ in new}
        case["new_findings"] = [f"{k[1] if isinstance(k, tuple) else k}: {msg}"[:200] for k, msg in new][:4]
        if kind == "repair":
            # a repaired scratch copy: the (known) findings of the named rule must vanish and nothing new appear
            res.setdefault("repairs", 0)
            res.setdefault("repairs_silent", 0)
            res["repairs"] += 1
            # the findings that must vanish: those of the named rule (and, when given, of the named construct only — a rule may have several known findings)
            remaining = [k for k, _ in payload if k[1] == m["gone"] and (m.get("construct") is None or k[4] == m["construct"])] if status == "ok" else ["analysis-error"]
            if not remaining and not new:
                res["repairs_silent"] += 1
            else:
                res["problems"].append(f"repair:{m['name']}: rule {m['gone']} still reports {remaining or new} on the repaired variant")
            res["cases"].append(case)
            continue
        if kind == "twin":
            res["twins"] += 1
            if not new:
                res["twins_silent"] += 1
            else:
                res["problems"].append(f"twin:{m['name']}: behaviour-preserving variant raised {case['new_findings']}")
        else:
            key = "breaking" if kind == "break" else "seeded"
            res[key] += 1
            exp = m.get("expect")
            hit = bool(new) and (exp is None or exp in new_rules) and new_rules != {"ANALYSIS-ERROR"}
            if hit:
                res[key + "_detected"] += 1
            else:
                res["problems"].append(f"{kind}:{m['name']}: not detected (expected {exp}, got {sorted(new_rules)})")
        res["cases"].append(case)
    return res
