"""Engine C (effects): who may mutate what — a flow-sensitive provenance analysis with call summaries.

Provenance of a value:  FRESH (created in this function: constructor, literal, comprehension, `.copy()`, arithmetic,
result of an out-of-place operation)  or  a set of ROOTS it may alias (parameter names, 'self', '<global>').
Containers built freshly from borrowed elements are FRESH with borrowed *elements* (`list(self.cpds)`).
A mutation site whose target is rooted in a borrowed value is reported as (root, node, how).

Specialisation by flag: `fold={'inplace': False}` folds that parameter to a constant (through IfExp, if/else and
`not`), so `phi = self if inplace else self.copy()` is FRESH under inplace=False and aliases self under True.
"""
from __future__ import annotations

import ast
from dataclasses import dataclass, field
from typing import Dict, FrozenSet, List, Optional, Set, Tuple

from .core import AnalysisError, FuncInfo, Repo, call_name, dotted, kwarg, norm, walk_no_nested

# -- method-name tables --------------------------------------------------------------------------
CONTAINER_MUTATORS = {
    "append", "extend", "insert", "remove", "pop", "clear", "sort", "reverse", "update", "add", "discard", "setdefault",
    "popitem", "difference_update", "intersection_update", "symmetric_difference_update", "appendleft", "popleft",
    "fill", "resize", "put", "itemset", "setflags", "partition",
}
ORDER_ONLY = {"sort", "reverse"}
NX_EDITORS = {
    "add_node", "add_nodes_from", "add_edge", "add_edges_from", "add_weighted_edges_from", "remove_node", "remove_nodes_from",
    "remove_edge", "remove_edges_from", "clear_edges",
}
PANDAS_INPLACE_KW = {"drop", "rename", "fillna", "sort_values", "reset_index", "set_index", "replace", "dropna", "drop_duplicates", "sort_index"}
FRESH_FUNCS = {
    "list", "set", "dict", "tuple", "sorted", "frozenset", "deepcopy", "copy", "array", "zeros", "ones", "zeros_like", "ones_like", "empty",
    "full", "arange", "defaultdict", "OrderedDict", "deque", "DataFrame", "Series", "concatenate", "stack", "vstack", "hstack", "product",
    "combinations", "permutations", "chain", "range", "enumerate", "zip", "map", "filter", "reversed", "len", "sum", "max", "min", "abs",
    "str", "int", "float", "bool", "isinstance", "hasattr", "getattr", "type", "id", "hash", "repr", "format", "print", "any", "all", "next", "iter",
    "einsum", "contract", "prod", "log", "exp", "where", "unique", "tile", "repeat", "cumsum", "argmax", "argmin", "argsort", "dot", "matmul",
    "factor_product", "factor_divide", "factor_sum_product",
}
# numpy functions that return a VIEW / alias of their first argument
ALIAS_FUNCS = {"asarray", "asanyarray", "reshape", "ravel", "squeeze", "swapaxes", "transpose", "moveaxis", "atleast_1d", "atleast_2d", "expand_dims", "broadcast_to"}
ALIAS_METHODS = {"reshape", "ravel", "squeeze", "swapaxes", "transpose", "view", "values", "items", "keys", "get", "__getitem__", "nodes", "edges"}
ALIAS_ATTRS = {"T", "values", "flat", "real"}

FRESH = frozenset()
# fields of `self` that are objects handed in by the caller (tracked as roots of their own)
SELF_FIELD_ROOTS = {"model", "data", "base_scorer", "bp", "start_bayesian_model", "one_and_half_model", "factors"}


@dataclass
class Prov:
    roots: FrozenSet[str] = FRESH          # roots the object itself may alias (empty = fresh)
    elem: FrozenSet[str] = FRESH           # roots its elements may alias

    def borrowed(self) -> bool:
        return bool(self.roots)

    def join(self, o: "Prov") -> "Prov":
        return Prov(self.roots | o.roots, self.elem | o.elem)

    def element(self) -> "Prov":
        r = self.roots | self.elem
        return Prov(r, r)


P_FRESH = Prov()


def P(root: str) -> Prov:
    return Prov(frozenset([root]), frozenset([root]))


@dataclass
class Mutation:
    root: str
    node: ast.AST
    how: str
    order_only: bool = False
    via: str = ""


class Summaries:
    """Whole-package call summaries, computed lazily."""

    def __init__(self, repo: Repo):
        self.repo = repo
        self.by_name: Dict[str, List[FuncInfo]] = {}
        for f in repo.all_functions():
            self.by_name.setdefault(f.name, []).append(f)
        self._mut: Dict[int, Set[str]] = {}
        self._ret: Dict[int, bool] = {}
        self._busy: Set[int] = set()
        self.inplace_default_true = {f.name for f in repo.all_functions() if "inplace" in f.params and _const(f.param_default("inplace")) is True}
        self.inplace_any = {f.name for f in repo.all_functions() if "inplace" in f.params}

    def mutated_roots(self, fi: FuncInfo, fold=None) -> Set[str]:
        key = (id(fi.node), tuple(sorted((fold or {}).items())))
        if key in self._mut:
            return self._mut[key]
        if key in self._busy:
            return set()
        self._busy.add(key)
        fl = Flow(self, fi, fold=fold)
        fl.run()
        res = {m.root for m in fl.mutations if not m.order_only}
        self._busy.discard(key)
        self._mut[key] = res
        return res

    def returns_alias_of_self(self, fi: FuncInfo) -> bool:
        key = id(fi.node)
        if key in self._ret:
            return self._ret[key]
        if ("r", key) in self._busy:
            return False
        self._busy.add(("r", key))
        fl = Flow(self, fi)
        fl.run()
        res = "self" in fl.returned.roots
        self._busy.discard(("r", key))
        self._ret[key] = res
        return res

    def candidates(self, name: str, call: ast.Call = None) -> List[FuncInfo]:
        """pgmpy methods of that name; with `call`, only those whose signature the call can satisfy
        (filters numpy/pandas namesakes such as ndarray.sum() vs DiscreteFactor.sum(phi1))."""
        out = [f for f in self.by_name.get(name, []) if f.cls is not None]
        if call is not None and not any(isinstance(a, ast.Starred) for a in call.args) and not any(k.arg is None for k in call.keywords):
            keep = []
            for f in out:
                a = f.node.args
                pos = (a.posonlyargs + a.args)[1:]
                n_req = len(pos) - len(a.defaults) if len(a.defaults) <= len(pos) else 0
                names = [x.arg for x in pos] + [x.arg for x in a.kwonlyargs]
                supplied = len(call.args) + sum(1 for k in call.keywords if k.arg in [x.arg for x in pos[:max(n_req, 0)]])
                if len(call.args) > len(pos) and a.vararg is None:
                    continue
                if any(k.arg not in names for k in call.keywords) and a.kwarg is None:
                    continue
                if supplied < n_req:
                    continue
                keep.append(f)
            out = keep
        return out


def _const(e):
    return e.value if isinstance(e, ast.Constant) else None


class Flow:
    def __init__(self, summ: Summaries, fi: FuncInfo, fold: Dict[str, bool] = None, extra_roots: Dict[str, str] = None):
        self.s = summ
        self.fi = fi
        self.fold = dict(fold or {})
        self.mutations: List[Mutation] = []
        self.alias_stores: List[Tuple[ast.AST, FrozenSet[str]]] = []  # fresh_obj.field = <value aliasing borrowed storage>
        self.returned = P_FRESH
        self.state: Dict[str, Prov] = {}
        a = fi.node.args
        for p in fi.params:
            self.state[p] = P(p)
        if a.vararg:
            self.state[a.vararg.arg] = Prov(FRESH, frozenset([a.vararg.arg]))
        if a.kwarg:
            self.state[a.kwarg.arg] = Prov(FRESH, frozenset([a.kwarg.arg]))
        for k in self.fold:
            self.state[k] = P_FRESH
        self.extra = extra_roots or {}

    # ---- constant folding of the flag
    def truth(self, e) -> Optional[bool]:
        if isinstance(e, ast.Name) and e.id in self.fold:
            return self.fold[e.id]
        if isinstance(e, ast.UnaryOp) and isinstance(e.op, ast.Not):
            t = self.truth(e.operand)
            return None if t is None else (not t)
        if isinstance(e, ast.Constant) and isinstance(e.value, bool):
            return e.value
        if isinstance(e, ast.Compare) and len(e.ops) == 1 and isinstance(e.left, ast.Name) and e.left.id in self.fold \
                and isinstance(e.comparators[0], ast.Constant) and isinstance(e.ops[0], (ast.Is, ast.Eq)):
            return self.fold[e.left.id] == e.comparators[0].value
        return None

    # ---- provenance of expressions
    def prov(self, e) -> Prov:
        if e is None:
            return P_FRESH
        if isinstance(e, ast.Name):
            if e.id in self.state:
                return self.state[e.id]
            return P_FRESH  # unknown local / global function or module
        if isinstance(e, ast.Attribute):
            if e.attr in ("shape", "ndim", "size", "dtype", "__class__", "__name__"):
                return P_FRESH
            if isinstance(e.value, ast.Name) and e.value.id == "self" and e.attr in SELF_FIELD_ROOTS and "self" in self.state and self.state["self"].roots == frozenset(["self"]):
                return P("self." + e.attr)
            return self.prov(e.value).element()
        if isinstance(e, ast.Subscript):
            return self.prov(e.value).element()
        if isinstance(e, ast.Starred):
            return self.prov(e.value)
        if isinstance(e, ast.IfExp):
            t = self.truth(e.test)
            if t is True:
                return self.prov(e.body)
            if t is False:
                return self.prov(e.orelse)
            return self.prov(e.body).join(self.prov(e.orelse))
        if isinstance(e, ast.BoolOp):
            r = P_FRESH
            for v in e.values:
                r = r.join(self.prov(v))
            return r
        if isinstance(e, (ast.List, ast.Tuple, ast.Set)):
            el = FRESH
            for x in e.elts:
                p = self.prov(x)
                el = el | p.roots | p.elem  # nested fresh containers are flattened: their leaves may be borrowed
            return Prov(FRESH, el)
        if isinstance(e, ast.Dict):
            el = FRESH
            for x in e.values:
                p = self.prov(x)
                el = el | p.roots | p.elem
            return Prov(FRESH, el)
        if isinstance(e, (ast.ListComp, ast.SetComp, ast.GeneratorExp, ast.DictComp)):
            saved = dict(self.state)
            for g in e.generators:
                self.bind(g.target, self.prov(g.iter).element())
            elt = e.value if isinstance(e, ast.DictComp) else e.elt
            p = self.prov(elt)
            self.state = saved
            return Prov(FRESH, p.roots | p.elem)
        if isinstance(e, ast.Call):
            return self.call_prov(e)
        if isinstance(e, ast.NamedExpr):
            p = self.prov(e.value)
            self.bind(e.target, p)
            return p
        if isinstance(e, ast.Lambda):
            return P_FRESH
        return P_FRESH  # constants, arithmetic, comparisons, f-strings: new objects

    def call_prov(self, c: ast.Call) -> Prov:
        nm = call_name(c)
        f = c.func
        if isinstance(f, ast.Name):
            if nm in ALIAS_FUNCS and c.args:
                return self.prov(c.args[0])
            if nm in ("list", "set", "tuple", "sorted", "frozenset", "reversed", "iter", "enumerate") and c.args:
                p = self.prov(c.args[0])
                return Prov(FRESH, p.roots | p.elem)
            if nm in ("dict", "OrderedDict", "defaultdict") and c.args:
                p = self.prov(c.args[0])
                return Prov(FRESH, p.elem)
            if nm == "zip":
                el = FRESH
                for a in c.args:
                    p = self.prov(a)
                    el |= p.roots | p.elem
                return Prov(FRESH, el)
            if nm == "getattr" and c.args:
                return self.prov(c.args[0]).element()
            return P_FRESH
        if isinstance(f, ast.Attribute):
            recv = self.prov(f.value)
            d = dotted(f.value)
            if d in ("np", "numpy", "compat_fns", "torch") or (d or "").startswith(("np.", "nx.", "pd.")):
                if nm in ALIAS_FUNCS and c.args:
                    return self.prov(c.args[0])
                return P_FRESH
            if nm in ("copy", "deepcopy", "to_factor", "astype", "tolist", "to_numpy", "flatten"):
                return P_FRESH
            if nm in self.s.inplace_any:
                ip = self._inplace_arg(c, nm)
                t = self.truth(ip) if ip is not None else None
                if ip is not None and (t is False):
                    return P_FRESH
                return recv if recv.borrowed() else P_FRESH
            if not recv.borrowed() and not recv.elem:
                return P_FRESH
            if nm in ALIAS_METHODS:
                return recv.element()
            # a pgmpy getter that hands out its own field?
            cands = self.s.candidates(nm)
            if cands and any(self.s.returns_alias_of_self(x) for x in cands):
                return recv.element()
            return P_FRESH
        return P_FRESH

    def _inplace_arg(self, c: ast.Call, nm: str):
        """the expression supplied for the callee's `inplace` parameter (keyword or positional), or None"""
        ip = kwarg(c, "inplace")
        if ip is not None:
            return ip
        pos = set()
        for x in self.s.candidates(nm):
            if "inplace" in x.params:
                pos.add(x.params.index("inplace") - 1)
        if len(pos) == 1:
            i = pos.pop()
            if 0 <= i < len(c.args) and not any(isinstance(a, ast.Starred) for a in c.args):
                return c.args[i]
        return None

    # ---- binding
    def bind(self, target, p: Prov):
        if isinstance(target, ast.Name):
            self.state[target.id] = p
        elif isinstance(target, (ast.Tuple, ast.List)):
            for t in target.elts:
                self.bind(t.value if isinstance(t, ast.Starred) else t, p.element())
        # attribute / subscript stores are mutations, handled elsewhere

    # ---- mutation sites
    def note(self, base_expr, node, how, order_only=False, via=""):
        p = self.prov(base_expr)
        for r in sorted(p.roots):
            self.mutations.append(Mutation(r, node, how, order_only, via))

    def store_target(self, t, node, how):
        if isinstance(t, (ast.Attribute, ast.Subscript)):
            self.note(t.value, node, how)
        elif isinstance(t, (ast.Tuple, ast.List)):
            for x in t.elts:
                self.store_target(x, node, how)
        elif isinstance(t, ast.Starred):
            self.store_target(t.value, node, how)

    def scan_calls(self, e):
        """mutations performed by calls inside expression e"""
        if e is None:
            return
        for c in [n for n in walk_no_nested(e) if isinstance(n, ast.Call)]:
            f = c.func
            nm = call_name(c)
            o = kwarg(c, "out")
            if o is not None:
                self.note(o, c, f"passed as out= to {nm}")
            if isinstance(f, ast.Attribute):
                d = dotted(f.value)
                if d in ("np", "numpy", "np.random", "random", "logger", "warnings", "nx", "pd", "itertools", "math", "stats", "compat_fns", "torch", "os", "re"):
                    continue
                if nm in CONTAINER_MUTATORS:
                    self.note(f.value, c, f".{nm}()", order_only=nm in ORDER_ONLY)
                    continue
                if nm in NX_EDITORS:
                    self.note(f.value, c, f".{nm}()")
                    continue
                if nm in PANDAS_INPLACE_KW and _const(kwarg(c, "inplace")) is True:
                    self.note(f.value, c, f".{nm}(inplace=True)")
                    continue
                if nm in self.s.inplace_any:
                    ip = self._inplace_arg(c, nm)
                    t = self.truth(ip) if ip is not None else None
                    if ip is None:
                        cands = self.s.candidates(nm, c)
                        defaults = {_const(x.param_default("inplace")) for x in cands if "inplace" in x.params}
                        if defaults == {True}:
                            self.note(f.value, c, f".{nm}() with the default inplace=True")
                        continue
                    if t is True or (t is None and not (isinstance(ip, ast.Constant) and ip.value is False)):
                        if t is True:
                            self.note(f.value, c, f".{nm}(inplace=True)")
                        # unknown flag value: forwarded `inplace=inplace` — analysed under both foldings by the caller
                        continue
                    continue
                if nm == "__init__":
                    self.note(f.value, c, ".__init__() re-initialisation")
                    continue
                # pgmpy methods that mutate their receiver / arguments
                cands = self.s.candidates(nm, c)
                if cands:
                    recv = self.prov(f.value)
                    if recv.borrowed():
                        mut = [x for x in cands if "self" in self.s.mutated_roots(x)]
                        if mut and len(mut) == len(cands):
                            self.note(f.value, c, f".{nm}() (mutates its receiver: {mut[0].qual})", via=mut[0].qual)
                    for i, a in enumerate(c.args):
                        pa = self.prov(a)
                        if not pa.borrowed():
                            continue
                        hit = []
                        for x in cands:
                            ps = x.params[1:]
                            if i < len(ps) and ps[i] in self.s.mutated_roots(x):
                                hit.append(x)
                        if hit and len(hit) == len(cands):
                            self.note(a, c, f"passed to {hit[0].qual} which mutates parameter `{hit[0].params[1 + i]}`", via=hit[0].qual)
            elif isinstance(f, ast.Name):
                target = None
                if nm in self.fi.module.functions:
                    target = self.fi.module.functions[nm]
                else:
                    cl = self.s.repo.class_by_name(nm, self.fi.module)
                    if cl is not None:
                        target = self.s.repo.resolve_method(cl, "__init__")
                    else:
                        fs = [x for x in self.s.by_name.get(nm, []) if x.cls is None]
                        target = fs[0] if len(fs) == 1 else None
                if target is not None:
                    ps = target.params[1:] if target.cls is not None else target.params
                    mr = self.s.mutated_roots(target)
                    for i, a in enumerate(c.args):
                        if i < len(ps) and ps[i] in mr and self.prov(a).borrowed():
                            self.note(a, c, f"passed to {target.qual} which mutates parameter `{ps[i]}`", via=target.qual)
                    for k in c.keywords:
                        if k.arg in mr and self.prov(k.value).borrowed():
                            self.note(k.value, c, f"passed to {target.qual} which mutates parameter `{k.arg}`", via=target.qual)

    # ---- statements
    def run(self):
        self.block(self.fi.body)
        return self

    def block(self, stmts):
        for st in stmts:
            self.stmt(st)

    def stmt(self, st):
        if isinstance(st, (ast.FunctionDef, ast.AsyncFunctionDef, ast.ClassDef, ast.Import, ast.ImportFrom, ast.Pass, ast.Break, ast.Continue, ast.Global, ast.Nonlocal)):
            return
        if isinstance(st, ast.Assign):
            self.scan_calls(st.value)
            p = self.prov(st.value)
            for t in st.targets:
                self.store_target(t, st, "attribute/item store")
                if isinstance(t, ast.Attribute) and not self.prov(t.value).borrowed() and p.roots:
                    self.alias_stores.append((st, p.roots))
                if isinstance(t, (ast.Name, ast.Tuple, ast.List)):
                    if isinstance(t, ast.Name):
                        self.state[t.id] = p
                    elif isinstance(st.value, (ast.Tuple, ast.List)) and len(st.value.elts) == len(t.elts):
                        for a, b in zip(t.elts, st.value.elts):
                            self.bind(a, self.prov(b))
                    else:
                        self.bind(t, p)
            return
        if isinstance(st, ast.AnnAssign):
            self.scan_calls(st.value)
            if st.value is not None:
                self.store_target(st.target, st, "attribute/item store")
                self.bind(st.target, self.prov(st.value))
            return
        if isinstance(st, ast.AugAssign):
            self.scan_calls(st.value)
            if isinstance(st.target, (ast.Attribute, ast.Subscript)):
                self.note(st.target.value, st, "augmented assignment to attribute/item")
            elif isinstance(st.target, ast.Name):
                # x += y re-binds for immutable kinds (Factor/scalar) and mutates lists/arrays: only report when the
                # right-hand side makes the array kind evident is too speculative — treat as re-bind unless the target
                # currently aliases borrowed storage AND the operator is in-place for ndarray/list (+=, *=, ...) on `.values`-like data
                p = self.state.get(st.target.id, P_FRESH)
                if p.borrowed() and st.target.id in self._arrayish:
                    for r in sorted(p.roots):
                        self.mutations.append(Mutation(r, st, "in-place operator on an aliased array"))
                else:
                    self.state[st.target.id] = P_FRESH if not p.borrowed() else p
            return
        if isinstance(st, ast.Delete):
            for t in st.targets:
                if isinstance(t, (ast.Attribute, ast.Subscript)):
                    self.note(t.value, st, "del of attribute/item")
                elif isinstance(t, ast.Name):
                    self.state.pop(t.id, None)
            return
        if isinstance(st, ast.Expr):
            self.scan_calls(st.value)
            return
        if isinstance(st, ast.Return):
            self.scan_calls(st.value)
            self.returned = self.returned.join(self.prov(st.value))
            return
        if isinstance(st, ast.Raise):
            self.scan_calls(st.exc)
            return
        if isinstance(st, ast.Assert):
            self.scan_calls(st.test)
            return
        if isinstance(st, ast.If):
            self.scan_calls(st.test)
            t = self.truth(st.test)
            if t is True:
                self.block(st.body)
                return
            if t is False:
                self.block(st.orelse)
                return
            s0 = dict(self.state)
            self.block(st.body)
            s1 = self.state
            self.state = dict(s0)
            self.block(st.orelse)
            self.state = self.merge(s1, self.state, _terminates(st.body), _terminates(st.orelse))
            return
        if isinstance(st, (ast.For, ast.AsyncFor)):
            self.scan_calls(st.iter)
            s0 = dict(self.state)
            for _ in range(2):  # two passes reach the loop-carried fixed point for this lattice
                self.bind(st.target, self.prov(st.iter).element())
                n0 = len(self.mutations)
                self.block(st.body)
                self.state = self.merge(s0, self.state)
            self.block(st.orelse)
            self._dedupe()
            return
        if isinstance(st, ast.While):
            self.scan_calls(st.test)
            s0 = dict(self.state)
            for _ in range(2):
                self.block(st.body)
                self.state = self.merge(s0, self.state)
            self.block(st.orelse)
            self._dedupe()
            return
        if isinstance(st, (ast.With, ast.AsyncWith)):
            for it in st.items:
                self.scan_calls(it.context_expr)
                if it.optional_vars is not None:
                    self.bind(it.optional_vars, self.prov(it.context_expr))
            self.block(st.body)
            return
        if isinstance(st, ast.Try):
            s0 = dict(self.state)
            self.block(st.body)
            s1 = self.state
            for h in st.handlers:
                self.state = self.merge(s0, s1)
                self.block(h.body)
                s1 = self.merge(s1, self.state)
            self.state = s1
            self.block(st.orelse)
            self.block(st.finalbody)
            return
        if hasattr(ast, "Match") and isinstance(st, ast.Match):
            for c in st.cases:
                self.block(c.body)
            return

    _arrayish: Set[str] = set()

    def merge(self, a, b, a_dead=False, b_dead=False):
        if a_dead and not b_dead:
            return dict(b)
        if b_dead and not a_dead:
            return dict(a)
        out = {}
        for k in set(a) | set(b):
            pa, pb = a.get(k), b.get(k)
            if pa is None or pb is None:
                out[k] = pa or pb
            else:
                out[k] = pa.join(pb)
        return out

    def _dedupe(self):
        seen = set()
        out = []
        for m in self.mutations:
            k = (m.root, id(m.node), m.how)
            if k not in seen:
                seen.add(k)
                out.append(m)
        self.mutations = out


def _terminates(stmts):
    if not stmts:
        return False
    last = stmts[-1]
    if isinstance(last, (ast.Return, ast.Raise, ast.Continue, ast.Break)):
        return True
    if isinstance(last, ast.If):
        return _terminates(last.body) and _terminates(last.orelse)
    return False


def analyse(summ: Summaries, fi: FuncInfo, fold=None) -> Flow:
    fl = Flow(summ, fi, fold=fold)
    fl.run()
    fl._dedupe()
    return fl
