#!/usr/bin/env python3
"""tools/rename_twins.py [Cxx ...] — robustness probe (development aid, not a registered check).
For every function of a property's anchored files, build the behaviour-preserving variant in which every LOCAL variable v of that
function is renamed to v_rn (parameters and attribute names untouched), analyse it as an in-memory overlay and report rules that
raise a NEW finding (false alarm) or an analysis error (cannot decide)."""
import ast, json, os, sys, io, tokenize
from concurrent.futures import ProcessPoolExecutor
sys.path.insert(0, os.path.dirname(os.path.dirname(os.path.abspath(__file__))))
import warnings; warnings.filterwarnings("ignore")
from sa.core import Repo
from sa import cli
from sa.rules import shared


OPAQUE = bool(os.environ.get("OPAQUE"))


def rename_locals(src, fn):
    """rename locals of function node fn (by token positions) -> new source"""
    params = {a.arg for a in fn.args.posonlyargs + fn.args.args + fn.args.kwonlyargs}
    if fn.args.vararg: params.add(fn.args.vararg.arg)
    if fn.args.kwarg: params.add(fn.args.kwarg.arg)
    stores = set()
    for n in ast.walk(fn):
        if isinstance(n, ast.Name) and isinstance(n.ctx, ast.Store):
            stores.add(n.id)
        if isinstance(n, (ast.Global, ast.Nonlocal)):
            return None
    # names bound in nested functions / lambdas / comprehension scopes are fine to rename as well (consistent rename)
    targets = {s for s in stores if s not in params and not s.startswith("__")}
    if not targets:
        return None
    # do not rename names that are also used as keyword-argument names or attribute names: only Name nodes are touched
    edits = []
    opaque = {t: (f"zq{i}" if OPAQUE else t + "_rn") for i, t in enumerate(sorted(targets))}
    for n in ast.walk(fn):
        if isinstance(n, ast.Name) and n.id in targets:
            edits.append((n.lineno, n.col_offset, len(n.id), opaque[n.id]))
        # lambda / nested def parameters shadowing? skip functions that define nested defs with same names
    for n in ast.walk(fn):
        if n is not fn and isinstance(n, (ast.FunctionDef, ast.Lambda)):
            a = n.args
            for p in a.posonlyargs + a.args + a.kwonlyargs:
                if p.arg in targets:
                    if isinstance(n, ast.Lambda):
                        edits.append((p.lineno, p.col_offset, len(p.arg), opaque[p.arg]))
                    else:
                        return None
    lines = src.split("\n")
    # byte offsets: col_offset is in utf8 bytes; files are ascii mostly
    for (ln, col, ln_len, new) in sorted(edits, key=lambda e: (e[0], -e[1]), reverse=False):
        pass
    by_line = {}
    for e in edits:
        by_line.setdefault(e[0], []).append(e)
    for ln, es in by_line.items():
        line = lines[ln - 1]
        b = line.encode("utf8")
        for (_, col, l, new) in sorted(es, key=lambda e: -e[1]):
            b = b[:col] + new.encode() + b[col + l:]
        lines[ln - 1] = b.decode("utf8")
    out = "\n".join(lines)
    try:
        ast.parse(out)
    except SyntaxError:
        return None
    return out


def job(args):
    prop, rel, qual, newsrc, base = args
    try:
        repo = Repo(overlay={rel: newsrc})
        reports = cli.run_property(prop, repo)
    except Exception as e:
        return (prop, rel, qual, "crash", str(e)[:200])
    new = []
    errs = []
    for r in reports:
        if r.error:
            errs.append(r.error[:160])
        for f in r.findings:
            if list(f.key()) not in base:
                new.append(f"{f.rule}: {f.message[:140]}")
    return (prop, rel, qual, "ok", {"new": new, "errors": errs})


def main():
    props = sys.argv[1:] or ["C%02d" % i for i in range(1, 21)]
    repo = Repo()
    jobs = []
    for prop in props:
        base_reports = cli.run_property(prop, repo)
        base = [list(f.key()) for r in base_reports for f in r.findings]
        base_err = [r.error for r in base_reports if r.error]
        for rel in shared.anchor_files(prop):
            if rel not in repo.modules:
                continue
            m = repo.modules[rel]
            funcs = list(m.functions.values()) + [x for c in m.classes.values() for x in c.methods.values()]
            for f in funcs:
                ns = rename_locals(m.src, f.node)
                if ns is None or ns == m.src:
                    continue
                jobs.append((prop, rel, f.qual, ns, base))
    print(len(jobs), "rename twins")
    false_alarm = cannot = 0
    with ProcessPoolExecutor(16) as ex:
        for prop, rel, qual, st, payload in ex.map(job, jobs, chunksize=4):
            if st == "crash":
                print("CRASH", prop, rel, qual, payload)
                continue
            if payload["new"]:
                false_alarm += 1
                print("FALSE-ALARM", prop, qual, payload["new"][:2])
            elif payload["errors"]:
                cannot += 1
                print("CANNOT-DECIDE", prop, qual, payload["errors"][:1])
    print(f"summary: {len(jobs)} twins, {false_alarm} false alarms, {cannot} cannot-decide")


if __name__ == "__main__":
    main()
