#!/usr/bin/env python3
"""tools/seed_eval.py <patch.diff> <demo.py> [props...]
Apply a candidate seeded change to /repo (working tree only), run the demo and the quick checks, then undo.
Prints: demo result without/with the patch, and which checks report a new VIOLATION."""
import json, os, subprocess, sys
patch, demo = sys.argv[1], sys.argv[2]
props = sys.argv[3:] or [c["property_id"] for c in json.load(open("/verif/MANIFEST.json"))["checks"]]
env = dict(os.environ, PYTHONPATH="/repo", OMP_NUM_THREADS="2", LOKY_MAX_CPU_COUNT="2")
def run_demo():
    r = subprocess.run(["/venv/bin/python", "-W", "ignore", demo], cwd="/repo", env=env, capture_output=True, text=True, timeout=900)
    return r.returncode, (r.stdout.strip().splitlines() or [""])[-1][:150]
def sh(*a):
    return subprocess.run(a, cwd="/repo", capture_output=True, text=True)
assert sh("git", "status", "--porcelain", "--untracked-files=no").stdout.strip() == "", "repo working tree not clean"
print("demo without patch:", run_demo())
r = sh("git", "apply", "--3way", patch) if sh("git", "apply", "--check", patch).returncode else sh("git", "apply", patch)
if r.returncode:
    print("PATCH DOES NOT APPLY:", r.stderr[:300]); sh("git", "reset", "-q", "--hard", "HEAD"); sys.exit(3)
try:
    print("demo with patch:   ", run_demo())
    for p in props:
        c = subprocess.run(["/verif/check", p, "--no-evidence"], capture_output=True, text=True)
        viol = [l for l in c.stdout.splitlines() if l.startswith("VIOLATION") or l.startswith("ANALYSIS-ERROR")]
        if c.returncode:
            det = [l.strip() for l in c.stdout.splitlines() if "[" + p + "." in l][:3]
            print(f"  {p}: exit {c.returncode}: {len(viol)} line(s)"); [print("      ", d[:230]) for d in det]
finally:
    sh("git", "reset", "-q", "--hard", "HEAD")
    assert sh("git", "status", "--porcelain", "--untracked-files=no").stdout.strip() == ""
