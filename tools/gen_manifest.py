#!/usr/bin/env python3
"""Regenerate /verif/MANIFEST.json from the rule registry (run after adding/removing a property's rules)."""
import importlib
import json
import os
import sys

VERIF = os.path.dirname(os.path.dirname(os.path.abspath(__file__)))
sys.path.insert(0, VERIF)
from sa import registry  # noqa: E402

NA = {}

claimed, na = [], []
for i in range(1, 21):
    pid = "C%02d" % i
    if pid in NA:
        na.append({"property_id": pid, "reason": NA[pid]})
        continue
    path = os.path.join(VERIF, "sa", "rules", pid.lower() + ".py")
    if not os.path.exists(path):
        na.append({"property_id": pid, "reason": "not claimed yet: the static rules for this property are still under construction (DESIGN.md section 4 describes them)"})
        continue
    importlib.import_module("sa.rules." + pid.lower())
    rules = registry.RULES.get(pid, [])
    rule_txt = "; ".join(f"{rid} ({desc})" for rid, desc, _, _ in rules)
    claimed.append({
        "property_id": pid,
        "quick_cmd": f"./check {pid} --tier quick",
        "thorough_cmd": f"./check {pid} --tier thorough",
        "evidence_file": f"/verif/evidence/{pid}.json",
        "replay_cmd_template": f"./check {pid} --replay {{path}}",
        "engine": "sa",
        "level_claimed": {
            "category": "other",
            "text": (
                "Static analysis of the current source (ast; pgmpy never imported or run). Decides structural necessary "
                f"conditions of the property: {registry.DECIDES.get(pid, '')} It does NOT decide: "
                f"{'; '.join(registry.NOT_DECIDED.get(pid, []))}. Rules: {rule_txt}. "
                "A rule holds or fails for all inputs at once because it is a statement about the program text; thorough adds a "
                "mutation-adequacy self-test (breaking variants must be reported, behaviour-preserving twins must stay silent, "
                "seeded changes under /verif/seeded must be reported)."
            ),
            "design_ref": f"DESIGN.md section 4 ({pid})",
        },
        "level_note": "trusted base: CPython ast; the rule tables frozen after reading the code; documented semantics of "
                      "numpy/networkx/pandas calls named in the rules; no dynamic attribute tricks on analysed paths. "
                      "Numerical clauses of the property are out of reach and stated as such in the evidence.",
        "technique": "static analysis: custom ast checkers (guard truth tables, alias/effect, layout and forwarding rules) specific to pgmpy",
    })

manifest = {
    "version": 1,
    "setup_cmd": "sh /verif/setup.sh",
    "hooks": {
        "guard": "PGMPY_VERIF",
        "enable": "no source hooks are needed: the checks parse /repo's working tree; the guard name is reserved and unused",
        "baseline_off_cmd": "cd /repo && /venv/bin/python -m pytest -ra -q -p no:cacheprovider --timeout=900 --continue-on-collection-errors",
        "source_commits": [],
        "add_only": True,
    },
    "engines": [
        {"name": "sa", "path": "/verif/sa", "serves_properties": [c["property_id"] for c in claimed],
         "kind_free_text": "repository-specific static analysis on Python ast: resolved class/function model, structured path-condition "
                           "walker with exhaustive truth-table comparison, alias/effect analysis, layout/forwarding/def-use rules"},
    ],
    "checks": claimed,
    "not_applicable": na,
    "notes": "All checks are static (no execution of pgmpy). Exit 0 held / 1 VIOLATION / 2 ANALYSIS-ERROR. Known findings: /verif/known_findings.json.",
}
json.dump(manifest, open(os.path.join(VERIF, "MANIFEST.json"), "w"), indent=1)
print("claimed:", [c["property_id"] for c in claimed])
print("not_applicable:", [n["property_id"] for n in na])
