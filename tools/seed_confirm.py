#!/usr/bin/env python3
"""tools/seed_confirm.py <seedout dir> <variant> <out json>

Confirm a candidate seeded change in a scratch worktree of /repo's HEAD (outside /repo and /verif):
  * the patch applies and the package still imports,
  * the demo passes without the patch and fails with it,
  * the existing tests of the touched areas (and, with --full, the whole suite) show no stable-pass test failing.
The worktree is removed afterwards.
"""
import json, os, re, shutil, subprocess, sys, tempfile

src, v, out = sys.argv[1], sys.argv[2], sys.argv[3]
full = "--full" in sys.argv
patch = os.path.join(src, f"patch_{v}.diff")
demo = os.path.join(src, f"demo_{v}.py")
stable = set(json.load(open("/root/.vp/BASELINE.json"))["stable_pass"])
wt = tempfile.mkdtemp(prefix="seedwt-", dir="/tmp")
os.rmdir(wt)
res = {"patch": patch, "variant": v}
env = dict(os.environ, OMP_NUM_THREADS="2", MKL_NUM_THREADS="2", LOKY_MAX_CPU_COUNT="2")


def sh(*a, cwd=None, timeout=None, e=None):
    return subprocess.run(a, cwd=cwd, capture_output=True, text=True, timeout=timeout, env=e or env)


def run_demo():
    r = sh("/venv/bin/python", "-W", "ignore", demo, cwd=wt, timeout=1200, e=dict(env, PYTHONPATH=wt))
    return r.returncode, (r.stdout.strip().splitlines() or [""])[-1][:200]


try:
    r = sh("git", "-C", "/repo", "worktree", "add", "--detach", wt, "HEAD")
    assert r.returncode == 0, r.stderr
    res["head"] = sh("git", "-C", "/repo", "rev-parse", "--short", "HEAD").stdout.strip()
    res["demo_without_patch"] = run_demo()
    a = sh("git", "apply", patch, cwd=wt)
    if a.returncode:
        a = sh("git", "apply", "--3way", patch, cwd=wt)
    res["applies"] = a.returncode == 0
    if res["applies"]:
        imp = sh("/venv/bin/python", "-W", "ignore", "-c", "import pgmpy, pgmpy.models, pgmpy.inference, pgmpy.estimators, pgmpy.readwrite, pgmpy.sampling; print(pgmpy.__file__)",
                 cwd=wt, e=dict(env, PYTHONPATH=wt))
        res["imports"] = imp.returncode == 0 and wt in imp.stdout
        res["demo_with_patch"] = run_demo()
        files = [l[6:].strip() for l in open(patch) if l.startswith("+++ b/")]
        res["files"] = files
        dirs = set()
        for f in files:
            parts = f.split("/")
            if len(parts) >= 3:
                dirs.add("pgmpy/tests/test_" + parts[1])
            if parts[1] in ("base", "factors", "utils", "global_vars.py"):
                dirs |= {"pgmpy/tests/test_models", "pgmpy/tests/test_inference", "pgmpy/tests/test_factors", "pgmpy/tests/test_base", "pgmpy/tests/test_estimators"}
            if parts[1] == "models":
                dirs |= {"pgmpy/tests/test_inference", "pgmpy/tests/test_sampling", "pgmpy/tests/test_readwrite"}
            if parts[1] == "inference":
                dirs |= {"pgmpy/tests/test_models"}
        dirs = sorted(d for d in dirs if os.path.isdir(os.path.join(wt, d)))
        if full:
            dirs = ["pgmpy/tests"]
        res["test_dirs"] = dirs
        t = sh("/venv/bin/python", "-m", "pytest", "-q", "-p", "no:cacheprovider", "--timeout=900", "-rf", *dirs, cwd=wt, timeout=7200)
        tail = t.stdout.strip().splitlines()[-1] if t.stdout.strip() else ""
        res["pytest_summary"] = tail
        regress = []
        for line in t.stdout.splitlines():
            m = re.match(r"(FAILED|ERROR) (\S+)", line)
            if m:
                parts = m.group(2).split("::")
                key = parts[0][:-3].replace("/", ".") + "." + "::".join(parts[1:]) if len(parts) > 2 else None
                if key in stable:
                    regress.append(key)
        # order-dependent stochastic tests can flip in a subset run: re-run each suspect on its own
        real = []
        for key in regress:
            mod, rest = key.rsplit(".", 1)[0], key
            parts = key.split("::")
            path = parts[0].rsplit(".", 1)[0].replace(".", "/") + ".py"
            tid = path + "::" + parts[0].rsplit(".", 1)[1] + "::" + "::".join(parts[1:])
            ok_alone = False
            for _ in range(2):  # unseeded stochastic tests: two attempts on their own
                t2 = sh("/venv/bin/python", "-m", "pytest", "-q", "-p", "no:cacheprovider", "--timeout=900", tid, cwd=wt, timeout=1800)
                if " passed" in (t2.stdout.strip().splitlines() or [""])[-1] and " failed" not in (t2.stdout.strip().splitlines() or [""])[-1]:
                    ok_alone = True
                    break
            if not ok_alone:
                real.append(key)
        res["subset_flaky"] = [k for k in regress if k not in real]
        regress = real
        res["stable_pass_regressions"] = regress
        res["confirmed"] = bool(res["imports"] and res["demo_without_patch"][0] == 0 and res["demo_with_patch"][0] != 0 and not regress and "passed" in tail)
    else:
        res["confirmed"] = False
        res["apply_error"] = a.stderr[:300]
finally:
    sh("git", "-C", "/repo", "worktree", "remove", "--force", wt)
    shutil.rmtree(wt, ignore_errors=True)
json.dump(res, open(out, "w"), indent=1)
print(json.dumps({k: res.get(k) for k in ("patch", "applies", "demo_without_patch", "demo_with_patch", "pytest_summary", "stable_pass_regressions", "confirmed")}))
