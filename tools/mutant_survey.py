#!/usr/bin/env python3
"""tools/mutant_survey.py Cxx [...] [--max N] [--jobs K] [--seed S] — which generic mutants of the anchored mechanisms survive the EXISTING tests and are
not reported by the static checks?  (development aid; runs the test-suite of scratch copies under /tmp/mut, never /repo)
Stage 0: mutants (tools/auto_mutants operators) of the functions inside the property's anchors.mechanism line ranges; static verdict with the property's rules.
Stage 1: every statically-silent mutant is written into a scratch copy of the package and the mapped test files run with -x (killed / survived).
Stage 2: survivors of stage 1 run the test directories of the packages that depend on the mutated file.
Output: /tmp/mut/survey_<Cxx>.json with one record per mutant (static verdict, test verdict, unified diff)."""
import ast, copy, difflib, json, os, random, re, shutil, subprocess, sys
from concurrent.futures import ProcessPoolExecutor, ThreadPoolExecutor
sys.path.insert(0, os.path.dirname(os.path.dirname(os.path.abspath(__file__))))
import warnings; warnings.filterwarnings("ignore")
from sa.core import Repo
from sa import cli
import auto_mutants as am

ROOT = "/tmp/mut"
FILE_TESTS = {
    "pgmpy/inference/ExactInference.py": ["pgmpy/tests/test_inference/test_ExactInference.py", "pgmpy/tests/test_inference/test_Inference.py"],
    "pgmpy/inference/base.py": ["pgmpy/tests/test_inference/test_Inference.py", "pgmpy/tests/test_inference/test_ExactInference.py"],
    "pgmpy/inference/dbn_inference.py": ["pgmpy/tests/test_inference/test_dbn_inference.py", "pgmpy/tests/test_models/test_DynamicBayesianNetwork.py"],
    "pgmpy/inference/CausalInference.py": ["pgmpy/tests/test_inference/test_CausalInference.py"],
    "pgmpy/inference/EliminationOrder.py": ["pgmpy/tests/test_inference/test_elimination_order.py", "pgmpy/tests/test_inference/test_ExactInference.py"],
    "pgmpy/models/BayesianNetwork.py": ["pgmpy/tests/test_models/test_BayesianNetwork.py", "pgmpy/tests/test_models/test_BayesianModel.py"],
    "pgmpy/models/MarkovNetwork.py": ["pgmpy/tests/test_models/test_MarkovNetwork.py", "pgmpy/tests/test_models/test_MarkovModel.py"],
    "pgmpy/models/DynamicBayesianNetwork.py": ["pgmpy/tests/test_models/test_DynamicBayesianNetwork.py", "pgmpy/tests/test_inference/test_dbn_inference.py"],
    "pgmpy/models/FactorGraph.py": ["pgmpy/tests/test_models/test_FactorGraph.py"],
    "pgmpy/models/JunctionTree.py": ["pgmpy/tests/test_models/test_JunctionTree.py"],
    "pgmpy/models/ClusterGraph.py": ["pgmpy/tests/test_models/test_ClusterGraph.py"],
    "pgmpy/models/LinearGaussianBayesianNetwork.py": ["pgmpy/tests/test_models/test_LinearGaussianBayesianNetwork.py"],
    "pgmpy/base/DAG.py": ["pgmpy/tests/test_base"],
    "pgmpy/factors/discrete/DiscreteFactor.py": ["pgmpy/tests/test_factors/test_discrete/test_Factor.py"],
    "pgmpy/factors/discrete/CPD.py": ["pgmpy/tests/test_factors/test_discrete/test_Factor.py"],
    "pgmpy/factors/discrete/JointProbabilityDistribution.py": ["pgmpy/tests/test_factors/test_discrete/test_Factor.py"],
    "pgmpy/factors/base.py": ["pgmpy/tests/test_factors"],
    "pgmpy/factors/distributions/GaussianDistribution.py": ["pgmpy/tests/test_factors/test_continuous"],
    "pgmpy/factors/distributions/CanonicalDistribution.py": ["pgmpy/tests/test_factors/test_continuous"],
    "pgmpy/factors/continuous/LinearGaussianCPD.py": ["pgmpy/tests/test_factors/test_continuous", "pgmpy/tests/test_models/test_LinearGaussianBayesianNetwork.py"],
    "pgmpy/independencies/Independencies.py": ["pgmpy/tests/test_independencies"],
    "pgmpy/sampling/Sampling.py": ["pgmpy/tests/test_sampling"],
    "pgmpy/sampling/base.py": ["pgmpy/tests/test_sampling"],
    "pgmpy/readwrite/BIF.py": ["pgmpy/tests/test_readwrite/test_BIF.py"],
    "pgmpy/readwrite/XMLBIF.py": ["pgmpy/tests/test_readwrite/test_XMLBIF.py"],
    "pgmpy/readwrite/UAI.py": ["pgmpy/tests/test_readwrite/test_UAI.py"],
    "pgmpy/readwrite/NET.py": ["pgmpy/tests/test_readwrite/test_NET.py"],
    "pgmpy/estimators/CITests.py": ["pgmpy/tests/test_estimators/test_CITests.py", "pgmpy/tests/test_estimators/test_PC.py"],
    "pgmpy/estimators/PC.py": ["pgmpy/tests/test_estimators/test_PC.py"],
    "pgmpy/estimators/HillClimbSearch.py": ["pgmpy/tests/test_estimators/test_HillClimbSearch.py"],
    "pgmpy/estimators/TreeSearch.py": ["pgmpy/tests/test_estimators/test_TreeSearch.py"],
    "pgmpy/estimators/StructureScore.py": ["pgmpy/tests/test_estimators/test_StructureScore.py", "pgmpy/tests/test_estimators/test_HillClimbSearch.py"],
    "pgmpy/estimators/ScoreCache.py": ["pgmpy/tests/test_estimators/test_ScoreCache.py"],
    "pgmpy/estimators/MLE.py": ["pgmpy/tests/test_estimators/test_MaximumLikelihoodEstimator.py", "pgmpy/tests/test_models/test_BayesianNetwork.py"],
    "pgmpy/estimators/BayesianEstimator.py": ["pgmpy/tests/test_estimators/test_BayesianEstimator.py"],
    "pgmpy/estimators/EM.py": ["pgmpy/tests/test_estimators/test_EM.py"],
    "pgmpy/estimators/base.py": ["pgmpy/tests/test_estimators/test_BaseEstimator.py", "pgmpy/tests/test_estimators/test_ParameterEstimator.py", "pgmpy/tests/test_estimators/test_MaximumLikelihoodEstimator.py"],
    "pgmpy/estimators/ExhaustiveSearch.py": ["pgmpy/tests/test_estimators/test_ExhaustiveSearch.py"],
}
WIDE = {
    "pgmpy/inference/": ["pgmpy/tests/test_inference", "pgmpy/tests/test_models"],
    "pgmpy/models/": ["pgmpy/tests/test_models", "pgmpy/tests/test_inference", "pgmpy/tests/test_sampling", "pgmpy/tests/test_readwrite"],
    "pgmpy/base/": ["pgmpy/tests/test_base", "pgmpy/tests/test_models", "pgmpy/tests/test_estimators/test_PC.py", "pgmpy/tests/test_inference/test_CausalInference.py"],
    "pgmpy/factors/": ["pgmpy/tests/test_factors", "pgmpy/tests/test_models", "pgmpy/tests/test_inference"],
    "pgmpy/independencies/": ["pgmpy/tests/test_independencies", "pgmpy/tests/test_base"],
    "pgmpy/sampling/": ["pgmpy/tests/test_sampling", "pgmpy/tests/test_models/test_BayesianNetwork.py", "pgmpy/tests/test_inference/test_ApproxInference.py"],
    "pgmpy/readwrite/": ["pgmpy/tests/test_readwrite", "pgmpy/tests/test_models/test_BayesianNetwork.py"],
    "pgmpy/estimators/": ["pgmpy/tests/test_estimators", "pgmpy/tests/test_models/test_BayesianNetwork.py"],
}
ENV = dict(os.environ, LOKY_MAX_CPU_COUNT="2", OMP_NUM_THREADS="2", MKL_NUM_THREADS="2", OPENBLAS_NUM_THREADS="2")


def stable_ids():
    b = json.load(open("/root/.vp/BASELINE.json"))
    return set(b.get("stable_pass", []))


def static_job(args):
    prop, rel, newsrc, base = args
    try:
        repo = Repo(overlay={rel: newsrc})
        reports = cli.run_property(prop, repo)
    except Exception:
        return "crash"
    new = [f.rule for r in reports for f in r.findings if list(f.key()) not in base]
    return "detected:" + ",".join(sorted(set(new))) if new else ("cannot-decide" if any(r.error for r in reports) else "silent")


def run_tests(slot, rel, newsrc, tests, stable):
    """-> 'killed' | 'survived'; only failures of stable-pass tests count"""
    d = f"{ROOT}/slot{slot}"
    path = os.path.join(d, rel)
    orig = open(path).read()
    open(path, "w").write(newsrc)
    try:
        try:
            r = subprocess.run(["/venv/bin/python", "-m", "pytest", "-q", "-p", "no:cacheprovider", "--timeout=600", "-rf", "-x", *tests], cwd=d, env=ENV, capture_output=True, text=True, timeout=2400)
            out = r.stdout
        except subprocess.TimeoutExpired:
            return "killed(timeout)"
        for line in out.splitlines():
            m = re.match(r"(FAILED|ERROR) (\S+)", line)
            if m:
                parts = m.group(2).split("::")
                key = parts[0][:-3].replace("/", ".") + "." + "::".join(parts[1:]) if len(parts) > 2 else None
                if key in stable or key is None:
                    return "killed"
        if "-x" in ("-x",) and re.search(r"stopping after 1 failures", out) and not re.search(r"FAILED|ERROR", out):
            return "killed"
        # with -x a non-stable failure stops the run early: rerun without -x in that case
        if "stopping after" in out:
            r = subprocess.run(["/venv/bin/python", "-m", "pytest", "-q", "-p", "no:cacheprovider", "--timeout=600", "-rf", *tests], cwd=d, env=ENV, capture_output=True, text=True, timeout=3600)
            for line in r.stdout.splitlines():
                m = re.match(r"(FAILED|ERROR) (\S+)", line)
                if m:
                    parts = m.group(2).split("::")
                    key = parts[0][:-3].replace("/", ".") + "." + "::".join(parts[1:]) if len(parts) > 2 else None
                    if key in stable:
                        return "killed"
        return "survived"
    finally:
        open(path, "w").write(orig)


def main():
    argv = sys.argv[1:]
    mx, jobs = 120, 4
    if "--max" in argv:
        mx = int(argv[argv.index("--max") + 1]); del argv[argv.index("--max"):argv.index("--max") + 2]
    if "--jobs" in argv:
        jobs = int(argv[argv.index("--jobs") + 1]); del argv[argv.index("--jobs"):argv.index("--jobs") + 2]
    seed = 7
    if "--seed" in argv:
        seed = int(argv[argv.index("--seed") + 1]); del argv[argv.index("--seed"):argv.index("--seed") + 2]
    props = argv
    os.makedirs(ROOT, exist_ok=True)
    for k in range(jobs):
        d = f"{ROOT}/slot{k}"
        if not os.path.isdir(d):
            os.makedirs(d)
            subprocess.run(["git", "-C", "/repo", "archive", "HEAD", "pgmpy", "pytest.ini"], stdout=open(d + "/a.tar", "wb"), stderr=subprocess.DEVNULL)
            subprocess.run(["tar", "-xf", "a.tar"], cwd=d); os.remove(d + "/a.tar")
    stable = stable_ids()
    repo = Repo()
    pj = {json.loads(l)["id"]: json.loads(l) for l in open("/verif/properties.jsonl")}
    rnd = random.Random(seed)
    for prop in props:
        base = [list(f.key()) for r in cli.run_property(prop, repo) for f in r.findings]
        ranges = {}
        for mech in pj[prop]["anchors"]["mechanism"]:
            w = mech["where"]
            rel, _, spans = w.partition(":")
            for sp in spans.split(","):
                if "-" in sp:
                    a, b = sp.split("-")
                    ranges.setdefault(rel, []).append((int(a), int(b)))
        cand = []
        for rel, spans in ranges.items():
            if rel not in repo.modules:
                continue
            m = repo.modules[rel]
            orig = ast.parse(m.src)
            for fn0 in [n for n in ast.walk(orig) if isinstance(n, ast.FunctionDef)]:
                # anchors were written against the pinned commit; the fixes moved lines a little: allow a margin
                if not any(a - 40 <= fn0.lineno <= b + 40 or fn0.lineno <= a <= fn0.end_lineno for a, b in spans):
                    continue
                if any(isinstance(p, ast.FunctionDef) and p is not fn0 and p.lineno < fn0.lineno and p.end_lineno >= fn0.end_lineno for p in ast.walk(orig) if isinstance(p, ast.FunctionDef)):
                    continue
                for op, desc, mut in am.sites(fn0):
                    cand.append((rel, fn0, op, desc, mut, m.src))
        rnd.shuffle(cand)
        recs = []
        todo = []
        for rel, fn0, op, desc, mut, src in cand[:mx]:
            new_fn = copy.deepcopy(fn0)
            if not mut(new_fn):
                continue
            ns = am.emit(src, fn0, new_fn)
            if ns is None or ns == src:
                continue
            diff = "".join(difflib.unified_diff(src.splitlines(True), ns.splitlines(True), rel, rel, n=1))
            recs.append({"prop": prop, "file": rel, "func": fn0.name, "op": op, "desc": desc, "diff": diff, "_src": ns})
        with ProcessPoolExecutor(jobs) as ex:
            for rec, st in zip(recs, ex.map(static_job, [(prop, r["file"], r["_src"], base) for r in recs], chunksize=2)):
                rec["static"] = st
        silent = [r for r in recs if r["static"] in ("silent", "cannot-decide")]
        print(prop, len(recs), "mutants;", len(recs) - len(silent), "reported statically;", len(silent), "to the tests", flush=True)
        slots = list(range(jobs))

        def work(i_rec):
            i, rec = i_rec
            slot = i % jobs
            return rec, slot
        # run with one thread per slot so that a slot is never used twice at once
        def slot_worker(slot):
            for i, rec in enumerate(silent):
                if i % jobs != slot:
                    continue
                t1 = FILE_TESTS.get(rec["file"]) or next((v for k, v in WIDE.items() if rec["file"].startswith(k)), ["pgmpy/tests"])
                v = run_tests(slot, rec["file"], rec["_src"], t1, stable)
                rec["tests_stage1"] = v
                if v == "survived":
                    t2 = next((v_ for k, v_ in WIDE.items() if rec["file"].startswith(k)), None)
                    if t2 and sorted(t2) != sorted(t1):
                        rec["tests_stage2"] = run_tests(slot, rec["file"], rec["_src"], t2, stable)
                print(prop, rec["func"], rec["op"], rec["desc"][:60], "->", rec.get("tests_stage2", rec["tests_stage1"]), flush=True)
        with ThreadPoolExecutor(jobs) as tp:
            list(tp.map(slot_worker, range(jobs)))
        for r in recs:
            r.pop("_src", None)
        json.dump(recs, open(f"{ROOT}/survey_{prop}.json", "w"), indent=1)
        surv = [r for r in silent if r.get("tests_stage2", r.get("tests_stage1")) == "survived"]
        print(f"== {prop}: {len(recs)} mutants, statically reported {len(recs) - len(silent)}, killed by tests {len(silent) - len(surv)}, SURVIVED both {len(surv)}", flush=True)


if __name__ == "__main__":
    main()
