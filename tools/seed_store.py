#!/usr/bin/env python3
"""tools/seed_store.py <Cxx> <variant> [--force] [--as=<letter>]   (env SEEDOUT / SEEDCONF select another round's directories)
Store a confirmed seeded change as /verif/seeded/<Cxx><variant>/ (patch.diff rebased on /repo HEAD, demo.py, meta.json).
Requires /tmp/seedconf/<Cxx>_<variant>.json (written by tools/seed_confirm.py) with confirmed=true.
Records which rules of which checks report the change (meta.json "detected_by")."""
import json, os, shutil, subprocess, sys

prop, v = sys.argv[1], sys.argv[2]
src = os.environ.get("SEEDOUT", "/tmp/seedout") + f"/{prop}"
conf = json.load(open(os.environ.get("SEEDCONF", "/tmp/seedconf") + f"/{prop}_{v}.json"))
store_v = next((a.split("=", 1)[1] for a in sys.argv[3:] if a.startswith("--as=")), v)
if not conf.get("confirmed") and "--force" not in sys.argv:
    sys.exit(f"{prop}{v}: not confirmed: {conf.get('pytest_summary')} {conf.get('stable_pass_regressions')} demo {conf.get('demo_with_patch')}")
dst = f"/verif/seeded/{prop}{store_v}"
os.makedirs(dst, exist_ok=True)


def sh(*a, cwd="/repo"):
    return subprocess.run(a, cwd=cwd, capture_output=True, text=True)


assert sh("git", "status", "--porcelain", "--untracked-files=no").stdout.strip() == "", "repo not clean"
patch = f"{src}/patch_{v}.diff"
r = sh("git", "apply", patch)
if r.returncode:
    r = sh("git", "apply", "--3way", patch)
    assert r.returncode == 0, r.stderr
try:
    diff = sh("git", "diff", "HEAD").stdout
    open(f"{dst}/patch.diff", "w").write(diff)
    manifest = json.load(open("/verif/MANIFEST.json"))
    props = [c["property_id"] for c in manifest["checks"]]
    detected = []
    for p in props:
        c = subprocess.run(["/verif/check", p, "--json"], capture_output=True, text=True)
        if c.returncode == 1:
            try:
                out = json.loads(c.stdout)
            except Exception:
                continue
            known = {tuple(k) for k in [(e["property"], e["rule"], e["file"], e["function"], e["construct"]) for e in json.load(open("/verif/known_findings.json"))["findings"]]}
            for f in out["findings"]:
                key = (f["property"], f["rule"], f["file"], f["function"], f["construct"])
                if key not in known and f["rule"] not in detected:
                    detected.append(f["rule"])
finally:
    sh("git", "reset", "-q", "--hard", "HEAD")
shutil.copy(f"{src}/demo_{v}.py", f"{dst}/demo.py")
am = {}
if os.path.exists(f"{src}/meta_{v}.json"):
    try:
        am = json.load(open(f"{src}/meta_{v}.json"))
    except Exception:
        am = {}
primary = [d for d in detected if d.startswith(prop + ".")] + [d for d in detected if not d.startswith(prop + ".")]
meta = {
    "id": f"{prop}{store_v}",
    "property": prop,
    "summary": am.get("summary", ""),
    "needs_to_manifest": am.get("needs_to_manifest", ""),
    "files": conf.get("files", am.get("files", [])),
    "origin": "written by an independent sub-agent that saw only the property text and a scratch worktree of pgmpy",
    "confirmed": {
        "repo_head": conf.get("head"),
        "what_i_ran": "tools/seed_confirm.py: scratch git worktree of /repo HEAD (outside /repo and /verif); git apply; import check; demo without/with the patch; "
                      "pytest of the touched areas " + " ".join(conf.get("test_dirs", [])) + " compared with BASELINE stable_pass; worktree removed",
        "demo_without_patch": conf.get("demo_without_patch"),
        "demo_with_patch": conf.get("demo_with_patch"),
        "pytest_summary": conf.get("pytest_summary"),
        "stable_pass_regressions": conf.get("stable_pass_regressions"),
        "agent_full_suite": am.get("tests_run", ""),
    },
    "detected_by": primary,
}
json.dump(meta, open(f"{dst}/meta.json", "w"), indent=1)
print(prop + store_v, "stored; detected_by", primary)
