#!/usr/bin/env python3
"""usage: pytest ... -rf | tools/cmp_baseline.py   — lists FAILED tests that are in BASELINE.json's stable_pass (regressions)."""
import json, re, sys
stable = set(json.load(open('/root/.vp/BASELINE.json'))['stable_pass'])
bad = []
n = 0
for line in sys.stdin:
    m = re.match(r'(FAILED|ERROR) (\S+)', line)
    if not m:
        continue
    n += 1
    tid = m.group(2)
    parts = tid.split('::')
    mod = parts[0][:-3].replace('/', '.')
    key = mod + '.' + parts[1] + '::' + '::'.join(parts[2:]) if len(parts) > 2 else mod + '::' + parts[1]
    if key in stable:
        bad.append(key)
print(f"{n} failed/error lines; {len(bad)} of them are stable-pass tests (regressions)")
for b in bad:
    print("REGRESSION", b)
sys.exit(1 if bad else 0)
